/-
  Proofs/Mvp60SlTerm.lean — package R60c: termination.  On the class with jumps the MVP-6.0 pipeline always moves: a tick
  executes the next instruction of the sequential run, or it brings it closer (a measure on the state decreases), or the run
  ends.  With `Proofs.Mvp60Sl.mvp60_j_never_panics` this is totality.
-/
import MajoranaVerif.Proofs.Mvp60SlNoPanic
open GoInt

set_option linter.unusedSimpArgs false
set_option linter.unusedVariables false

namespace Proofs.Mvp60Sl
open Model Model.Mvp60 Proofs.Mvp60Flush
open Model.Seq (App Halt Arch stepArch)

/-! ### `Live` through the phases of a tick -/

theorem connected_live (s : State) (hl : Live s) : Live (connected s) := by
  have hrun : runners (connected s) = runners s := by simp only [runners, connected, inside_connect]
  refine ⟨?_, ?_, ?_, ?_, ?_, ?_, ?_, hl.fuDone, ?_, hl.pcap⟩
  rotate_right
  · show (s.executeBus.connect (s.cycles + 1)).bufferLength = 2
    rw [(connect_lengths _ _).2]; exact hl.xbl
  · exact ((hl.xdue.connect (s.cycles + 1)).mono (by show s.cycles + 1 ≤ s.cycles + 1 + 1; omega))
  · exact ((hl.cdue.connect (s.cycles + 1)).mono (by show s.cycles + 1 ≤ s.cycles + 1 + 1; omega))
  · exact ((hl.ddue.connect (s.cycles + 1)).mono (by show s.cycles + 1 ≤ s.cycles + 1 + 1; omega))
  · show 1 ≤ (s.controlBus.connect (s.cycles + 1)).queueLength
    rw [(connect_lengths _ _).1]; exact hl.cql
  · show 1 ≤ (s.decodeBus.connect (s.cycles + 1)).queueLength
    rw [(connect_lengths _ _).1]; exact hl.dql
  · show BackL s.ctx (s.writeBus.connect (s.cycles + 1)).inside (s.executeBus.connect (s.cycles + 1)).inside
    rw [inside_connect, inside_connect]; exact hl.backL
  · rw [hrun]; exact hl.retIn

theorem fetch_live (app : App) (s s2 : State) (hl : Live s) (hr : fetchCycle app s = .ok s2) : Live s2 := by
  unfold fetchCycle at hr
  simp only [bind, Except.bind] at hr
  split at hr
  · cases hr
  · rename_i v hv
    obtain ⟨fu', mmu', bus'⟩ := v
    simp only [pure, Except.pure, Except.ok.injEq] at hr
    subst hr
    obtain ⟨e1, e2, e3⟩ := fetchCore_live app s.cycles s.fu fu' s.mmu mmu' s.decodeBus bus' hl.ddue hl.fuDone hv
    exact ⟨hl.xdue, hl.cdue, e1, hl.cql, by (show 1 ≤ bus'.queueLength); rw [e3]; exact hl.dql, hl.backL, hl.retIn, e2, hl.xbl, hl.pcap⟩

theorem decode_live (app : App) (s s3 : State) (hl : Live s) (hr : decodeCycle app s = .ok s3) : Live s3 := by
  unfold decodeCycle decodeCore at hr
  by_cases hdr : s.du.ret = true
  · simp only [hdr, if_true, bind, Except.bind, pure, Except.pure, Except.ok.injEq] at hr
    subst hr; exact hl
  · cases hpd : s.du.pendingBranchResolution with
    | true =>
      simp only [hdr, hpd, if_true, Bool.false_eq_true, if_false, bind, Except.bind, pure, Except.pure, Except.ok.injEq] at hr
      subst hr; exact hl
    | false =>
      simp only [hdr, hpd, Bool.false_eq_true, if_false, bind, Except.bind] at hr
      split at hr
      · cases hr
      · rename_i v hv
        obtain ⟨du', d', c'⟩ := v
        simp only [pure, Except.pure, Except.ok.injEq] at hr
        subst hr
        obtain ⟨e1, e2, e3, e4, e5, e6⟩ := decodeLoop_live app s.ctx s.cycles _ s.du du' s.decodeBus d' s.controlBus c' hv
        refine ⟨hl.xdue, e4 hl.cdue, fun e he => hl.ddue e (by rw [← e1]; exact he),
          by (show 1 ≤ c'.queueLength); rw [e3]; exact hl.cql, by (show 1 ≤ d'.queueLength); rw [e2]; exact hl.dql,
          hl.backL, ?_, hl.fuDone, hl.xbl, hl.pcap⟩
        intro hret
        rcases e5 hret with h1 | ⟨r, hr1, hr2⟩
        · exact absurd h1 hdr
        · exact ⟨r, by simp only [runners, List.mem_append]; exact Or.inr hr1, hr2⟩

theorem issued_inside {c p : Int} {pushed : List Runner} {x y : Model.Context × BufferedBus Runner}
    (h : Issued c p pushed x y) : y.2.inside = x.2.inside ++ pushed := by
  induction h with
  | nil p x => simp
  | cons p r rs ctx bus y _ _ _ _ ih =>
    rw [ih]; simp only [inside_add, List.append_assoc, List.singleton_append]

theorem control_live (s : State) (hl : Live s) (hp : s.cuPendings.items.length ≤ 1) : Live (controlCycle s) := by
  obtain ⟨pushed, i1, i2, i3, fr, _⟩ := controlCycle_spec s hp
  have hbuf := issued_buffer i1
  have hb := issued_backL i1 (W := s.writeBus.inside) hl.backL
  have b4 := issued_inside i1
  simp only at hbuf hb b4
  obtain ⟨c1, c2⟩ := controlCycle_cbus s
  have hrun : runners (controlCycle s) = runners s := by
    simp only [runners, b4, List.append_assoc]
    rw [← List.append_assoc pushed, i2]
  refine ⟨?_, ?_, by rw [fr.decodeBus, fr.cycles]; exact hl.ddue, by rw [c2]; exact hl.cql,
    by rw [fr.decodeBus]; exact hl.dql, by rw [fr.writeBus]; exact hb, by rw [hrun, fr.du]; exact hl.retIn,
    by rw [fr.fu]; exact hl.fuDone, by (have := issued_bl i1; simp only at this; rw [this]; exact hl.xbl),
    by rw [controlCycle_pcap]; exact hl.pcap⟩
  · intro e he
    rw [hbuf] at he
    rw [fr.cycles]
    rcases List.mem_append.mp he with he | he
    · exact hl.xdue e he
    · simp only [List.mem_map] at he
      obtain ⟨r, _, rfl⟩ := he
      exact Int.le_refl _
  · intro e he
    rw [c1] at he
    rw [fr.cycles]
    exact hl.cdue e he

/-! ### the control unit issues the oldest runner when nothing is in its way -/

theorem handleRunner_push (ctx : Model.Context) (bus : BufferedBus Runner) (c : Int) (r : Runner)
    (he : bus.isEmpty = true) (hz : isDataHazard3 ctx r.instr = false) :
    handleRunner ctx bus c 0 r =
      ((true, r.instr.instructionType == Gen.InstructionType.Ret), addPendingRegisters ctx r.instr, bus.add r c) := by
  unfold handleRunner
  simp only [he, Bool.not_true, Bool.and_false, Bool.false_eq_true, if_false, hz]
  have : decide ((0 : Int) > 0) = false := by decide
  simp only [this, Bool.false_and, Bool.false_eq_true, if_false]

theorem handleRunner_obuf (ctx : Model.Context) (bus : BufferedBus Runner) (c p : Int) (r : Runner) :
    ∃ l, (handleRunner ctx bus c p r).2.2.buffer = bus.buffer ++ l := by
  rcases handleRunner_cases ctx bus c p r with h | ⟨_, _, _, h⟩
  · rw [h]; exact ⟨[], by simp⟩
  · rw [h]; exact ⟨[(c + 1, r)], rfl⟩

theorem cuBusLoop_obuf (c : Int) : ∀ (n : Nat) (st : CuSt), ∃ l, (cuBusLoop c n st).outBus.buffer = st.outBus.buffer ++ l := by
  intro n
  induction n with
  | zero => intro st; exact ⟨[], by simp [cuBusLoop]⟩
  | succ n ih =>
    intro st
    simp only [cuBusLoop]
    split
    · exact ⟨[], by simp⟩
    · cases hq : st.inBus.queue with
      | nil => simp only [get_none _ hq]; exact ⟨[], by simp⟩
      | cons r q =>
        simp only [get_some _ r q hq]
        obtain ⟨l1, h1⟩ := handleRunner_obuf st.ctx st.outBus c st.pushed r
        split
        · split <;> exact ⟨l1, h1⟩
        · split
          · obtain ⟨l2, h2⟩ := ih { ctx := (handleRunner st.ctx st.outBus c st.pushed r).2.1, inBus := { st.inBus with queue := q }, outBus := (handleRunner st.ctx st.outBus c st.pushed r).2.2, pendings := st.pendings, remaining := st.remaining - 1, pushed := st.pushed + 1 }
            exact ⟨l1 ++ l2, by rw [h2, h1, List.append_assoc]⟩
          · obtain ⟨l2, h2⟩ := ih { ctx := (handleRunner st.ctx st.outBus c st.pushed r).2.1, inBus := { st.inBus with queue := q }, outBus := (handleRunner st.ctx st.outBus c st.pushed r).2.2, pendings := st.pendings.push r, remaining := st.remaining, pushed := st.pushed }
            exact ⟨l1 ++ l2, by rw [h2, h1, List.append_assoc]⟩

theorem ne_nil_of_prefix {α : Type} {a l m : List α} (h : a = l ++ m) (hl : l ≠ []) : a ≠ [] := by
  intro hc; rw [hc] at h
  cases l with
  | nil => exact hl rfl
  | cons x xs => cases h

/-- with an empty execute bus and clean scoreboards the control unit issues the oldest waiting runner -/
theorem controlCycle_issues (s : State) (hX : s.executeBus.inside = []) (hbl : s.executeBus.bufferLength = 2)
    (hP : s.cuPendings.items.length ≤ 1) (hcap : 1 ≤ s.cuPendings.length)
    (hne : s.cuPendings.items ≠ [] ∨ s.controlBus.queue ≠ []) (hnh : ∀ i, isDataHazard3 s.ctx i = false) :
    (controlCycle s).executeBus.buffer ≠ [] := by
  have hq : s.executeBus.queue = [] ∧ s.executeBus.buffer = [] := by
    simp only [BufferedBus.inside, List.append_eq_nil_iff, List.map_eq_nil_iff] at hX
    exact hX
  have hemp : s.executeBus.isEmpty = true := by simp [BufferedBus.isEmpty, hq.1, hq.2]
  have hcan : s.executeBus.canAdd = true := by simp [BufferedBus.canAdd, hq.2, hbl]
  have hrem : s.executeBus.remainingToAdd = 2 := by simp [BufferedBus.remainingToAdd, hq.2, hbl]
  rw [controlCycle_eq]
  simp only [hcan, Bool.not_true, Bool.false_eq_true, if_false]
  cases hi : s.cuPendings.items with
  | nil =>
    have hcq : s.controlBus.queue ≠ [] := by
      rcases hne with h | h
      · exact absurd hi h
      · exact h
    obtain ⟨r, q, hrq⟩ : ∃ r q, s.controlBus.queue = r :: q := by
      cases hc : s.controlBus.queue with
      | nil => exact absurd hc hcq
      | cons r q => exact ⟨r, q, rfl⟩
    have hfull : s.cuPendings.isFull = false := by
      simp only [Queue.isFull, hi, List.length_nil, Int.natCast_zero, decide_eq_false_iff_not]; omega
    simp only [cuLoops, cuPendingLoop, Bool.false_eq_true, if_false, cuBusLoop, hrem, hfull]
    have : decide ((2 : Int) > 0) = true := by decide
    simp only [this, Bool.not_false, Bool.and_self, Bool.not_true, Bool.false_eq_true, if_false, get_some _ r q hrq,
      handleRunner_push s.ctx s.executeBus s.cycles r hemp (hnh r.instr), if_true]
    split
    · show (s.executeBus.add r s.cycles).buffer ≠ []
      simp [BufferedBus.add]
    · obtain ⟨l, hl⟩ := cuBusLoop_obuf s.cycles (s.controlBus.pendingRead.toNat)
        { ctx := addPendingRegisters s.ctx r.instr, inBus := { s.controlBus with queue := q }, outBus := s.executeBus.add r s.cycles, pendings := s.cuPendings, remaining := 2 - 1, pushed := 0 + 1 }
      exact ne_nil_of_prefix hl (by simp [BufferedBus.add])
  | cons e rest =>
    have hrest : rest = [] := by
      rw [hi] at hP; simp only [List.length_cons] at hP
      exact List.length_eq_zero_iff.mp (by omega)
    subst hrest
    obtain ⟨hd, r⟩ := e
    simp only [cuLoops, cuPendingLoop, handleRunner_push s.ctx s.executeBus s.cycles r hemp (hnh r.instr), if_true]
    split
    · simp only [if_true]
      show (s.executeBus.add r s.cycles).buffer ≠ []
      simp [BufferedBus.add]
    · simp only [Bool.false_eq_true, if_false]
      obtain ⟨l, hl⟩ := cuBusLoop_obuf s.cycles (s.controlBus.pendingRead.toNat + 1)
        { ctx := addPendingRegisters s.ctx r.instr, inBus := s.controlBus, outBus := s.executeBus.add r s.cycles, pendings := s.cuPendings.remove hd, remaining := s.executeBus.remainingToAdd - 1, pushed := 0 + 1 }
      exact ne_nil_of_prefix hl (by simp [BufferedBus.add])

/-! ### the measure of an empty front: the fetch unit -/

/-- what the fetch unit still has to do before its next emission -/
def fuPart (fu : FetchUnit) : Nat :=
  match fu.co with
  | .none => 311
  | .wait => fu.remainingCycles.toNat + 1
  | .done => 0

/-- the fetch unit's part of the measure: pcs still to fetch (up to two past the end), pcs waiting on the decode bus, and the
countdown of a pending memory access -/
def m1 (app : App) (fu : FetchUnit) (dlen : Nat) : Nat :=
  700 * (app.instrs.length + 2 - fu.pc.toNat / 4) + 2 * dlen + fuPart fu

theorem pcOf_div (j : Nat) (h : j < 2 ^ 20) : (pcOf j).toNat / 4 = j := by
  simp only [pcOf, BitVec.toNat_ofNat]
  have : 4 * j % 2 ^ 32 = 4 * j := Nat.mod_eq_of_lt (by omega)
  rw [this]; omega

theorem fuEmit_m (app : App) (hsm : app.instrs.length < 250) (fu : FetchUnit) (bus : BufferedBus Word) (c : Int) (j : Nat)
    (hpc : fu.pc = pcOf j) (hj : j + 1 ≤ app.instrs.length + 2) (hco : fu.co ≠ .wait) :
    m1 app (fuEmit app fu bus c).1 ((fuEmit app fu bus c).2.inside.length) + 698 ≤ m1 app fu bus.inside.length ∧
    (fuEmit app fu bus c).1.co ≠ .wait ∧ (fuEmit app fu bus c).1.pc = pcOf (j + 1) ∧
    (fuEmit app fu bus c).2.bufferLength = bus.bufferLength := by
  have h1 : (fu.pc + 4#32).toNat / 4 = j + 1 := by rw [hpc, pcOf_succ, pcOf_div (j + 1) (by omega)]
  have h0 : fu.pc.toNat / 4 = j := by rw [hpc, pcOf_div j (by omega)]
  have hpc' : fu.pc + 4#32 = pcOf (j + 1) := by rw [hpc, pcOf_succ]
  unfold fuEmit
  simp only [inside_add, List.length_append, List.length_cons, List.length_nil]
  split
  · refine ⟨?_, (fun hc => by cases hc), hpc', rfl⟩
    simp only [m1, fuPart, h1, h0]
    cases hc : fu.co with
    | none => simp only; omega
    | done => simp only; omega
    | wait => exact absurd hc hco
  · refine ⟨?_, hco, hpc', rfl⟩
    simp only [m1, fuPart, h1, h0]
    cases hc : fu.co with
    | none => simp only; omega
    | done => simp only; omega
    | wait => exact absurd hc hco

theorem coFetchLoop_m (app : App) (hsm : app.instrs.length < 250) (c : Int) :
    ∀ (n : Nat) (fu fu' : FetchUnit) (mmu mmu' : Model.Mmu.Mmu) (bus bus' : BufferedBus Word) (j : Nat),
    fu.pc = pcOf j → j + n ≤ app.instrs.length + 2 → fu.co = .none → bus.bufferLength = 2 →
    coFetchLoop app c n fu mmu bus = .ok (fu', mmu', bus') →
    m1 app fu' bus'.inside.length ≤ m1 app fu bus.inside.length ∧
    (1 ≤ n → bus.buffer = [] → m1 app fu' bus'.inside.length < m1 app fu bus.inside.length) := by
  -- generalised over a fetch unit that is not waiting
  have gen : ∀ (n : Nat) (fu fu' : FetchUnit) (mmu mmu' : Model.Mmu.Mmu) (bus bus' : BufferedBus Word) (j : Nat),
      fu.pc = pcOf j → j + n ≤ app.instrs.length + 2 → fu.co ≠ .wait → bus.bufferLength = 2 →
      coFetchLoop app c n fu mmu bus = .ok (fu', mmu', bus') →
      m1 app fu' bus'.inside.length ≤ m1 app fu bus.inside.length + (if fu.co = .done then 309 else 0) ∧
      (1 ≤ n → bus.buffer = [] → fu.co = .none → m1 app fu' bus'.inside.length < m1 app fu bus.inside.length) := by
    intro n
    induction n with
    | zero =>
      intro fu fu' mmu mmu' bus bus' j _ _ _ _ hr
      simp only [coFetchLoop, pure, Except.pure, Except.ok.injEq, Prod.mk.injEq] at hr
      obtain ⟨rfl, rfl, rfl⟩ := hr
      exact ⟨Nat.le_add_right _ _, fun h => absurd h (by omega)⟩
    | succ n ih =>
      intro fu fu' mmu mmu' bus bus' j hpc hj hco hbl hr
      simp only [coFetchLoop] at hr
      split at hr
      · rename_i hcan
        simp only [pure, Except.pure, Except.ok.injEq, Prod.mk.injEq] at hr
        obtain ⟨rfl, rfl, rfl⟩ := hr
        refine ⟨Nat.le_add_right _ _, fun _ hb _ => ?_⟩
        exfalso
        simp only [BufferedBus.canAdd, hb, hbl, List.length_nil, Int.natCast_zero] at hcan
        revert hcan; decide
      · simp only [bind, Except.bind] at hr
        split at hr
        · cases hr
        · rename_i v hv
          obtain ⟨hit, mmu1⟩ := v
          simp only at hr
          split at hr
          · simp only [pure, Except.pure, Except.ok.injEq, Prod.mk.injEq] at hr
            obtain ⟨rfl, rfl, rfl⟩ := hr
            have hlt : ∀ (hn : fu.co = .none), m1 app { fu with remainingCycles := Gen.Latency.MemoryAccess - 1, co := .wait } bus.inside.length <
                m1 app fu bus.inside.length := by
              intro hn
              simp only [m1, fuPart, hn]
              have : (Gen.Latency.MemoryAccess - 1 : Int).toNat = 308 := by decide
              rw [this]; omega
            cases hc : fu.co with
            | none =>
              have := hlt hc
              simp only [hc] at this ⊢
              exact ⟨by simp only [reduceCtorEq, if_false]; omega, fun _ _ _ => this⟩
            | wait => exact absurd hc hco
            | done =>
              refine ⟨?_, fun _ _ hn => by cases hn⟩
              simp only [m1, fuPart, hc, if_true]
              have : (Gen.Latency.MemoryAccess - 1 : Int).toNat = 308 := by decide
              rw [this]; omega
          · obtain ⟨e1, e2, e3, e4⟩ := fuEmit_m app hsm fu bus c j hpc (by omega) hco
            have := ih _ fu' mmu1 mmu' _ bus' (j + 1) e3 (by omega) e2 (e4.trans hbl) hr
            have h1 := this.1
            have hb : (if (fuEmit app fu bus c).1.co = .done then 309 else 0) ≤ 309 := by split <;> omega
            exact ⟨by omega, fun _ _ _ => by omega⟩
  intro n fu fu' mmu mmu' bus bus' j hpc hj hco hbl hr
  have := gen n fu fu' mmu mmu' bus bus' j hpc hj (by rw [hco]; exact fun hc => by cases hc) hbl hr
  refine ⟨?_, fun h1 h2 => this.2 h1 h2 hco⟩
  have h1 := this.1
  simp only [hco, reduceCtorEq, if_false, Nat.add_zero] at h1
  exact h1

theorem fetchCore_m (app : App) (hsm : app.instrs.length < 250) (c : Int) (want : Nat)
    (fu fu' : FetchUnit) (mmu mmu' : Model.Mmu.Mmu) (bus bus' : BufferedBus Word)
    (hpcs : Pcs app want fu (if fu.toCleanPending then [] else bus.inside) 0) (hok : FuOk fu) (hbl : bus.bufferLength = 2)
    (hr : fetchCore app c fu mmu bus = .ok (fu', mmu', bus')) :
    m1 app fu' bus'.inside.length ≤ m1 app fu (if fu.toCleanPending then [] else bus.inside).length ∧
    ((if fu.toCleanPending then [] else bus.inside) = [] → fu.co ≠ .done →
      m1 app fu' bus'.inside.length < m1 app fu (if fu.toCleanPending then [] else bus.inside).length) := by
  have key : ∀ (fu : FetchUnit) (bus : BufferedBus Word), fu.toCleanPending = false → Pcs app want fu bus.inside 0 → FuOk fu →
      bus.bufferLength = 2 → fetchCore app c fu mmu bus = .ok (fu', mmu', bus') →
      m1 app fu' bus'.inside.length ≤ m1 app fu bus.inside.length ∧
      (bus.inside = [] → fu.co ≠ .done → m1 app fu' bus'.inside.length < m1 app fu bus.inside.length) := by
    intro fu bus hcl hpcs hok hbl hr
    obtain ⟨h0, a1, a2, a3, a4, a5, a6, a7⟩ := hpcs
    obtain ⟨fpc, ftc, fcm, fco, frc⟩ := fu
    simp only at hcl a2 a5 a6 a7
    subst hcl
    unfold fetchCore at hr
    simp only [Bool.false_eq_true, if_false] at hr
    cases hco : fco with
    | done =>
      simp only [hco, pure, Except.pure, Except.ok.injEq, Prod.mk.injEq] at hr
      obtain ⟨rfl, rfl, rfl⟩ := hr
      exact ⟨Nat.le_refl _, fun _ h => absurd rfl h⟩
    | wait =>
      simp only [hco] at hr
      subst hco
      have hrem : 0 ≤ frc := hok.2 rfl
      split at hr
      · rename_i hne
        simp only [pure, Except.pure, Except.ok.injEq, Prod.mk.injEq] at hr
        obtain ⟨rfl, rfl, rfl⟩ := hr
        have h1 : frc ≠ 0 := by simpa using hne
        have : m1 app ⟨fpc, false, fcm, .wait, frc - 1⟩ bus.inside.length < m1 app ⟨fpc, false, fcm, .wait, frc⟩ bus.inside.length := by
          simp only [m1, fuPart]; omega
        exact ⟨Nat.le_of_lt this, fun _ _ => this⟩
      · rename_i hz
        have h1 : frc = 0 := by simpa using hz
        split at hr
        · cases hr
        · simp only [pure, Except.pure, Except.ok.injEq, Prod.mk.injEq] at hr
          obtain ⟨rfl, rfl, rfl⟩ := hr
          obtain ⟨e1, _⟩ := fuEmit_m app hsm ⟨fpc, false, fcm, .none, frc⟩ bus c (h0 + bus.inside.length) a2
            (by have := a6 rfl; omega) (fun hc => by cases hc)
          have : m1 app ⟨fpc, false, fcm, .none, frc⟩ bus.inside.length = m1 app ⟨fpc, false, fcm, .wait, frc⟩ bus.inside.length + 310 := by
            simp only [m1, fuPart, h1]; omega
          exact ⟨by omega, fun _ _ => by omega⟩
    | none =>
      simp only [hco] at hr
      subst hco
      split at hr
      · rename_i hneg
        exfalso
        simp only [BufferedBus.outLength, hbl] at hneg
        revert hneg; decide
      · have hn : bus.outLength.toNat = 2 := by simp only [BufferedBus.outLength, hbl]; rfl
        rw [hn] at hr
        obtain ⟨e1, e2⟩ := coFetchLoop_m app hsm c 2 _ fu' mmu mmu' bus bus' (h0 + bus.inside.length) a2
          (by have := a5 rfl; omega) rfl hbl hr
        refine ⟨e1, fun hb _ => e2 (by omega) ?_⟩
        simp only [BufferedBus.inside, List.append_eq_nil_iff, List.map_eq_nil_iff] at hb
        exact hb.2
  cases hc : fu.toCleanPending with
  | false =>
    simp only [hc, Bool.false_eq_true, if_false] at hpcs ⊢
    exact key fu bus hc hpcs hok hbl hr
  | true =>
    simp only [hc, if_true] at hpcs ⊢
    rw [fetchCore_clean app c fu mmu bus hc] at hr
    have := key { fu with toCleanPending := false } bus.clean rfl hpcs hok hbl hr
    have hm : ∀ d, m1 app { fu with toCleanPending := false } d = m1 app fu d := fun d => rfl
    have hci : bus.clean.inside = [] := rfl
    rw [hm, hci] at this
    exact ⟨this.1, fun _ h => this.2 rfl h⟩

/-! ### the measure of an empty front: the decode unit -/

/-- the first pc the decode unit reads is decoded (a runner appears on the control bus) or lies past the end (and is gone) -/
theorem decodeLoop_consume (app : App) (ctx : Model.Context) (c : Int) (n : Nat) (du du' : DecodeUnit)
    (inBus inBus' : BufferedBus Word) (outBus outBus' : BufferedBus Runner)
    (hr : decodeLoop app ctx c (n + 1) du inBus outBus = .ok (du', inBus', outBus')) :
    (inBus.queue = [] → inBus' = inBus ∧ outBus' = outBus ∧ du' = du) ∧
    (inBus.queue ≠ [] → outBus'.inside ≠ [] ∨
      (inBus'.inside.length + 1 = inBus.inside.length ∧ outBus' = outBus ∧ du' = du)) := by
  simp only [decodeLoop] at hr
  cases hq : inBus.queue with
  | nil =>
    simp only [get_none _ hq, pure, Except.pure, Except.ok.injEq, Prod.mk.injEq] at hr
    obtain ⟨rfl, rfl, rfl⟩ := hr
    exact ⟨fun _ => ⟨rfl, rfl, rfl⟩, fun h => absurd rfl h⟩
  | cons p q =>
    simp only [get_some _ p q hq] at hr
    refine ⟨(fun h => by cases h), fun _ => ?_⟩
    split at hr
    · simp only [pure, Except.pure, Except.ok.injEq, Prod.mk.injEq] at hr
      obtain ⟨rfl, rfl, rfl⟩ := hr
      right
      refine ⟨?_, rfl, rfl⟩
      simp only [BufferedBus.inside, hq, List.length_append, List.length_cons]
      omega
    · left
      simp only [bind, Except.bind] at hr
      split at hr
      · cases hr
      · rename_i i hi
        split at hr
        · simp only [pure, Except.pure, Except.ok.injEq, Prod.mk.injEq] at hr
          obtain ⟨rfl, rfl, rfl⟩ := hr
          rw [inside_add]
          intro hc
          have := congrArg List.length hc
          simp only [List.length_append, List.length_cons, List.length_nil] at this
          omega
        · split at hr
          · simp only [pure, Except.pure, Except.ok.injEq, Prod.mk.injEq] at hr
            obtain ⟨rfl, rfl, rfl⟩ := hr
            rw [inside_add]
            intro hc
            have := congrArg List.length hc
            simp only [List.length_append, List.length_cons, List.length_nil] at this
            omega
          · obtain ⟨_, _, _, _, _, e6⟩ := decodeLoop_live app ctx c n _ du' _ inBus' _ outBus' hr
            have := e6 ⟨i, p, p + ctx.sequenceID * 1000#32⟩ (by rw [inside_add]; exact List.mem_append_right _ List.mem_cons_self)
            intro hc; rw [hc] at this; cases this

/-! ### the drains: after a `ret`, and before a flush -/

/-- what is still to be written back: an entry in the buffer counts twice (it has to become readable first) -/
def muW (s : State) : Nat := 2 * s.writeBus.buffer.length + s.writeBus.queue.length

structure LiveB (s : State) : Prop where
  stamps : ∀ e ∈ s.writeBus.buffer, e.1 ≤ s.cycles + 1
  wql : 1 ≤ s.writeBus.queueLength
  wk : 1 ≤ s.wus.length

theorem wus_take (before : Word) : ∀ (n i : Nat) (s s' : State), i + n = s.wus.length → (∀ wu ∈ s.wus, wu.co = .none) →
    (∀ ec ∈ s.writeBus.inside, ec.execution.MemoryChange = false) →
    (List.range' i n).foldlM (fun s j => wuCycle s j before) s = .ok s' →
    s'.writeBus.buffer = s.writeBus.buffer ∧ s'.writeBus.queue.length ≤ s.writeBus.queue.length ∧
    (1 ≤ n → s.writeBus.queue ≠ [] → s'.writeBus.queue.length < s.writeBus.queue.length) := by
  intro n
  induction n with
  | zero =>
    intro i s s' _ _ _ h
    simp only [List.range'_zero, List.foldlM, pure, Except.pure, Except.ok.injEq] at h
    subst h
    exact ⟨rfl, Nat.le_refl _, fun h => absurd h (by omega)⟩
  | succ n ih =>
    intro i s s' hlen hidle hnm h
    obtain ⟨s1, h1, e1, e2, e3, e4, e5⟩ := wuCycle_ok s i before (by omega) hidle hnm
    simp only [List.range'_succ, List.foldlM, bind, Except.bind, h1] at h
    obtain ⟨f1, f2, _⟩ := ih (i + 1) s1 s' (by rw [e1]; omega) (by rw [e1]; exact hidle) (fun ec hec => hnm ec (e3 ec hec)) h
    have hq1 : s1.writeBus.queue.length = s.writeBus.queue.length - 1 := by rw [e5]; simp
    refine ⟨f1.trans e4, by omega, fun _ hne => ?_⟩
    have : 1 ≤ s.writeBus.queue.length := by
      cases hq : s.writeBus.queue with
      | nil => exact absurd hq hne
      | cons x q => simp
    omega

theorem wus_all_empty (s : State) (h : ∀ wu ∈ s.wus, wu.co = .none) : areWriteUnitsEmpty s = true := by
  simp only [areWriteUnitsEmpty, List.all_eq_true, WriteUnit.isEmpty, beq_iff_eq]
  exact h

/-- a tick of the drain after a `ret`: the run ends, or less is left to be written back -/
theorem retB_tick (app : App) (s s' : State) (a : Arch) (ev : Event) (hr : RelB app s a) (hlb : LiveB s)
    (h : cycleM app s = .ok (s', ev)) :
    match ev with
    | .running => RelB app s' a ∧ LiveB s' ∧ muW s' < muW s
    | .done _ => True := by
  rw [cycleM_retB_eq app s hr.mode] at h
  simp only [bind, Except.bind] at h
  split at h
  · cases h
  · rename_i s1 h1
    obtain ⟨b1, wk, _⟩ := wusCycle_sim s s1 a hr.wus hr.back h1
    have h1' := h1
    unfold wusCycle at h1'
    rw [List.range_eq_range'] at h1'
    obtain ⟨t1, t2, t3⟩ := wus_take _ s.wus.length 0 s s1 (by omega) hr.wus hr.back.nomem h1'
    unfold goRetB at h
    split at h
    · rename_i hcond
      simp only [pure, Except.pure, Except.ok.injEq, Prod.mk.injEq] at h
      obtain ⟨rfl, rfl⟩ := h
      simp only
      have hdue1 : Due s1.writeBus (s1.cycles + 1) := by
        intro e he; rw [wk.cycles]; exact hlb.stamps e (by rw [← t1]; exact he)
      refine ⟨⟨hr.halt, ?_, by (show ∀ wu ∈ s1.wus, wu.co = .none); rw [wk.wus]; exact hr.wus,
          by (show MmuOk s1.mmu); rw [wk.mmu]; exact hr.l1d, rfl⟩, ⟨?_, ?_, by (show 1 ≤ s1.wus.length); rw [wk.wus]; exact hlb.wk⟩, ?_⟩
      · show Back s1.ctx (s1.writeBus.connect (s1.cycles + 1)).inside s1.executeBus.inside a
        rw [inside_connect]; exact b1
      · intro e he
        have := hdue1 e (connect_buffer_sub _ _ e he)
        show e.1 ≤ s1.cycles + 1 + 1
        omega
      · show 1 ≤ (s1.writeBus.connect (s1.cycles + 1)).queueLength
        rw [(connect_lengths _ _).1, wk.wql]; exact hlb.wql
      · obtain ⟨moved, hm1, hm2⟩ := connect_split s1.writeBus (s1.cycles + 1)
        show 2 * (s1.writeBus.connect (s1.cycles + 1)).buffer.length + (s1.writeBus.connect (s1.cycles + 1)).queue.length < muW s
        have hb : s.writeBus.buffer.length = moved.length + (s1.writeBus.connect (s1.cycles + 1)).buffer.length := by
          rw [← t1, hm1, List.length_append]
        rw [hm2, List.length_append, List.length_map]
        simp only [muW, hb]
        by_cases hq : s.writeBus.queue = []
        · have hq1 : s1.writeBus.queue = [] := by
            have : s1.writeBus.queue.length = 0 := by rw [hq] at t2; simpa using t2
            exact List.length_eq_zero_iff.mp this
          have hne : (s1.writeBus.connect (s1.cycles + 1)).queue ≠ [] := by
            apply connect_nonempty _ _ (by rw [wk.wql]; exact hlb.wql) hdue1
            have hw : areWriteUnitsEmpty { s1 with cycles := s1.cycles + 1, writeBus := s1.writeBus.connect (s1.cycles + 1) } = true :=
              wus_all_empty _ (by (show ∀ wu ∈ s1.wus, wu.co = .none); rw [wk.wus]; exact hr.wus)
            simp only [hw, Bool.not_true, Bool.false_or, Bool.not_eq_true'] at hcond
            intro hin
            have : (s1.writeBus.connect (s1.cycles + 1)).inside = [] := by rw [inside_connect]; exact hin
            simp only [BufferedBus.inside, List.append_eq_nil_iff, List.map_eq_nil_iff] at this
            simp only [BufferedBus.isEmpty, this.1, this.2, List.length_nil] at hcond
            revert hcond; decide
          rw [hm2, hq1, List.nil_append] at hne
          have : 1 ≤ moved.length := by
            cases moved with
            | nil => exact absurd rfl hne
            | cons x xs => simp
          rw [hq1, hq]; simp only [List.length_nil]; omega
        · have := t3 hlb.wk hq
          omega
    · unfold finish at h
      rw [flush_empty _ _ (by (show (s1.mmu).l1d.lines = []); rw [wk.mmu]; exact hr.l1d.1)] at h
      simp only [bind, Except.bind, pure, Except.pure, Except.ok.injEq, Prod.mk.injEq] at h
      obtain ⟨_, rfl⟩ := h
      trivial

structure LiveF (s : State) : Prop where
  stamps : ∀ e ∈ s.writeBus.buffer, e.1 ≤ s.cycles + 1
  cql : 1 ≤ s.controlBus.queueLength
  dql : 1 ≤ s.decodeBus.queueLength
  xbl : s.executeBus.bufferLength = 2
  pcap : 1 ≤ s.cuPendings.length

theorem flushAll_live (s : State) (pc : Word) (c : Int) (n : Nat) (hf : LiveF s) :
    Live { flushAll s pc with cycles := c, mode := .normal, flushes := n } := by
  refine ⟨?_, ?_, ?_, hf.cql, hf.dql, ?_, ?_, ?_, hf.xbl, ?_⟩
  · intro e he; simp [flushAll, BufferedBus.clean] at he
  · intro e he; simp [flushAll, BufferedBus.clean] at he
  · intro e he; simp [flushAll, BufferedBus.clean] at he
  · have h1 : (flushAll s pc).writeBus.inside = [] := by simp [flushAll, BufferedBus.clean, BufferedBus.inside]
    have h2 : (flushAll s pc).executeBus.inside = [] := by simp [flushAll, BufferedBus.clean, BufferedBus.inside]
    show BackL (flushAll s pc).ctx (flushAll s pc).writeBus.inside (flushAll s pc).executeBus.inside
    rw [h1, h2]
    exact BackL.nil _ rfl rfl
  · intro h; simp [flushAll] at h
  · exact ⟨(fun h => by simp [flushAll, FetchUnit.flush] at h), fun h => by simp [flushAll, FetchUnit.flush] at h⟩
  · show 1 ≤ (Queue.new Gen.Consts.mvp6_0.pendingLength : Queue Runner).length
    decide

theorem goFlush_stay (s : State) (f p : Word) (n i : Nat) (wu : WriteUnit) (hget : s.wus[i]? = some wu)
    (hne : s.writeBus.isEmpty = false) : goFlush s f p (n + 1) i = ({ s with mode := .flushW i f p }, .running) := by
  simp only [goFlush, hget, hne, Bool.not_false, Bool.or_true, if_true]

theorem goFlush_done (s : State) (f p : Word) (hidle : ∀ wu ∈ s.wus, wu.co = .none) (hW : s.writeBus.isEmpty = true) :
    ∀ (n i : Nat), goFlush s f p n i =
      ({ flushAll s p with cycles := s.cycles + Gen.Latency.Flush, mode := .normal, flushes := s.flushes + 1 }, .running) := by
  intro n
  induction n with
  | zero => intro i; rfl
  | succ n ih =>
    intro i
    simp only [goFlush]
    cases hg : s.wus[i]? with
    | none => rfl
    | some wu =>
      have : wu.isEmpty = true := by
        simp only [WriteUnit.isEmpty, hidle wu (List.mem_of_getElem? hg), beq_self_eq_true]
      simp only [this, hW, Bool.not_true, Bool.or_self, Bool.false_eq_true, if_false]
      exact ih (i + 1)

/-- the test at the head of a write unit's drain loop: the drain goes on (with the same write bus), or the pipeline is
flushed and the relation between normal ticks holds, with everything that makes the pipeline move -/
theorem goFlush_post (app : App) (hsm : app.instrs.length < 250) (s1 : State) (a : Arch) (from_ pc : Word) (i n : Nat)
    (hi : i < s1.wus.length) (hn : 1 ≤ n) (hff : FFacts app s1 a from_ pc) (hlf : LiveF s1) :
    (goFlush s1 from_ pc n i).2 = .running ∧
    ((RelF app (goFlush s1 from_ pc n i).1 a ∧ LiveF (goFlush s1 from_ pc n i).1 ∧ muW (goFlush s1 from_ pc n i).1 = muW s1) ∨
     (RelG app (goFlush s1 from_ pc n i).1 a ∧ Live (goFlush s1 from_ pc n i).1 ∧ 1 ≤ (goFlush s1 from_ pc n i).1.eus.length)) := by
  cases hW : s1.writeBus.isEmpty with
  | false =>
    obtain ⟨wu, hget⟩ := get_lt s1.wus i hi
    obtain ⟨m, rfl⟩ : ∃ m, n = m + 1 := ⟨n - 1, by omega⟩
    rw [goFlush_stay s1 from_ pc m i wu hget hW]
    exact ⟨rfl, Or.inl ⟨⟨i, from_, pc, rfl, hi, hff.mode _⟩, ⟨hlf.stamps, hlf.cql, hlf.dql, hlf.xbl, hlf.pcap⟩, rfl⟩⟩
  | true =>
    rw [goFlush_done s1 from_ pc hff.inv.wus hW n i]
    exact ⟨rfl, Or.inr ⟨flushAll_rel app hsm s1 a from_ pc hff (inside_nil_of_isEmpty _ hW) _ _, flushAll_live s1 pc _ _ hlf, by
      show 1 ≤ (flushAll s1 pc).eus.length
      simp only [flushAll, List.length_map, hff.eqw]; exact hff.wk⟩⟩

/-- a tick of the drain before a flush: less is left on the write bus, or the pipeline has been flushed -/
theorem flushW_tick (app : App) (hsm : app.instrs.length < 250) (s s' : State) (a : Arch) (ev : Event) (hr : RelF app s a)
    (hlf : LiveF s) (h : cycleM app s = .ok (s', ev)) :
    ev = .running ∧ ((RelF app s' a ∧ LiveF s' ∧ muW s' < muW s) ∨ (RelG app s' a ∧ Live s' ∧ 1 ≤ s'.eus.length)) := by
  obtain ⟨i, from_, pc, hm, hi, hff⟩ := hr
  unfold cycleM at h
  split at h
  · rename_i hh; rw [hm] at hh; cases hh
  · rename_i hh; rw [hm] at hh; cases hh
  · rename_i hh; rw [hm] at hh; cases hh
  · rename_i i' f' p' hh
    rw [hm] at hh
    simp only [Mode.flushW.injEq] at hh
    obtain ⟨rfl, rfl, rfl⟩ := hh
    simp only [bind, Except.bind] at h
    split at h
    · cases h
    · rename_i s1 h1
      have hff0 : FFacts app { s with writeBus := s.writeBus.connect (s.cycles + 1), cycles := s.cycles + 1 } a from_ pc := by
        have := hff.connect (s.cycles + 1)
        exact ⟨⟨this.inv.wus, this.inv.nomem, this.inv.regs⟩, this.npc, this.pceq, this.mem, this.ratS, this.txS, this.ratA, this.txA,
          this.eusM, this.eqw, this.wql, this.wbl, this.xql, this.dlen, this.l1d, this.clean, this.sid, this.k1, this.wk⟩
      obtain ⟨d1, k1⟩ := wuCycle_drainG from_ from_ a.ctx.Registers
        { s with writeBus := s.writeBus.connect (s.cycles + 1), cycles := s.cycles + 1 } s1 i hi hff0.inv
        (by intro ec q _; simp only [kept, Bool.not_not]) h1
      have hff1 := hff0.keep d1 k1
      obtain ⟨s1', h1', _, _, _, t4, t5⟩ := wuCycle_ok { s with writeBus := s.writeBus.connect (s.cycles + 1), cycles := s.cycles + 1 }
        i from_ hi hff0.inv.wus hff0.inv.nomem
      rw [h1] at h1'
      simp only [Except.ok.injEq] at h1'
      subst h1'
      have hdue0 : Due (s.writeBus.connect (s.cycles + 1)) (s.cycles + 1) := fun e he =>
        hlf.stamps e (connect_buffer_sub _ _ e he)
      have hlf1 : LiveF s1 := by
        refine ⟨?_, by rw [k1.controlBus]; exact hlf.cql, by rw [k1.decodeBus]; exact hlf.dql,
          by rw [k1.executeBus]; exact hlf.xbl, by rw [k1.cuPendings]; exact hlf.pcap⟩
        intro e he
        rw [t4] at he
        rw [k1.cycles]
        have := hdue0 e he
        show e.1 ≤ s.cycles + 1 + 1
        omega
      simp only [pure, Except.pure, Except.ok.injEq] at h
      have hlen : s1.wus.length = s.wus.length := by rw [k1.wus]
      obtain ⟨g1, g2⟩ := goFlush_post app hsm s1 a from_ pc i (s1.wus.length - i) (by omega) (by omega) hff1 hlf1
      have hev := congrArg Prod.snd h
      have hs := congrArg Prod.fst h
      simp only at hev hs
      rw [← hev, ← hs]
      refine ⟨g1, ?_⟩
      rcases g2 with ⟨r1, r2, r3⟩ | r
      · left
        refine ⟨r1, r2, ?_⟩
        rw [r3]
        -- the write unit has taken one result, unless the bus was empty (then the drain would be over)
        obtain ⟨moved, hm1, hm2⟩ := connect_split s.writeBus (s.cycles + 1)
        have hb : s.writeBus.buffer.length = moved.length + (s.writeBus.connect (s.cycles + 1)).buffer.length := by
          rw [hm1, List.length_append]
        simp only [muW, t4, t5, hb, List.length_tail]
        rw [hm2, List.length_append, List.length_map]
        -- the queue after `Connect` is not empty
        by_cases hin : s.writeBus.inside = []
        · -- then the bus of `s1` is empty and the drain is over: not this case
          exfalso
          have h0 : (s.writeBus.connect (s.cycles + 1)).inside = [] := by rw [inside_connect]; exact hin
          simp only [BufferedBus.inside, List.append_eq_nil_iff, List.map_eq_nil_iff] at h0
          have hW1 : s1.writeBus.isEmpty = true := by
            simp only [BufferedBus.isEmpty, t4, t5, h0.1, h0.2, List.tail_nil, List.length_nil, beq_self_eq_true, Bool.and_self]
          rw [goFlush_done s1 from_ pc hff1.inv.wus hW1] at r1
          obtain ⟨_, _, _, hmode, _⟩ := r1
          cases hmode
        · have hne := connect_nonempty s.writeBus (s.cycles + 1) (by rw [hff.wql]; decide) (fun e he => hlf.stamps e he) hin
          rw [hm2] at hne
          have : 1 ≤ s.writeBus.queue.length + moved.length := by
            cases hq : s.writeBus.queue with
            | cons x q => simp only [List.length_cons]; omega
            | nil =>
              rw [hq, List.nil_append] at hne
              cases moved with
              | nil => exact absurd rfl hne
              | cons x xs => simp
          omega
      · exact Or.inr r

/-! ### a normal tick -/

/-- the relation between two ticks, rebuilt after the execute units (`Mid` for `s5`) and the write units (`s6`) -/
theorem relG_after (app : App) (s4 s5 s6 : State) (a' : Arch) (hm5 : Mid app s5 a' s4.eus.length) (keep : EuKeep s4 s5)
    (wk : WuKeep s5 s6) (b6 : Back s6.ctx s6.writeBus.inside s6.executeBus.inside a')
    (q6 : s6.writeBus.queue.length = s5.writeBus.queue.length - s5.wus.length)
    (c_wus : ∀ wu ∈ s4.wus, wu.co = .none) (c_wqk : s4.writeBus.queue.length ≤ s4.wus.length)
    (c_wql : s4.writeBus.queueLength = 2) (c_xql : s4.executeBus.queueLength = 2) (c_xq : s4.executeBus.queue.length ≤ 2)
    (c_eqw : s4.eus.length = s4.wus.length) (c_pend : s4.cuPendings.items.length ≤ 1) (c_l1d : MmuOk s4.mmu)
    (c_mode : s4.mode = .normal) : RelG app s6 a' := by
  have hwus5 : ∀ wu ∈ s5.wus, wu.co = .none := by rw [keep.wus]; exact c_wus
  obtain ⟨n0, hpc, hf5⟩ := hm5.front
  have hf6 : FrontJ app s6 n0 := hf5.of_eq wk.executeBus wk.cuPendings wk.controlBus wk.fu wk.decodeBus wk.du
  have hq6 : s6.writeBus.queue = [] := by
    have h1 : s5.writeBus.queue.length ≤ s5.wus.length := by rw [keep.wq, keep.wus]; exact c_wqk
    exact List.length_eq_zero_iff.mp (by omega)
  have hl1d : MmuOk s6.mmu := by rw [wk.mmu, keep.mmu]; exact c_l1d
  have hcyc : s6.cycles = s5.cycles := wk.cycles
  refine ⟨⟨n0, hpc, hf6⟩, b6, by rw [wk.eus]; exact hm5.eus, by rw [wk.wus]; exact hwus5, hq6,
    ?_, ?_, ?_, ?_, ?_, ?_, ?_, ?_, ?_, hl1d, ?_, ?_, ?_, ?_, ?_, ?_⟩
  · rw [wk.wbuf]; have := hm5.room; omega
  · rw [wk.wbuf, wk.wus, keep.wus]; have h1 := hm5.wbi; have h2 := c_eqw; omega
  · rw [wk.wbuf, hcyc]; exact hm5.stamps
  · rw [wk.wql, keep.wql]; exact c_wql
  · rw [wk.wbl]; exact hm5.wbl
  · rw [wk.executeBus, keep.xql]; exact c_xql
  · rw [wk.executeBus]; exact Nat.le_trans keep.xq c_xq
  · rw [wk.eus, wk.wus, keep.eul, keep.wus]; exact c_eqw
  · rw [wk.cuPendings, keep.pend]; exact c_pend
  · rw [wk.mode, keep.mode]; exact c_mode
  · intro hK x hx hrx
    rw [wk.eus] at hK
    rw [wk.executeBus] at hx
    have := (hm5.retQ hK x hx hrx).2
    rw [keep.eul] at hK
    omega
  · rw [wk.executeBus, hcyc]; exact hm5.retBuf
  · exact hm5.seqs.mono wk.sid (fun r hmem => Or.inl (by simpa only [runners, wk.executeBus, wk.cuPendings, wk.controlBus] using hmem))
  · intro hnc h0
    rw [wk.sid] at h0
    have hrun6 : runners s6 = runners s5 := by simp only [runners, wk.executeBus, wk.cuPendings, wk.controlBus]
    rcases hm5.stale hnc h0 with h1 | h1 | h1
    · exact Or.inl (h1.mono wk.wsub)
    · left
      intro ec hec
      simp only [BufferedBus.inside, hq6, wk.wbuf, h1.2.2.2, List.map_nil, List.append_nil] at hec
      cases hec
    · exact Or.inr (by rw [hrun6]; exact h1)
  · rcases hm5.k1 with h1 | h1 | h1
    · exact Or.inl (by rw [wk.eus]; exact h1)
    · exact Or.inr (Or.inl h1)
    · by_cases hK1 : s6.eus.length ≤ 1
      · exact Or.inl hK1
      · refine Or.inr (Or.inr ⟨?_, ?_, ?_, ?_, ?_⟩)
        · rw [wk.executeBus]
          rcases h1.drain with hd | hd
          · exact hd
          · have e1 : s6.eus.length = s4.eus.length := by rw [wk.eus, keep.eul]
            exact List.length_eq_zero_iff.mp (by omega)
        · rw [wk.executeBus, hcyc]; exact h1.due
        · rw [wk.executeBus]; exact h1.len
        · rw [wk.executeBus]; exact h1.br
        · rw [wk.executeBus]; exact h1.bl

theorem fetchCycle_frame (app : App) (s s2 : State) (h : fetchCycle app s = .ok s2) :
    s2.executeBus = s.executeBus ∧ s2.controlBus = s.controlBus ∧ s2.cuPendings = s.cuPendings ∧ s2.writeBus = s.writeBus ∧
    s2.eus = s.eus ∧ s2.du = s.du ∧ s2.ctx = s.ctx ∧ s2.wus = s.wus ∧ s2.cycles = s.cycles ∧
    fetchCore app s.cycles s.fu s.mmu s.decodeBus = .ok (s2.fu, s2.mmu, s2.decodeBus) := by
  unfold fetchCycle at h
  simp only [bind, Except.bind] at h
  split at h
  · cases h
  · rename_i v hv
    obtain ⟨fu', mmu', bus'⟩ := v
    simp only [pure, Except.pure, Except.ok.injEq] at h
    subst h
    exact ⟨rfl, rfl, rfl, rfl, rfl, rfl, rfl, rfl, rfl, hv⟩

theorem coFetchLoop_queue (app : App) (c : Int) : ∀ (n : Nat) (fu fu' : FetchUnit) (mmu mmu' : Model.Mmu.Mmu) (bus bus' : BufferedBus Word),
    coFetchLoop app c n fu mmu bus = .ok (fu', mmu', bus') → bus'.queue = bus.queue := by
  intro n
  induction n with
  | zero =>
    intro fu fu' mmu mmu' bus bus' hr
    simp only [coFetchLoop, pure, Except.pure, Except.ok.injEq, Prod.mk.injEq] at hr
    obtain ⟨_, _, rfl⟩ := hr; rfl
  | succ n ih =>
    intro fu fu' mmu mmu' bus bus' hr
    simp only [coFetchLoop] at hr
    split at hr
    · simp only [pure, Except.pure, Except.ok.injEq, Prod.mk.injEq] at hr
      obtain ⟨_, _, rfl⟩ := hr; rfl
    · simp only [bind, Except.bind] at hr
      split at hr
      · cases hr
      · rename_i v hv
        obtain ⟨hit, mmu1⟩ := v
        simp only at hr
        split at hr
        · simp only [pure, Except.pure, Except.ok.injEq, Prod.mk.injEq] at hr
          obtain ⟨_, _, rfl⟩ := hr; rfl
        · exact (ih _ fu' mmu1 mmu' _ bus' hr).trans (by unfold fuEmit; rfl)

/-- without a pending clean the fetch unit only appends to the buffer of the decode bus; a stopped unit does nothing -/
theorem fetchCore_queue (app : App) (c : Int) (fu fu' : FetchUnit) (mmu mmu' : Model.Mmu.Mmu) (bus bus' : BufferedBus Word)
    (hr : fetchCore app c fu mmu bus = .ok (fu', mmu', bus')) :
    (fu.toCleanPending = false → bus'.queue = bus.queue) ∧
    (fu.co = .done → fu'.complete = fu.complete ∧ bus'.inside = if fu.toCleanPending then [] else bus.inside) := by
  have key : ∀ (fu : FetchUnit) (bus : BufferedBus Word), fu.toCleanPending = false →
      fetchCore app c fu mmu bus = .ok (fu', mmu', bus') →
      bus'.queue = bus.queue ∧ (fu.co = .done → fu'.complete = fu.complete ∧ bus'.inside = bus.inside) := by
    intro fu bus hcl hr
    obtain ⟨fpc, ftc, fcm, fco, frc⟩ := fu
    simp only at hcl
    subst hcl
    unfold fetchCore at hr
    simp only [Bool.false_eq_true, if_false] at hr
    cases hco : fco with
    | done =>
      simp only [hco, pure, Except.pure, Except.ok.injEq, Prod.mk.injEq] at hr
      obtain ⟨rfl, rfl, rfl⟩ := hr
      exact ⟨rfl, fun _ => ⟨rfl, rfl⟩⟩
    | wait =>
      simp only [hco] at hr
      split at hr
      · simp only [pure, Except.pure, Except.ok.injEq, Prod.mk.injEq] at hr
        obtain ⟨rfl, rfl, rfl⟩ := hr
        exact ⟨rfl, fun h => by cases h⟩
      · split at hr
        · cases hr
        · simp only [pure, Except.pure, Except.ok.injEq, Prod.mk.injEq] at hr
          obtain ⟨rfl, rfl, rfl⟩ := hr
          exact ⟨by unfold fuEmit; rfl, fun h => by cases h⟩
    | none =>
      simp only [hco] at hr
      split at hr
      · simp only [pure, Except.pure, Except.ok.injEq, Prod.mk.injEq] at hr
        obtain ⟨rfl, rfl, rfl⟩ := hr
        exact ⟨rfl, fun h => by cases h⟩
      · exact ⟨coFetchLoop_queue app c _ _ fu' mmu mmu' bus bus' hr, fun h => by cases h⟩
  cases hc : fu.toCleanPending with
  | false =>
    have := key fu bus hc hr
    simp only [Bool.false_eq_true, if_false]
    exact ⟨fun _ => this.1, this.2⟩
  | true =>
    rw [fetchCore_clean app c fu mmu bus hc] at hr
    have := key { fu with toCleanPending := false } bus.clean rfl hr
    refine ⟨(fun h => by cases h), fun hd => ?_⟩
    obtain ⟨h1, h2⟩ := this.2 hd
    simp only [if_true]
    exact ⟨h1, h2⟩

theorem decodeCycle_frame (app : App) (s s3 : State) (h : decodeCycle app s = .ok s3) :
    s3.executeBus = s.executeBus ∧ s3.cuPendings = s.cuPendings ∧ s3.writeBus = s.writeBus ∧ s3.eus = s.eus ∧
    s3.fu = s.fu ∧ s3.ctx = s.ctx ∧ s3.wus = s.wus ∧ s3.cycles = s.cycles ∧ s3.controlBus.queue = s.controlBus.queue ∧
    (s.du.ret = false → s.du.pendingBranchResolution = false →
      decodeLoop app s.ctx s.cycles (s.decodeBus.pendingRead.toNat + 1) s.du s.decodeBus s.controlBus =
        .ok (s3.du, s3.decodeBus, s3.controlBus)) := by
  unfold decodeCycle decodeCore at h
  by_cases hdr : s.du.ret = true
  · simp only [hdr, if_true, bind, Except.bind, pure, Except.pure, Except.ok.injEq] at h
    subst h
    exact ⟨rfl, rfl, rfl, rfl, rfl, rfl, rfl, rfl, rfl, fun hc => by rw [hdr] at hc; cases hc⟩
  · cases hpd : s.du.pendingBranchResolution with
    | true =>
      simp only [hdr, hpd, if_true, Bool.false_eq_true, if_false, bind, Except.bind, pure, Except.pure, Except.ok.injEq] at h
      subst h
      exact ⟨rfl, rfl, rfl, rfl, rfl, rfl, rfl, rfl, rfl, fun _ hc => by cases hc⟩
    | false =>
      simp only [hdr, hpd, Bool.false_eq_true, if_false, bind, Except.bind] at h
      split at h
      · cases h
      · rename_i v hv
        obtain ⟨du', d', c'⟩ := v
        simp only [pure, Except.pure, Except.ok.injEq] at h
        subst h
        exact ⟨rfl, rfl, rfl, rfl, rfl, rfl, rfl, rfl,
          decodeLoop_queue app s.ctx s.cycles _ s.du du' s.decodeBus d' s.controlBus c' hv, fun _ _ => hv⟩

theorem isEmpty_of_inside {α : Type} (b : BufferedBus α) (h : b.inside = []) : b.isEmpty = true := by
  simp only [BufferedBus.inside, List.append_eq_nil_iff, List.map_eq_nil_iff] at h
  simp only [BufferedBus.isEmpty, h.1, h.2, List.length_nil, beq_self_eq_true, Bool.and_self]

/-- **the measure of a state between two normal ticks**: 0 when something is on the execute bus (the next tick executes);
with runners waiting before the execute bus, 1 + the results still on the write bus (their scoreboard entries are what
can hold the oldest runner back); with an empty front, what the fetch and decode units still have to do -/
def phi (app : App) (s : State) : Nat :=
  if s.executeBus.inside.isEmpty = false then 0
  else if (runners s).isEmpty = false then 1 + s.writeBus.inside.length
  else 4 + m1 app s.fu (effD s).length + s.writeBus.inside.length

theorem m1_add (app : App) (fu : FetchUnit) (d : Nat) : m1 app fu (d + 1) = m1 app fu d + 2 := by
  simp only [m1]; omega

/-- **a tick in which nothing can execute brings the next instruction closer**: with an empty execute bus between two
ticks, after the tick (which did not end the run) the measure is smaller -/
theorem stall_phi (app : App) (hp : ProgJ app) (s s2 s3 s6 : State) (a : Arch) (hr : RelG app s a) (hl : Live s)
    (hx : s.executeBus.inside = []) (h2 : fetchCycle app (connected s) = .ok s2) (h3 : decodeCycle app s2 = .ok s3)
    (wk : WuKeep (controlCycle s3) s6) (hq6 : s6.writeBus.queue = []) (hne : isEmpty s6 = false) :
    phi app s6 < phi app s := by
  have ph1 := connected_ph app s a hr
  have l1 := connected_live s hl
  obtain ⟨ph2, hcl2⟩ := fetch_ph app hp _ s2 a ph1 h2
  have l2 := fetch_live app _ s2 l1 h2
  obtain ⟨f2x, f2c, f2p, f2w, f2e, f2d, f2ctx, f2wus, f2cyc, f2eq⟩ := fetchCycle_frame app _ s2 h2
  have ph3 := decode_ph app hp s2 s3 a ph2 hcl2 h3
  have l3 := decode_live app s2 s3 l2 h3
  obtain ⟨f3x, f3p, f3w, f3e, f3fu, f3ctx, f3wus, f3cyc, f3q, f3eq⟩ := decodeCycle_frame app s2 s3 h3
  obtain ⟨pushed, i1, i2, i3, fr, _⟩ := controlCycle_spec s3 ph3.pend
  obtain ⟨_, b2, _, b4⟩ := issued_back i1 ph3.back
  simp only at b2 b4
  have hrun4 : runners (controlCycle s3) = runners s3 := by
    simp only [runners, b4, List.append_assoc]
    rw [← List.append_assoc pushed, i2]
  have hrun6 : runners s6 = runners s3 := by
    rw [← hrun4]; simp only [runners, wk.executeBus, wk.cuPendings, wk.controlBus]
  -- the execute bus before the control unit is empty
  have hx1 : (connected s).executeBus.inside = [] := by
    show (s.executeBus.connect (s.cycles + 1)).inside = []; rw [inside_connect]; exact hx
  have hx3 : s3.executeBus.inside = [] := by rw [f3x, f2x]; exact hx1
  -- the write bus: what it holds now is written in this tick, nothing is added
  have hw3 : s3.writeBus.inside = s.writeBus.inside := by
    rw [f3w, f2w]; show (s.writeBus.connect (s.cycles + 1)).inside = _; rw [inside_connect]
  have hw6 : s6.writeBus.inside = [] := by
    simp only [BufferedBus.inside, hq6, wk.wbuf, fr.writeBus, ph3.wbuf, List.map_nil, List.append_nil]
  have hw6l : s6.writeBus.inside.length = 0 := by rw [hw6]; rfl
  have hrun1 : runners (connected s) = runners s := by simp only [runners, connected, inside_connect]
  have hrun2 : runners s2 = runners (connected s) := by simp only [runners, f2x, f2c, f2p]
  have hfu6 : s6.fu = s2.fu := by rw [wk.fu, fr.fu, f3fu]
  have hd6 : s6.decodeBus = s3.decodeBus := by rw [wk.decodeBus, fr.decodeBus]
  have hx6 : s6.executeBus = (controlCycle s3).executeBus := wk.executeBus
  by_cases hrn : runners s = []
  · -- nothing behind the decode unit
    obtain ⟨n0, hpc, hf1⟩ := ph1.front
    have hpd1 : (connected s).du.pendingBranchResolution = false := by
      cases hpd : (connected s).du.pendingBranchResolution with
      | false => rfl
      | true =>
        obtain ⟨pre, j, hpj, _⟩ := hf1.clo hpd
        rw [hrun1, hrn] at hpj
        cases pre <;> cases hpj
    have hret1 : (connected s).du.ret = false := by
      cases hdr : (connected s).du.ret with
      | false => rfl
      | true =>
        obtain ⟨r, hr1, _⟩ := l1.retIn hdr
        rw [hrun1, hrn] at hr1; cases hr1
    have hpcs := (hf1.opn hpd1).1
    have heff1 : effD (connected s) = effD s := by simp only [effD, connected, inside_connect]
    have hF := fetchCore_m app hp.small (connected s).cycles _ (connected s).fu s2.fu (connected s).mmu s2.mmu
      (connected s).decodeBus s2.decodeBus (by simpa only [effD] using hpcs) l1.fuDone hf1.dlen f2eq
    have hFq := fetchCore_queue app (connected s).cycles (connected s).fu s2.fu (connected s).mmu s2.mmu
      (connected s).decodeBus s2.decodeBus f2eq
    have heffE : (if (connected s).fu.toCleanPending = true then [] else (connected s).decodeBus.inside) = effD s := by
      rw [← heff1]; rfl
    rw [heffE] at hF
    have hfu1 : (connected s).fu = s.fu := rfl
    rw [hfu1] at hF
    have hD := decodeLoop_consume app s2.ctx s2.cycles _ s2.du s3.du s2.decodeBus s3.decodeBus s2.controlBus s3.controlBus
      (f3eq (by rw [f2d]; exact hret1) (by rw [f2d]; exact hpd1))
    have hphis : phi app s = 4 + m1 app s.fu (effD s).length + s.writeBus.inside.length := by
      simp only [phi, hx, hrn, List.isEmpty_nil, Bool.true_eq_false, if_false]
    rw [hphis]
    by_cases hfront : (controlCycle s3).executeBus.inside = [] ∧ runners s3 = []
    · obtain ⟨hx4, hr3⟩ := hfront
      have hphi6 : phi app s6 = 4 + m1 app s2.fu s3.decodeBus.inside.length := by
        simp only [phi, hx6, hx4, hrun6, hr3, List.isEmpty_nil, Bool.true_eq_false, if_false, hw6l, Nat.add_zero, hfu6, effD, hcl2,
          Bool.false_eq_true, hd6]
      rw [hphi6]
      cases hq2 : s2.decodeBus.queue with
      | cons p q =>
        rcases hD.2 (by rw [hq2]; exact fun hc => by cases hc) with hc3 | ⟨hlen, _, _⟩
        · exfalso
          obtain ⟨_, _, _, r4⟩ := runners_nil hr3
          exact hc3 r4
        · have := hF.1
          have h5 : m1 app s2.fu s2.decodeBus.inside.length = m1 app s2.fu s3.decodeBus.inside.length + 2 := by
            rw [← hlen, m1_add]
          omega
      | nil =>
        obtain ⟨hd3, _, _⟩ := hD.1 hq2
        rw [hd3]
        by_cases hwne : s.writeBus.inside = []
        · by_cases hst : effD s = [] ∧ s.fu.co ≠ .done
          · have := hF.2 hst.1 hst.2
            omega
          · exfalso
            by_cases heD : effD s = []
            · -- the fetch unit has stopped and everything is empty: the tick would have ended the run
              have hdone : s.fu.co = .done := by
                cases hco : s.fu.co with
                | done => rfl
                | none => exact absurd ⟨heD, by rw [hco]; exact fun hc => by cases hc⟩ hst
                | wait => exact absurd ⟨heD, by rw [hco]; exact fun hc => by cases hc⟩ hst
              obtain ⟨g1, g2⟩ := hFq.2 hdone
              have hcomp : s6.fu.complete = true := by
                rw [hfu6, g1]; exact hl.fuDone.1 hdone
              have hD2 : s2.decodeBus.inside = [] := by rw [g2]; exact heffE.trans heD
              obtain ⟨r1, r2, r3, r4⟩ := runners_nil (hrun4.trans hr3)
              have : isEmpty s6 = true := by
                simp only [isEmpty, hcomp, Bool.true_and, Bool.and_eq_true, decide_eq_true_eq]
                refine ⟨⟨⟨⟨⟨⟨?_, ?_⟩, ?_⟩, ?_⟩, ?_⟩, ?_⟩, ?_⟩
                · simp only [Queue.len, wk.cuPendings, r3, List.length_nil, Int.natCast_zero]
                · exact wus_all_empty _ (by rw [wk.wus, fr.wus, f3wus, f2wus]; exact hr.wus)
                · exact isEmpty_of_inside _ (by rw [hd6, hd3]; exact hD2)
                · exact isEmpty_of_inside _ (by rw [wk.controlBus]; exact r4)
                · exact isEmpty_of_inside _ (by rw [hx6]; exact hx4)
                · exact isEmpty_of_inside _ hw6
                · simp only [List.all_eq_true, ExecUnit.isEmpty, beq_iff_eq]
                  intro eu he
                  rw [wk.eus, fr.eus, f3e, f2e] at he
                  exact (hr.eus eu he).1
              rw [this] at hne; cases hne
            · -- something on the decode bus: `Connect` makes it readable, the decode unit reads it
              have htc : s.fu.toCleanPending = false := by
                cases htc : s.fu.toCleanPending with
                | false => rfl
                | true => simp only [effD, htc, if_true] at heD; exact absurd trivial (by simpa using heD)
              have hDin : s.decodeBus.inside ≠ [] := by simpa only [effD, htc, Bool.false_eq_true, if_false] using heD
              have hq1 := connect_nonempty s.decodeBus (s.cycles + 1) hl.dql hl.ddue hDin
              have : s2.decodeBus.queue = (s.decodeBus.connect (s.cycles + 1)).queue := hFq.1 htc
              rw [hq2] at this
              exact hq1 this.symm
        · have : 1 ≤ s.writeBus.inside.length := by
            cases hwi : s.writeBus.inside with
            | nil => exact absurd hwi hwne
            | cons x xs => simp
          have := hF.1
          omega
    · -- a runner has appeared: the measure is at most 1
      have : phi app s6 ≤ 1 := by
        simp only [phi, hx6, hrun6, hw6l, Nat.add_zero]
        split
        · omega
        · split
          · omega
          · rename_i h1 h2
            exfalso
            apply hfront
            refine ⟨?_, ?_⟩
            · simpa using h1
            · simpa using h2
      omega
  · -- runners wait before the execute bus
    have hphis : phi app s = 1 + s.writeBus.inside.length := by
      simp only [phi, hx, List.isEmpty_nil, Bool.true_eq_false, if_false]
      have : (runners s).isEmpty = false := by
        cases hrr : runners s with
        | nil => exact absurd hrr hrn
        | cons x xs => rfl
      simp only [this, if_true]
    rw [hphis]
    -- the oldest of them is readable for the control unit
    have hPC : s3.cuPendings.items ≠ [] ∨ s3.controlBus.queue ≠ [] := by
      by_cases hP : s.cuPendings.items = []
      · right
        have hCin : s.controlBus.inside ≠ [] := by
          intro hc
          apply hrn
          simp only [runners, hx, hP, hc, List.map_nil, List.append_nil]
        rw [f3q, f2c]
        exact connect_nonempty s.controlBus (s.cycles + 1) hl.cql hl.cdue hCin
      · left
        rw [f3p, f2p]; exact hP
    have hr3 : runners s3 ≠ [] := by
      intro hc
      obtain ⟨_, _, r3, r4⟩ := runners_nil hc
      rcases hPC with h | h
      · exact h r3
      · simp only [BufferedBus.inside, List.append_eq_nil_iff] at r4
        exact h r4.1
    by_cases hx4 : (controlCycle s3).executeBus.inside = []
    · have hphi6 : phi app s6 = 1 := by
        have : (runners s3).isEmpty = false := by
          cases hrr : runners s3 with
          | nil => exact absurd hrr hr3
          | cons x xs => rfl
        simp only [phi, hx6, hx4, hrun6, this, List.isEmpty_nil, Bool.true_eq_false, if_false, if_true, hw6l]
      rw [hphi6]
      have : s.writeBus.inside ≠ [] := by
        intro hwn
        have hb := l3.backL
        rw [hw3, hwn, hx3] at hb
        have := controlCycle_issues s3 hx3 l3.xbl ph3.pend l3.pcap hPC (fun i => hb.no_hazard i)
        apply this
        simp only [BufferedBus.inside, List.append_eq_nil_iff, List.map_eq_nil_iff] at hx4
        exact hx4.2
      have : 1 ≤ s.writeBus.inside.length := by
        cases hwi : s.writeBus.inside with
        | nil => exact absurd hwi this
        | cons x xs => simp
      omega
    · have hphi6 : phi app s6 = 0 := by
        have : (controlCycle s3).executeBus.inside.isEmpty = false := by
          cases hxx : (controlCycle s3).executeBus.inside with
          | nil => exact absurd hxx hx4
          | cons x xs => rfl
        simp only [phi, hx6, this, if_true]
      omega

/-- what a normal tick does to the pair (steps of the unpipelined run, measure) -/
def TickPostL (app : App) (a0 : Arch) (k m : Nat) (s' : State) : Event → Prop
  | .running => ∃ k' a', Proofs.Mvp4.seqIter app k' a0 = some a' ∧
      ((RelG app s' a' ∧ Live s' ∧ 1 ≤ s'.eus.length ∧ (k < k' ∨ (k' = k ∧ phi app s' < m))) ∨
       (RelB app s' a' ∧ LiveB s' ∧ k ≤ k') ∨
       (RelF app s' a' ∧ LiveF s' ∧ k < k'))
  | .done _ => True

/-- **a normal tick executes the next instruction, or brings it closer, or ends the run** -/
theorem normal_tick (app : App) (hp : ProgJ app) (a0 : Arch) (hT : ∀ k a, Proofs.Mvp4.seqIter app k a0 = some a → TgtOk app a)
    (s s' : State) (a : Arch) (k : Nat) (ev : Event) (hk : Proofs.Mvp4.seqIter app k a0 = some a)
    (hr : RelG app s a) (hl : Live s) (hK : 1 ≤ s.eus.length) (h : cycleM app s = .ok (s', ev)) :
    TickPostL app a0 k (phi app s) s' ev := by
  rw [cycleM_normal_eq app s hr.mode] at h
  simp only [bind, Except.bind] at h
  have ph1 := connected_ph app s a hr
  have l1 := connected_live s hl
  split at h
  · cases h
  · rename_i s2 h2
    obtain ⟨ph2, hcl2⟩ := fetch_ph app hp _ s2 a ph1 h2
    have l2 := fetch_live app _ s2 l1 h2
    obtain ⟨f2x, f2c, f2p, f2w, f2e, f2d, f2ctx, f2wus, f2cyc, f2eq⟩ := fetchCycle_frame app _ s2 h2
    split at h
    · cases h
    · rename_i s3 h3
      have ph3 := decode_ph app hp s2 s3 a ph2 hcl2 h3
      have l3 := decode_live app s2 s3 l2 h3
      obtain ⟨f3x, f3p, f3w, f3e, f3fu, f3ctx, f3wus, f3cyc, f3q, f3eq⟩ := decodeCycle_frame app s2 s3 h3
      obtain ⟨hmid, c_wus, c_wqk, c_wql, c_xql, c_xq, c_eqw, c_pend, c_l1d, c_mode⟩ := control_mid app s3 a ph3
      have l4 := control_live s3 l3 ph3.pend
      obtain ⟨pushed, i1, _, _, fr, _⟩ := controlCycle_spec s3 ph3.pend
      obtain ⟨_, b2, _, _⟩ := issued_back i1 ph3.back
      simp only at b2
      have heul : (controlCycle s3).eus.length = s.eus.length := by rw [fr.eus, f3e, f2e]; rfl
      split at h
      · cases h
      · rename_i v hv
        obtain ⟨s5, acc⟩ := v
        simp only at h
        rcases eusCycle_sim app hp a0 hT _ 0 _ s5 {} acc k a (by omega) hmid hk rfl hv with
          ⟨rfl, k', a', hk', hm5, keep, hlv5, hle, hlt, hid⟩ | ⟨herr, k', a', hk', c, hc⟩ | ⟨rfl, k', a', hk', hret, hle⟩ |
          ⟨a', from_, rfl, k', hk', hfl, hlt⟩
        · -- no error, no `ret`, no flush
          simp only [afterEus, Bool.false_eq_true, if_false, bind, Except.bind] at h
          have hwus5 : ∀ wu ∈ s5.wus, wu.co = .none := by rw [keep.wus]; exact c_wus
          split at h
          · cases h
          · rename_i s6 h6
            obtain ⟨b6, wk, q6⟩ := wusCycle_sim s5 s6 a' hwus5 hm5.back h6
            have hmid5 : Mid app s5 a' (controlCycle s3).eus.length := by simpa using hm5
            have hrel6 := relG_after app (controlCycle s3) s5 s6 a' hmid5 keep wk b6 q6 c_wus c_wqk c_wql c_xql c_xq c_eqw
              c_pend c_l1d c_mode
            split at h
            · unfold finish at h
              rw [flush_empty s6.mmu s6.ctx.Memory hrel6.l1d.1] at h
              simp only [bind, Except.bind, pure, Except.pure, Except.ok.injEq, Prod.mk.injEq] at h
              obtain ⟨_, rfl⟩ := h
              trivial
            · rename_i hne
              simp only [pure, Except.pure, Except.ok.injEq, Prod.mk.injEq] at h
              obtain ⟨rfl, rfl⟩ := h
              refine ⟨k', a', hk', Or.inl ⟨hrel6, wk.live (hlv5 l4), by rw [wk.eus, keep.eul, heul]; exact hK, ?_⟩⟩
              by_cases hx : s.executeBus.inside = []
              · right
                have hq4 : (controlCycle s3).executeBus.queue = [] := by
                  rw [b2, f3x, f2x]
                  have : (s.executeBus.connect (s.cycles + 1)).inside = [] := by rw [inside_connect]; exact hx
                  simp only [BufferedBus.inside, List.append_eq_nil_iff] at this
                  exact this.1
                obtain ⟨rfl, rfl, rfl⟩ := hid hq4
                exact ⟨rfl, stall_phi app hp s s2 s3 _ _ hr hl hx h2 h3 wk hrel6.wq (by simpa using hne)⟩
              · left
                apply hlt _ (by omega)
                rw [b2, f3x, f2x]
                exact connect_nonempty s.executeBus (s.cycles + 1) (by rw [hr.xql]; decide) hl.xdue hx
        · simp only [afterEus, herr, if_true, pure, Except.pure, Except.ok.injEq, Prod.mk.injEq] at h
          obtain ⟨_, rfl⟩ := h
          trivial
        · -- a `ret` was executed
          simp only [afterEus, Bool.false_eq_true, if_false, if_true, bind, Except.bind] at h
          have hwus5 : ∀ wu ∈ s5.wus, wu.co = .none := by rw [hret.keep.wus]; exact c_wus
          split at h
          · cases h
          · rename_i s6 h6
            obtain ⟨b6, wk, _⟩ := wusCycle_sim s5 s6 a' hwus5 hret.back h6
            have hidle6 : ∀ eu ∈ s6.eus, eu.co = .none ∧ eu.memory = [] := by rw [wk.eus]; exact hret.eus
            unfold goRetA at h
            simp only [eus_idle_any s6 hidle6, Bool.false_eq_true, if_false] at h
            unfold goRetB at h
            split at h
            · simp only [pure, Except.pure, Except.ok.injEq, Prod.mk.injEq] at h
              obtain ⟨rfl, rfl⟩ := h
              refine ⟨k', a', hk', Or.inr (Or.inl ⟨⟨hret.halt, ?_, by (show ∀ wu ∈ s6.wus, wu.co = .none); rw [wk.wus]; exact hwus5,
                by (show MmuOk s6.mmu); rw [wk.mmu, hret.keep.mmu]; exact c_l1d, rfl⟩, ⟨?_, ?_, ?_⟩, hle⟩)⟩
              · show Back s6.ctx (s6.writeBus.connect (s6.cycles + 1)).inside s6.executeBus.inside a'
                rw [inside_connect]; exact b6
              · intro e he
                have h1 := connect_buffer_sub _ _ e he
                rw [wk.wbuf] at h1
                have := hret.stamps e h1
                show e.1 ≤ s6.cycles + 1 + 1
                rw [wk.cycles]; omega
              · show 1 ≤ (s6.writeBus.connect (s6.cycles + 1)).queueLength
                rw [(connect_lengths _ _).1, wk.wql, hret.keep.wql, c_wql]; decide
              · show 1 ≤ s6.wus.length
                rw [wk.wus, hret.keep.wus, ← c_eqw, heul]; exact hK
            · unfold finish at h
              rw [flush_empty _ _ (by (show s6.mmu.l1d.lines = []); rw [wk.mmu, hret.keep.mmu]; exact c_l1d.1)] at h
              simp only [bind, Except.bind, pure, Except.pure, Except.ok.injEq, Prod.mk.injEq] at h
              obtain ⟨_, rfl⟩ := h
              trivial
        · -- a taken branch or jump has flushed
          simp only [afterEus, Bool.false_eq_true, if_false, if_true, bind, Except.bind] at h
          have hwus5 : ∀ wu ∈ s5.wus, wu.co = .none := by rw [hfl.keep.wus]; exact c_wus
          obtain ⟨n4, _, hf4⟩ := hmid.front
          have hinv5 : DrainInv from_ a'.ctx.Registers s5 := ⟨hwus5, hfl.nomem, hfl.regsT⟩
          have hsid4 : (controlCycle s3).ctx.sequenceID = 0 ∨ NoCond app := hmid.seqs.sid
          have hff5 : FFacts app s5 a' from_ a'.pc :=
            ⟨hinv5, hfl.npc, rfl, hfl.mem, hfl.ratS, hfl.txS, hfl.ratA, hfl.txA,
             fun eu he => (hfl.eus eu he).2, by rw [hfl.keep.eul, hfl.keep.wus]; exact c_eqw,
             by rw [hfl.keep.wql]; exact c_wql, by rw [hfl.keep.wbl]; exact hmid.wbl, by rw [hfl.keep.xql]; exact c_xql,
             by rw [hfl.keep.decodeBus]; exact hf4.dlen,
             by rw [hfl.keep.mmu]; exact c_l1d, hfl.plain, by rw [hfl.keep.ctx]; exact hsid4,
             by rw [hfl.keep.eul, hfl.keep.xbl]; exact hmid.k1.imp id (Or.imp id (fun w => w.bl)),
             by rw [hfl.keep.wus, ← c_eqw]; exact hfl.k⟩
          split at h
          · cases h
          · rename_i s6 h6
            unfold wusCycle at h6
            rw [List.range_eq_range'] at h6
            obtain ⟨d6, k6⟩ := wus_drain_m1 from_ a'.ctx.Registers s5.wus.length 0 s5 s6 (by omega) hinv5 hfl.qKept h6
            have hff6 := hff5.keep d6 k6
            have hlf6 : LiveF { s6 with writeBus := s6.writeBus.connect (s6.cycles + 1) } := by
              refine ⟨?_, by (show 1 ≤ s6.controlBus.queueLength); rw [k6.controlBus, hfl.keep.controlBus]; exact l4.cql,
                by (show 1 ≤ s6.decodeBus.queueLength); rw [k6.decodeBus, hfl.keep.decodeBus]; exact l4.dql,
                by (show s6.executeBus.bufferLength = 2); rw [k6.executeBus, hfl.keep.xbl]; exact l4.xbl,
                by (show 1 ≤ s6.cuPendings.length); rw [k6.cuPendings, hfl.keep.pend]; exact l4.pcap⟩
              intro e he
              have h1 := connect_buffer_sub _ _ e he
              rw [k6.wbuf] at h1
              have := hfl.stamps e h1
              show e.1 ≤ s6.cycles + 1
              rw [k6.cycles]; exact this
            simp only [pure, Except.pure, Except.ok.injEq] at h
            have hev := congrArg Prod.snd h
            have hs := congrArg Prod.fst h
            simp only at hev hs
            obtain ⟨g1, g2⟩ := goFlush_post app hp.small { s6 with writeBus := s6.writeBus.connect (s6.cycles + 1) } a' from_ a'.pc 0
              s6.wus.length (by (show 0 < s6.wus.length); have := hff6.wk; omega) hff6.wk (hff6.connect (s6.cycles + 1)) hlf6
            rw [← hev, ← hs]
            show TickPostL app a0 k _ _ _
            rw [g1]
            rcases g2 with ⟨r1, r2, _⟩ | ⟨r1, r2, r3⟩
            · exact ⟨k', a', hk', Or.inr (Or.inr ⟨r1, r2, hlt⟩)⟩
            · exact ⟨k', a', hk', Or.inl ⟨r1, r2, r3, Or.inl hlt⟩⟩

/-! ### the run ends -/

/-- the run from `s` ends within some number of ticks -/
def Halts (app : App) (s : State) : Prop := ∃ fuel, ∀ n, (runFrom app fuel s n).halt ≠ none

theorem halts_of_done (app : App) (s s' : State) (h : Halt) (hc : cycle app s = (s', .done h)) : Halts app s := by
  refine ⟨1, fun n => ?_⟩
  unfold runFrom
  rw [hc]
  simp

theorem halts_of_running (app : App) (s s' : State) (hc : cycle app s = (s', .running)) (h : Halts app s') : Halts app s := by
  obtain ⟨fuel, hf⟩ := h
  refine ⟨fuel + 1, fun n => ?_⟩
  unfold runFrom
  rw [hc]
  exact hf (n + 1)

theorem seqIter_none_after (app : App) (a0 aN : Arch) (N : Nat) (hN : Proofs.Mvp4.seqIter app N a0 = some aN)
    (hh : ∃ hk c, stepArch Proofs.Mvp4.dc app aN = .halt hk c) : ∀ j, Proofs.Mvp4.seqIter app (N + 1 + j) a0 = none := by
  intro j
  induction j with
  | zero =>
    obtain ⟨hk, c, hc⟩ := hh
    simp only [Nat.add_zero, Proofs.Mvp4.seqIter, hN, Option.bind_some, Proofs.Mvp4.seqNext, hc]
  | succ j ih =>
    have : N + 1 + (j + 1) = (N + 1 + j) + 1 := by omega
    rw [this]
    simp only [Proofs.Mvp4.seqIter, ih, Option.bind_none]

theorem seqIter_le_of_halt (app : App) (a0 aN a' : Arch) (N k' : Nat) (hN : Proofs.Mvp4.seqIter app N a0 = some aN)
    (hh : ∃ hk c, stepArch Proofs.Mvp4.dc app aN = .halt hk c) (hk' : Proofs.Mvp4.seqIter app k' a0 = some a') : k' ≤ N := by
  rcases Nat.lt_or_ge N k' with h | h
  · obtain ⟨j, rfl⟩ : ∃ j, k' = N + 1 + j := ⟨k' - N - 1, by omega⟩
    rw [seqIter_none_after app a0 aN N hN hh j] at hk'
    cases hk'
  · exact h

/-- a state of the refinement relation with everything that makes the pipeline move -/
def GoodState (app : App) (s : State) (a : Arch) : Prop :=
  (RelG app s a ∧ Live s ∧ 1 ≤ s.eus.length) ∨ (RelB app s a ∧ LiveB s) ∨ (RelF app s a ∧ LiveF s)

/-- **termination**: when the unpipelined run ends after `N` steps, the run of MVP-6.0 from every state of the relation
ends (lexicographic induction on the steps still to go, the mode — drain before a flush, normal, drain after `ret` —, and the
measure of the mode) -/
theorem halts_from (app : App) (hp : ProgJ app) (a0 aN : Arch) (N : Nat)
    (hT : ∀ k a, Proofs.Mvp4.seqIter app k a0 = some a → TgtOk app a)
    (hN : Proofs.Mvp4.seqIter app N a0 = some aN) (hh : ∃ hk c, stepArch Proofs.Mvp4.dc app aN = .halt hk c) :
    ∀ (d k : Nat) (s : State) (a : Arch), N - k = d → Proofs.Mvp4.seqIter app k a0 = some a → GoodState app s a → Halts app s := by
  intro d
  induction d using Nat.strongRecOn with
  | _ d ihd =>
    intro k s a hd hk hg
    -- a related state with more steps done
    have hmore : ∀ (k' : Nat) (s' : State) (a' : Arch), k < k' → Proofs.Mvp4.seqIter app k' a0 = some a' →
        GoodState app s' a' → Halts app s' := by
      intro k' s' a' hlt hk' hg'
      have hle := seqIter_le_of_halt app a0 aN a' N k' hN hh hk'
      exact ihd (N - k') (by omega) k' s' a' rfl hk' hg'
    -- the tick function on a related state
    have htick : ∀ (s : State) (a : Arch), Proofs.Mvp4.seqIter app k a0 = some a →
        (RelG app s a ∨ RelB app s a ∨ RelF app s a) →
        ∃ s' ev, cycleM app s = .ok (s', ev) ∧ cycle app s = (s', ev) := by
      intro s a hk hr
      obtain ⟨s', ev, hok, _⟩ := cycleM_ok app hp a0 hT s a k hk hr
      exact ⟨s', ev, hok, by unfold cycle; rw [hok]⟩
    -- the drain after a `ret`
    have hB : ∀ (m : Nat) (s : State) (a : Arch), muW s = m → Proofs.Mvp4.seqIter app k a0 = some a → RelB app s a → LiveB s →
        Halts app s := by
      intro m
      induction m using Nat.strongRecOn with
      | _ m ihm =>
        intro s a hm hk hr hlb
        obtain ⟨s', ev, hok, hc⟩ := htick s a hk (Or.inr (Or.inl hr))
        have hpost := retB_tick app s s' a ev hr hlb hok
        cases ev with
        | done h => exact halts_of_done app s s' h hc
        | running =>
          obtain ⟨r1, r2, r3⟩ := hpost
          exact halts_of_running app s s' hc (ihm (muW s') (by omega) s' a rfl hk r1 r2)
    -- between normal ticks
    have hG : ∀ (m : Nat) (s : State) (a : Arch), phi app s = m → Proofs.Mvp4.seqIter app k a0 = some a → RelG app s a → Live s →
        1 ≤ s.eus.length → Halts app s := by
      intro m
      induction m using Nat.strongRecOn with
      | _ m ihm =>
        intro s a hm hk hr hl hK
        obtain ⟨s', ev, hok, hc⟩ := htick s a hk (Or.inl hr)
        have hpost := normal_tick app hp a0 hT s s' a k ev hk hr hl hK hok
        cases ev with
        | done h => exact halts_of_done app s s' h hc
        | running =>
          obtain ⟨k', a', hk', hcase⟩ := hpost
          apply halts_of_running app s s' hc
          rcases hcase with ⟨r1, r2, r3, r4⟩ | ⟨r1, r2, r3⟩ | ⟨r1, r2, r3⟩
          · rcases r4 with hlt | ⟨rfl, hphi⟩
            · exact hmore k' s' a' hlt hk' (Or.inl ⟨r1, r2, r3⟩)
            · exact ihm (phi app s') (by omega) s' a' rfl hk' r1 r2 r3
          · rcases Nat.lt_or_ge k k' with hlt | hge
            · exact hmore k' s' a' hlt hk' (Or.inr (Or.inl ⟨r1, r2⟩))
            · have : k' = k := by omega
              subst this
              exact hB (muW s') s' a' rfl hk' r1 r2
          · exact hmore k' s' a' r3 hk' (Or.inr (Or.inr ⟨r1, r2⟩))
    -- the drain before a flush
    have hF : ∀ (m : Nat) (s : State) (a : Arch), muW s = m → Proofs.Mvp4.seqIter app k a0 = some a → RelF app s a → LiveF s →
        Halts app s := by
      intro m
      induction m using Nat.strongRecOn with
      | _ m ihm =>
        intro s a hm hk hr hlf
        obtain ⟨s', ev, hok, hc⟩ := htick s a hk (Or.inr (Or.inr hr))
        obtain ⟨rfl, hcase⟩ := flushW_tick app hp.small s s' a ev hr hlf hok
        apply halts_of_running app s s' hc
        rcases hcase with ⟨r1, r2, r3⟩ | ⟨r1, r2, r3⟩
        · exact ihm (muW s') (by omega) s' a rfl hk r1 r2
        · exact hG (phi app s') s' a rfl hk r1 r2 r3
    rcases hg with ⟨r1, r2, r3⟩ | ⟨r1, r2⟩ | ⟨r1, r2⟩
    · exact hG _ s a rfl hk r1 r2 r3
    · exact hB _ s a rfl hk r1 r2
    · exact hF _ s a rfl hk r1 r2

theorem init_live (ctx : Model.Context) (u : Model.Mmu.Mmu) (eu wu : Nat)
    (hpw : ∀ r, GoMap.get1 ctx.PendingWriteRegisters r = 0) (hpr : ∀ r, GoMap.get1 ctx.PendingReadRegisters r = 0) :
    Live ({ ctx := ctx, mmu := u, eus := List.replicate eu {}, wus := List.replicate wu {} } : State) := by
  have h2 : (1 : Int) ≤ busSize := by decide
  have h3 : (1 : Int) ≤ Gen.Consts.mvp6_0.pendingLength := by decide
  refine ⟨(fun e he => by cases he), (fun e he => by cases he), (fun e he => by cases he), h2, h2, ?_,
    (fun h => by cases h), ⟨(fun h => by cases h), (fun h => by cases h)⟩, rfl, h3⟩
  refine ⟨fun r _ => ?_, fun r _ => ?_⟩
  · show GoMap.get1 ctx.PendingWriteRegisters r ≤ _
    rw [hpw r]; exact Int.le_refl _
  · show GoMap.get1 ctx.PendingReadRegisters r ≤ _
    rw [hpr r]; exact Int.le_refl _

/-- **MVP-6.0 terminates on the class with jumps**: when the unpipelined run from the initial state ends after `N` steps,
the run of the model with `K ≥ 1` execute and write units ends within some tick budget — not with a Go panic -/
theorem mvp60_j_terminates (app : App) (hp : ProgJ app) (ctx : Model.Context) (hc : CtxOk ctx)
    (hpr : ∀ r, GoMap.get1 ctx.PendingReadRegisters r = 0) (K : Nat) (hK : 1 ≤ K)
    (hsid : ctx.sequenceID = 0 ∨ NoCond app)
    (hT : ∀ k a, Proofs.Mvp4.seqIter app k ⟨ctx, 0#32⟩ = some a → TgtOk app a)
    (N : Nat) (aN : Arch) (hN : Proofs.Mvp4.seqIter app N ⟨ctx, 0#32⟩ = some aN)
    (hh : ∃ hk c, stepArch Proofs.Mvp4.dc app aN = .halt hk c) :
    ∃ ticks hk, (run app ctx K K ticks).halt = some hk ∧ ∀ w, hk ≠ .panic w := by
  obtain ⟨s0, hinit, hR⟩ := init_relG app ctx hc K K rfl hsid
  have hs0 := hinit
  obtain ⟨u, hu, _⟩ := new_ok
  simp only [init, hu, bind, Except.bind, pure, Except.pure, Except.ok.injEq] at hs0
  have hl0 : Live s0 := by rw [← hs0]; exact init_live ctx u K K hc.pw hpr
  have hK0 : 1 ≤ s0.eus.length := by rw [← hs0]; simp only [List.length_replicate]; exact hK
  obtain ⟨ticks, hhalt⟩ := halts_from app hp ⟨ctx, 0#32⟩ aN N hT hN hh (N - 0) 0 s0 ⟨ctx, 0#32⟩ rfl rfl (Or.inl ⟨hR, hl0, hK0⟩)
  have hrun : run app ctx K K ticks = runFrom app ticks s0 0 := by unfold run; rw [hinit]
  have h1 := hhalt 0
  rw [← hrun] at h1
  cases hres : (run app ctx K K ticks).halt with
  | none => exact absurd hres h1
  | some hk =>
    refine ⟨ticks, hk, hres, fun w hw => ?_⟩
    subst hw
    exact mvp60_j_never_panics app hp ctx hc K ticks hsid hT w hres

end Proofs.Mvp60Sl

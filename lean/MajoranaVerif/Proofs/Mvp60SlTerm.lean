/-
  Proofs/Mvp60SlTerm.lean — package R60c: termination.  On the class with jumps the MVP-6.0 pipeline always moves: a tick
  executes the next instruction of the sequential run, or it brings it closer (a measure on the state decreases), or the run
  ends.  With `Proofs.Mvp60Sl.mvp60_j_never_panics` this is totality.
-/
import MajoranaVerif.Proofs.Mvp60SlNoPanic
open GoInt

set_option linter.unusedSimpArgs false
set_option linter.unusedVariables false

namespace Proofs.Mvp60Sl
open Model Model.Mvp60 Proofs.Mvp60Flush
open Model.Seq (App Halt Arch stepArch)

/-! ### `Live` through the phases of a tick -/

theorem connected_live (s : State) (hl : Live s) : Live (connected s) := by
  have hrun : runners (connected s) = runners s := by simp only [runners, connected, inside_connect]
  refine ⟨?_, ?_, ?_, ?_, ?_, ?_, ?_, hl.fuDone⟩
  · exact ((hl.xdue.connect (s.cycles + 1)).mono (by show s.cycles + 1 ≤ s.cycles + 1 + 1; omega))
  · exact ((hl.cdue.connect (s.cycles + 1)).mono (by show s.cycles + 1 ≤ s.cycles + 1 + 1; omega))
  · exact ((hl.ddue.connect (s.cycles + 1)).mono (by show s.cycles + 1 ≤ s.cycles + 1 + 1; omega))
  · show 1 ≤ (s.controlBus.connect (s.cycles + 1)).queueLength
    rw [(connect_lengths _ _).1]; exact hl.cql
  · show 1 ≤ (s.decodeBus.connect (s.cycles + 1)).queueLength
    rw [(connect_lengths _ _).1]; exact hl.dql
  · show BackL s.ctx (s.writeBus.connect (s.cycles + 1)).inside (s.executeBus.connect (s.cycles + 1)).inside
    rw [inside_connect, inside_connect]; exact hl.backL
  · rw [hrun]; exact hl.retIn

theorem fetch_live (app : App) (s s2 : State) (hl : Live s) (hr : fetchCycle app s = .ok s2) : Live s2 := by
  unfold fetchCycle at hr
  simp only [bind, Except.bind] at hr
  split at hr
  · cases hr
  · rename_i v hv
    obtain ⟨fu', mmu', bus'⟩ := v
    simp only [pure, Except.pure, Except.ok.injEq] at hr
    subst hr
    obtain ⟨e1, e2, e3⟩ := fetchCore_live app s.cycles s.fu fu' s.mmu mmu' s.decodeBus bus' hl.ddue hl.fuDone hv
    exact ⟨hl.xdue, hl.cdue, e1, hl.cql, by (show 1 ≤ bus'.queueLength); rw [e3]; exact hl.dql, hl.backL, hl.retIn, e2⟩

theorem decode_live (app : App) (s s3 : State) (hl : Live s) (hr : decodeCycle app s = .ok s3) : Live s3 := by
  unfold decodeCycle decodeCore at hr
  by_cases hdr : s.du.ret = true
  · simp only [hdr, if_true, bind, Except.bind, pure, Except.pure, Except.ok.injEq] at hr
    subst hr; exact hl
  · cases hpd : s.du.pendingBranchResolution with
    | true =>
      simp only [hdr, hpd, if_true, Bool.false_eq_true, if_false, bind, Except.bind, pure, Except.pure, Except.ok.injEq] at hr
      subst hr; exact hl
    | false =>
      simp only [hdr, hpd, Bool.false_eq_true, if_false, bind, Except.bind] at hr
      split at hr
      · cases hr
      · rename_i v hv
        obtain ⟨du', d', c'⟩ := v
        simp only [pure, Except.pure, Except.ok.injEq] at hr
        subst hr
        obtain ⟨e1, e2, e3, e4, e5, e6⟩ := decodeLoop_live app s.ctx s.cycles _ s.du du' s.decodeBus d' s.controlBus c' hv
        refine ⟨hl.xdue, e4 hl.cdue, fun e he => hl.ddue e (by rw [← e1]; exact he),
          by (show 1 ≤ c'.queueLength); rw [e3]; exact hl.cql, by (show 1 ≤ d'.queueLength); rw [e2]; exact hl.dql,
          hl.backL, ?_, hl.fuDone⟩
        intro hret
        rcases e5 hret with h1 | ⟨r, hr1, hr2⟩
        · exact absurd h1 hdr
        · exact ⟨r, by simp only [runners, List.mem_append]; exact Or.inr hr1, hr2⟩

theorem issued_inside {c p : Int} {pushed : List Runner} {x y : Model.Context × BufferedBus Runner}
    (h : Issued c p pushed x y) : y.2.inside = x.2.inside ++ pushed := by
  induction h with
  | nil p x => simp
  | cons p r rs ctx bus y _ _ _ _ ih =>
    rw [ih]; simp only [inside_add, List.append_assoc, List.singleton_append]

theorem control_live (s : State) (hl : Live s) (hp : s.cuPendings.items.length ≤ 1) : Live (controlCycle s) := by
  obtain ⟨pushed, i1, i2, i3, fr, _⟩ := controlCycle_spec s hp
  have hbuf := issued_buffer i1
  have hb := issued_backL i1 (W := s.writeBus.inside) hl.backL
  have b4 := issued_inside i1
  simp only at hbuf hb b4
  obtain ⟨c1, c2⟩ := controlCycle_cbus s
  have hrun : runners (controlCycle s) = runners s := by
    simp only [runners, b4, List.append_assoc]
    rw [← List.append_assoc pushed, i2]
  refine ⟨?_, ?_, by rw [fr.decodeBus, fr.cycles]; exact hl.ddue, by rw [c2]; exact hl.cql,
    by rw [fr.decodeBus]; exact hl.dql, by rw [fr.writeBus]; exact hb, by rw [hrun, fr.du]; exact hl.retIn,
    by rw [fr.fu]; exact hl.fuDone⟩
  · intro e he
    rw [hbuf] at he
    rw [fr.cycles]
    rcases List.mem_append.mp he with he | he
    · exact hl.xdue e he
    · simp only [List.mem_map] at he
      obtain ⟨r, _, rfl⟩ := he
      exact Int.le_refl _
  · intro e he
    rw [c1] at he
    rw [fr.cycles]
    exact hl.cdue e he

end Proofs.Mvp60Sl

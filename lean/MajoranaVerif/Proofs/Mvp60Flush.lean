/-
  Proofs/Mvp60Flush.lean — package R60b: the drain of the write bus before a pipeline flush (MVP-6.0).

  When an execute unit signals a flush (`from` = pc of the flushing branch = its sequence id), `Run` lets the write units
  take every result off the write bus before `m.flush(pc)`; a write unit called with `before = from` DROPS a result whose
  sequence id is greater than `from` and writes back every other one.  `DrainInv from target s`: applying the results
  that will be KEPT (`kept from`) to the register file, in order, gives `target`.  The entry into the drain (`goFlush` at
  the end of a normal tick) and every tick of it (`mode = flushW i from pc`) keep this, and when the drain is over the
  register file IS `target` and everything in flight is gone: a wrong-path result (sequence id > `from`) that an execute
  unit put on the write bus in the tick of the flush never reaches the register file; every older result does.
-/
import MajoranaVerif.Proofs.Mvp60SlBack
import MajoranaVerif.Proofs.Mvp60Fast
open GoInt

set_option linter.unusedSimpArgs false
set_option linter.unusedVariables false

namespace Proofs.Mvp60Flush
open Model Model.Mvp60 Proofs.Mvp60Sl
open Model.Seq (App Halt Arch)

/-- the write unit keeps this result when called with `before = from_` -/
def kept (from_ : Word) (ec : ExecCtx) : Bool := !(from_ != BitVec.ofInt 32 (-1) && from_.slt ec.seq)

/-- the invariant of the drain -/
structure DrainInv (from_ : Word) (target : GoMap Reg Word) (s : State) : Prop where
  wus : ∀ wu ∈ s.wus, wu.co = .none
  nomem : ∀ ec ∈ s.writeBus.inside, ec.execution.MemoryChange = false
  regs : applyW (s.writeBus.inside.filter (kept from_)) s.ctx.Registers = target

/-- the drain is over: the register file is the target, the pipeline is empty and fetch restarts at `pc` -/
structure Flushed (pc : Word) (target : GoMap Reg Word) (s : State) : Prop where
  mode : s.mode = .normal
  regs : s.ctx.Registers = target
  wbus : s.writeBus.inside = []
  xbus : s.executeBus.inside = []
  fu : s.fu.pc = pc

/-- what a write unit leaves alone -/
structure DrainKeep (s s' : State) : Prop where
  fu : s'.fu = s.fu
  decodeBus : s'.decodeBus = s.decodeBus
  du : s'.du = s.du
  controlBus : s'.controlBus = s.controlBus
  cuPendings : s'.cuPendings = s.cuPendings
  executeBus : s'.executeBus = s.executeBus
  eus : s'.eus = s.eus
  wus : s'.wus = s.wus
  mmu : s'.mmu = s.mmu
  cycles : s'.cycles = s.cycles
  mode : s'.mode = s.mode
  wbuf : s'.writeBus.buffer = s.writeBus.buffer
  wql : s'.writeBus.queueLength = s.writeBus.queueLength
  wbl : s'.writeBus.bufferLength = s.writeBus.bufferLength
  wqle : s'.writeBus.queue.length ≤ s.writeBus.queue.length
  mem : s'.ctx.Memory = s.ctx.Memory
  rat : s'.ctx.rat = s.ctx.rat
  tx : s'.ctx.Transaction = s.ctx.Transaction
  sid : s'.ctx.sequenceID = s.ctx.sequenceID
  wsub : ∀ ec ∈ s'.writeBus.inside, ec ∈ s.writeBus.inside
  wqsub : ∀ ec ∈ s'.writeBus.queue, ec ∈ s.writeBus.queue

theorem DrainKeep.refl (s : State) : DrainKeep s s :=
  ⟨rfl, rfl, rfl, rfl, rfl, rfl, rfl, rfl, rfl, rfl, rfl, rfl, rfl, rfl, Nat.le_refl _, rfl, rfl, rfl, rfl, fun _ h => h, fun _ h => h⟩

theorem DrainKeep.trans {a b c : State} (h1 : DrainKeep a b) (h2 : DrainKeep b c) : DrainKeep a c :=
  ⟨h2.fu.trans h1.fu, h2.decodeBus.trans h1.decodeBus, h2.du.trans h1.du, h2.controlBus.trans h1.controlBus,
   h2.cuPendings.trans h1.cuPendings, h2.executeBus.trans h1.executeBus, h2.eus.trans h1.eus, h2.wus.trans h1.wus,
   h2.mmu.trans h1.mmu, h2.cycles.trans h1.cycles, h2.mode.trans h1.mode, h2.wbuf.trans h1.wbuf, h2.wql.trans h1.wql,
   h2.wbl.trans h1.wbl, Nat.le_trans h2.wqle h1.wqle, h2.mem.trans h1.mem, h2.rat.trans h1.rat, h2.tx.trans h1.tx, h2.sid.trans h1.sid,
   fun ec h => h1.wsub ec (h2.wsub ec h), fun ec h => h1.wqsub ec (h2.wqsub ec h)⟩

/-- one write unit (idle) called with `before`: whenever its drop decision for the oldest result is the one of `kept from_` -/
theorem wuCycle_drainG (from_ before : Word) (target : GoMap Reg Word) (s s' : State) (j : Nat) (hj : j < s.wus.length)
    (h : DrainInv from_ target s)
    (hdec : ∀ ec q, s.writeBus.queue = ec :: q → (before != BitVec.ofInt 32 (-1) && before.slt ec.seq) = !kept from_ ec)
    (hr : wuCycle s j before = .ok s') : DrainInv from_ target s' ∧ DrainKeep s s' := by
  obtain ⟨wu, hget⟩ := Proofs.Mvp60Sl.get_lt s.wus j hj
  have hco := h.wus wu (List.mem_of_getElem? hget)
  unfold wuCycle at hr
  simp only [hget, hco] at hr
  cases hq : s.writeBus.queue with
  | nil =>
    simp only [get_none _ hq, pure, Except.pure, Except.ok.injEq] at hr
    subst hr
    exact ⟨h, DrainKeep.refl s⟩
  | cons ec q =>
    simp only [get_some _ ec q hq] at hr
    have hd := hdec ec q hq
    have hin : s.writeBus.inside = ec :: ({ s.writeBus with queue := q } : BufferedBus ExecCtx).inside := by
      simp only [BufferedBus.inside, hq, List.cons_append]
    have hregs := h.regs
    rw [hin] at hregs
    have hnm : ∀ e ∈ ({ s.writeBus with queue := q } : BufferedBus ExecCtx).inside, e.execution.MemoryChange = false :=
      fun e he => h.nomem e (by rw [hin]; exact List.mem_cons_of_mem _ he)
    have hnm0 : ec.execution.MemoryChange = false := h.nomem ec (by rw [hin]; exact List.mem_cons_self)
    have hlen : q.length ≤ s.writeBus.queue.length := by rw [hq]; simp only [List.length_cons]; omega
    by_cases hk : kept from_ ec = true
    · simp only [hk, Bool.not_true] at hd
      simp only [hd, Bool.false_eq_true, if_false] at hr
      simp only [List.filter_cons, hk, if_true, applyW] at hregs
      split at hr
      · rename_i hrc
        simp only [pure, Except.pure, Except.ok.injEq] at hr
        subst hr
        simp only [hrc, if_true] at hregs
        exact ⟨⟨h.wus, hnm, hregs⟩, ⟨rfl, rfl, rfl, rfl, rfl, rfl, rfl, rfl, rfl, rfl, rfl, rfl, rfl, rfl, hlen, rfl, rfl, rfl, rfl,
          fun e he => by rw [hin]; exact List.mem_cons_of_mem _ he, fun e he => by rw [hq]; exact List.mem_cons_of_mem _ he⟩⟩
      · rename_i hrc
        simp only [hnm0, Bool.false_eq_true, if_false, pure, Except.pure, Except.ok.injEq] at hr
        subst hr
        simp only [hrc, Bool.false_eq_true, if_false] at hregs
        exact ⟨⟨h.wus, hnm, hregs⟩, ⟨rfl, rfl, rfl, rfl, rfl, rfl, rfl, rfl, rfl, rfl, rfl, rfl, rfl, rfl, hlen, rfl, rfl, rfl, rfl,
          fun e he => by rw [hin]; exact List.mem_cons_of_mem _ he, fun e he => by rw [hq]; exact List.mem_cons_of_mem _ he⟩⟩
    · have hk0 : kept from_ ec = false := by simpa using hk
      simp only [hk0, Bool.not_false] at hd
      simp only [hd, if_true, pure, Except.pure, Except.ok.injEq] at hr
      subst hr
      simp only [List.filter_cons, hk0, Bool.false_eq_true, if_false] at hregs
      exact ⟨⟨h.wus, hnm, hregs⟩, ⟨rfl, rfl, rfl, rfl, rfl, rfl, rfl, rfl, rfl, rfl, rfl, rfl, rfl, rfl, hlen, rfl, rfl, rfl, rfl,
          fun e he => by rw [hin]; exact List.mem_cons_of_mem _ he, fun e he => by rw [hq]; exact List.mem_cons_of_mem _ he⟩⟩

/-- the write units of a normal tick (`before = -1`) when everything on the write bus will be kept -/
theorem wus_drain_m1 (from_ : Word) (target : GoMap Reg Word) : ∀ (n i : Nat) (s s' : State), i + n = s.wus.length →
    DrainInv from_ target s → (∀ ec ∈ s.writeBus.queue, kept from_ ec = true) →
    (List.range' i n).foldlM (fun s j => wuCycle s j (BitVec.ofInt 32 (-1))) s = .ok s' →
    DrainInv from_ target s' ∧ DrainKeep s s' := by
  intro n
  induction n with
  | zero =>
    intro i s s' _ h _ hr
    simp only [List.range'_zero, List.foldlM, pure, Except.pure, Except.ok.injEq] at hr
    subst hr
    exact ⟨h, DrainKeep.refl s⟩
  | succ n ih =>
    intro i s s' hlen h hk hr
    simp only [List.range'_succ, List.foldlM, bind, Except.bind] at hr
    split at hr
    · cases hr
    · rename_i s1 h1
      obtain ⟨d1, k1⟩ := wuCycle_drainG from_ (BitVec.ofInt 32 (-1)) target s s1 i (by omega) h
        (by intro ec q hq
            have : kept from_ ec = true := hk ec (by rw [hq]; exact List.mem_cons_self)
            simp only [this, bne_self_eq_false, Bool.false_and, Bool.not_true]) h1
      obtain ⟨d2, k2⟩ := ih (i + 1) s1 s' (by rw [k1.wus]; omega) d1 (fun ec hec => hk ec (k1.wqsub ec hec)) hr
      exact ⟨d2, k1.trans k2⟩

/-- one write unit (idle) called with `before = from_` -/
theorem wuCycle_drain (from_ : Word) (target : GoMap Reg Word) (s s' : State) (j : Nat) (hj : j < s.wus.length)
    (h : DrainInv from_ target s) (hr : wuCycle s j from_ = .ok s') :
    DrainInv from_ target s' ∧ s'.wus = s.wus ∧ s'.mode = s.mode ∧ s'.cycles = s.cycles ∧ s'.fu = s.fu ∧
    s'.executeBus = s.executeBus ∧ s'.eus = s.eus ∧ s'.ctx.Memory = s.ctx.Memory := by
  obtain ⟨d, k⟩ := wuCycle_drainG from_ from_ target s s' j hj h (by intro ec q _; simp only [kept, Bool.not_not]) hr
  exact ⟨d, k.wus, k.mode, k.cycles, k.fu, k.executeBus, k.eus, k.mem⟩

theorem DrainInv.connect {from_ : Word} {target : GoMap Reg Word} {s : State} (h : DrainInv from_ target s) (c : Int) :
    DrainInv from_ target { s with writeBus := s.writeBus.connect c } :=
  ⟨h.wus, by simp only [inside_connect]; exact h.nomem, by simp only [inside_connect]; exact h.regs⟩

/-- what the drain looks like between two ticks: still draining with the invariant, or over -/
def DrainPost (from_ pc : Word) (target : GoMap Reg Word) (s : State) : Prop :=
  ((∃ i, s.mode = .flushW i from_ pc ∧ i < s.wus.length) ∧ DrainInv from_ target s) ∨ Flushed pc target s

theorem flushAll_flushed (s : State) (pc : Word) (target : GoMap Reg Word) (hr : s.ctx.Registers = target) (c : Int) (n : Nat) :
    Flushed pc target { flushAll s pc with cycles := c, mode := .normal, flushes := n } :=
  ⟨rfl, hr, by simp [flushAll, BufferedBus.clean, BufferedBus.inside], by simp [flushAll, BufferedBus.clean, BufferedBus.inside], rfl⟩

/-- the test at the head of every write unit's drain loop -/
theorem goFlush_drain (from_ pc : Word) (target : GoMap Reg Word) : ∀ (n i : Nat) (s : State), i + n = s.wus.length →
    DrainInv from_ target s → (s.writeBus.inside = [] ∨ 1 ≤ n) →
    (goFlush s from_ pc n i).2 = .running ∧ DrainPost from_ pc target (goFlush s from_ pc n i).1 := by
  intro n
  induction n with
  | zero =>
    intro i s _ h hw
    have hw' : s.writeBus.inside = [] := by rcases hw with hw | hw; exact hw; omega
    have hregs := h.regs
    rw [hw'] at hregs
    exact ⟨rfl, Or.inr (flushAll_flushed s pc target hregs _ _)⟩
  | succ n ih =>
    intro i s hlen h hw
    obtain ⟨wu, hget⟩ := Proofs.Mvp60Sl.get_lt s.wus i (by omega)
    simp only [goFlush, hget]
    split
    · exact ⟨rfl, Or.inl ⟨⟨i, rfl, by (show i < s.wus.length); omega⟩, ⟨h.wus, h.nomem, h.regs⟩⟩⟩
    · rename_i hc
      simp only [Bool.or_eq_true, Bool.not_eq_true', not_or, Bool.not_eq_false] at hc
      exact ih (i + 1) s (by omega) h (Or.inl (inside_nil_of_isEmpty _ hc.2))

/-- **entering the drain** at the end of a normal tick in which an execute unit has signalled a flush -/
theorem enter_drain (from_ pc : Word) (target : GoMap Reg Word) (s : State) (h : DrainInv from_ target s) (hk : 1 ≤ s.wus.length) :
    (goFlush { s with writeBus := s.writeBus.connect (s.cycles + 1) } from_ pc s.wus.length 0).2 = .running ∧
    DrainPost from_ pc target (goFlush { s with writeBus := s.writeBus.connect (s.cycles + 1) } from_ pc s.wus.length 0).1 :=
  goFlush_drain from_ pc target s.wus.length 0 _ (by simp) (h.connect _) (Or.inr hk)

/-- **one tick of the drain** -/
theorem drain_tick (app : App) (from_ pc : Word) (target : GoMap Reg Word) (s s' : State) (i : Nat) (ev : Event)
    (hm : s.mode = .flushW i from_ pc) (hi : i < s.wus.length) (h : DrainInv from_ target s)
    (hr : cycleM app s = .ok (s', ev)) : ev = .running ∧ DrainPost from_ pc target s' := by
  unfold cycleM at hr
  split at hr
  · rename_i hh; rw [hm] at hh; cases hh
  · rename_i hh; rw [hm] at hh; cases hh
  · rename_i hh; rw [hm] at hh; cases hh
  · rename_i i' f' p' hh
    rw [hm] at hh
    simp only [Mode.flushW.injEq] at hh
    obtain ⟨rfl, rfl, rfl⟩ := hh
    simp only [bind, Except.bind] at hr
    split at hr
    · cases hr
    · rename_i s1 h1
      have h0 : DrainInv from_ target { s with writeBus := s.writeBus.connect (s.cycles + 1), cycles := s.cycles + 1 } :=
        ⟨h.wus, by simp only [inside_connect]; exact h.nomem, by simp only [inside_connect]; exact h.regs⟩
      obtain ⟨d1, e1, _⟩ := wuCycle_drain from_ target
        { s with writeBus := s.writeBus.connect (s.cycles + 1), cycles := s.cycles + 1 } s1 i hi h0 h1
      simp only [pure, Except.pure, Except.ok.injEq] at hr
      have hev := congrArg Prod.snd hr
      have hs := congrArg Prod.fst hr
      simp only at hev hs
      have hlen : s1.wus.length = s.wus.length := by rw [e1]
      obtain ⟨n, hn⟩ : ∃ n, s1.wus.length - i = n + 1 := ⟨s1.wus.length - i - 1, by omega⟩
      have := goFlush_drain from_ pc target (s1.wus.length - i) i s1 (by omega) d1 (Or.inr (by omega))
      rw [← hev, ← hs]
      exact this

/-! ### a run in which a wrong-path result sits on the write bus during the drain

`addi t1, zero, 7; beq zero, zero, l1; addi t0, zero, 5; l1: addi t2, zero, 9` with two units: the `beq` and the `addi t0`
behind it are issued in one cycle and executed in one tick (units 0 and 1); after 314 ticks the machine is in the drain
(`flushW 0`, `from = 4`, `pc = 12`) with the branch's (empty) result and the wrong-path `t0 := 5` (sequence id 8) on the write bus. -/

def wpApp : Model.Seq.App :=
  { instrs := [.addi_ { rd := 6, rs := 0, imm := 7#32 }, .beq_ { rs1 := 0, rs2 := 0, label := "l1" },
               .addi_ { rd := 5, rs := 0, imm := 5#32 }, .addi_ { rd := 7, rs := 0, imm := 9#32 }],
    labels := GoMap.ofList [("l1", 12#32)] }

def wpCtx : Model.Context := { Memory := List.replicate 64 0#8 }

/-- the state after `n` ticks, as far as the drain is concerned: mode, idle write units, no stores on the write bus -/
def wpObsA (n : Nat) : Mode × Bool × Bool :=
  let s := (run wpApp wpCtx 2 2 n).final
  (s.mode, s.wus.all (fun wu => wu.co == .none), s.writeBus.inside.all (fun ec => ec.execution.MemoryChange == false))

/-- the write bus (sequence id, register change?, register = `t0`?, value), `t0` after the kept results, `t0` now -/
def wpObsB (n : Nat) : List (Word × Bool × Bool × Word) × Word × Word :=
  let s := (run wpApp wpCtx 2 2 n).final
  (s.writeBus.inside.map (fun ec => (ec.seq, ec.execution.RegisterChange, ec.execution.Register == 5, ec.execution.RegisterValue)),
   (applyW (s.writeBus.inside.filter (kept 4#32)) s.ctx.Registers).get1 5, s.ctx.Registers.get1 5)

theorem wp_314a : wpObsA 314 = (.flushW 0 4#32 12#32, true, true) := by
  simp only [wpObsA]
  rw [← Proofs.Mvp60Fast.runFast_eq_run]; decide +kernel

theorem wp_314b : wpObsB 314 = ([(4#32, false, false, 0#32), (8#32, true, true, 5#32)], 0#32, 0#32) := by
  simp only [wpObsB]
  rw [← Proofs.Mvp60Fast.runFast_eq_run]; decide +kernel

/-- the run ends (off the end) with `t0 = 0`, `t1 = 7`, `t2 = 9` -/
theorem wp_end : ((run wpApp wpCtx 2 2 2000).halt, (run wpApp wpCtx 2 2 2000).final.ctx.Registers.get1 5,
    (run wpApp wpCtx 2 2 2000).final.ctx.Registers.get1 6, (run wpApp wpCtx 2 2 2000).final.ctx.Registers.get1 7) =
    (some .offEnd, 0#32, 7#32, 9#32) := by
  rw [← Proofs.Mvp60Fast.runFast_eq_run]; decide +kernel

end Proofs.Mvp60Flush

/-
  Proofs/Mvp60SlLive.lean — package R60c (termination): the invariants that make the MVP-6.0 pipeline move: the scoreboards
  hold no entry without an instruction in flight (`BackL`), what waits in the buffer of a bus is due at the next `Connect`,
  and `Connect` then makes it readable.
-/
import MajoranaVerif.Proofs.Mvp60SlOk
open GoInt

set_option linter.unusedSimpArgs false
set_option linter.unusedVariables false

namespace Proofs.Mvp60Sl
open Model Model.Mvp60
open Model.Seq (App Halt Arch stepArch)

/-! ### the scoreboards from above -/

theorem get1_decRegs_le (l : List Reg) : ∀ (m : GoMap Reg Int) (r : Reg), r ≠ Gen.Reg.Zero →
    GoMap.get1 (decRegs m l) r ≤ max (GoMap.get1 m r - (l.count r : Int)) 0 := by
  induction l with
  | nil => intro m r _; simp only [decRegs, List.count_nil, Int.natCast_zero, Int.sub_zero]; omega
  | cons x xs ih =>
    intro m r hr0
    simp only [decRegs]
    by_cases hx : (x == Gen.Reg.Zero) = true
    · simp only [hx, if_true]
      have := ih m r hr0
      have hx' : x = Gen.Reg.Zero := eq_of_beq hx
      have hcnt : List.count r (x :: xs) = List.count r xs := List.count_cons_of_ne (by rw [hx']; exact fun h => hr0 h.symm)
      rw [hcnt]; exact this
    · simp only [hx, Bool.false_eq_true, if_false]
      by_cases hrx : r = x
      · subst hrx
        simp only [List.count_cons, beq_self_eq_true, if_true]
        split
        · rename_i hle
          have := ih (m.erase r) r hr0
          rw [Proofs.Mvp4.get1_erase] at this
          simp only [beq_self_eq_true, if_true] at this
          have hd : (default : Int) = 0 := rfl
          rw [hd] at this
          omega
        · rename_i hgt
          have := ih (m.set r (GoMap.get1 m r - 1)) r hr0
          rw [Proofs.Mvp4.get1_set] at this
          simp only [beq_self_eq_true, if_true] at this
          omega
      · have h1 : (r == x) = false := by simpa using hrx
        have hcnt : List.count r (x :: xs) = List.count r xs := List.count_cons_of_ne (fun h => hrx h.symm)
        rw [hcnt]
        by_cases hle : GoMap.get1 m x - 1 ≤ 0
        · simp only [hle, if_true]
          have := ih (m.erase x) r hr0
          rw [Proofs.Mvp4.get1_erase] at this
          simp only [h1, Bool.false_eq_true, if_false] at this
          exact this
        · simp only [hle, if_false]
          have := ih (m.set x (GoMap.get1 m x - 1)) r hr0
          rw [Proofs.Mvp4.get1_set] at this
          simp only [h1, Bool.false_eq_true, if_false] at this
          exact this

def cntWr (W : List ExecCtx) (r : Reg) : Nat := (W.map (fun ec => ec.readRegisters.count r)).sum
def cntXr (X : List Runner) (r : Reg) : Nat := (X.map (fun x => x.instr.readRegisters.count r)).sum

/-- **no phantom scoreboard entries**: an entry of a scoreboard belongs to a result on the write bus or to an issued runner -/
structure BackL (ctx : Model.Context) (W : List ExecCtx) (X : List Runner) : Prop where
  pw : ∀ r, r ≠ Gen.Reg.Zero → GoMap.get1 ctx.PendingWriteRegisters r ≤ ((cntW W r + cntX X r : Nat) : Int)
  pr : ∀ r, r ≠ Gen.Reg.Zero → GoMap.get1 ctx.PendingReadRegisters r ≤ ((cntWr W r + cntXr X r : Nat) : Int)

theorem BackL.nil (ctx : Model.Context) (h1 : ctx.PendingWriteRegisters = {}) (h2 : ctx.PendingReadRegisters = {}) :
    BackL ctx [] [] := by
  refine ⟨fun r _ => ?_, fun r _ => ?_⟩
  · rw [h1]; exact Int.le_refl _
  · rw [h2]; exact Int.le_refl _

theorem cntX_append (X : List Runner) (r : Runner) (reg : Reg) : cntX (X ++ [r]) reg = cntX X reg + r.instr.writeRegisters.count reg := by
  simp only [cntX, List.map_append, List.sum_append, List.map_cons, List.map_nil, List.sum_cons, List.sum_nil, Nat.add_zero]

theorem cntXr_append (X : List Runner) (r : Runner) (reg : Reg) : cntXr (X ++ [r]) reg = cntXr X reg + r.instr.readRegisters.count reg := by
  simp only [cntXr, List.map_append, List.sum_append, List.map_cons, List.map_nil, List.sum_cons, List.sum_nil, Nat.add_zero]

/-- issuing a runner -/
theorem BackL.issue {ctx : Model.Context} {W : List ExecCtx} {X : List Runner} (hb : BackL ctx W X) (r : Runner) :
    BackL (addPendingRegisters ctx r.instr) W (X ++ [r]) := by
  refine ⟨fun reg hne => ?_, fun reg hne => ?_⟩
  · have := hb.pw reg hne
    simp only [addPendingRegisters, get1_incRegs, hne, if_false, cntX_append]
    omega
  · have := hb.pr reg hne
    simp only [addPendingRegisters, get1_incRegs, hne, if_false, cntXr_append]
    omega

/-- executing the oldest issued runner: its scoreboard entries now belong to its result -/
theorem BackL.execute {ctx : Model.Context} {W : List ExecCtx} {x : Runner} {X : List Runner} (hb : BackL ctx W (x :: X))
    (e : Gen.Execution) : BackL ctx (W ++ [ecOf x e]) X := by
  refine ⟨fun reg hne => ?_, fun reg hne => ?_⟩
  · have := hb.pw reg hne
    simp only [cntW, cntX, List.map_append, List.sum_append, List.map_cons, List.map_nil, List.sum_cons, List.sum_nil, ecOf] at this ⊢
    omega
  · have := hb.pr reg hne
    simp only [cntWr, cntXr, List.map_append, List.sum_append, List.map_cons, List.map_nil, List.sum_cons, List.sum_nil, ecOf] at this ⊢
    omega

/-- a write unit takes the oldest result -/
theorem BackL.writeback {ctx : Model.Context} {ec : ExecCtx} {W : List ExecCtx} {X : List Runner} (hb : BackL ctx (ec :: W) X) :
    BackL (deletePendingRegisters (if ec.execution.RegisterChange then Model.Seq.writeRegister ctx ec.execution else ctx)
      ec.readRegisters ec.writeRegisters) W X := by
  have h3 : (deletePendingRegisters (if ec.execution.RegisterChange then Model.Seq.writeRegister ctx ec.execution else ctx)
      ec.readRegisters ec.writeRegisters).PendingWriteRegisters = decRegs ctx.PendingWriteRegisters ec.writeRegisters := by
    simp only [deletePendingRegisters]; split <;> rfl
  have h4 : (deletePendingRegisters (if ec.execution.RegisterChange then Model.Seq.writeRegister ctx ec.execution else ctx)
      ec.readRegisters ec.writeRegisters).PendingReadRegisters = decRegs ctx.PendingReadRegisters ec.readRegisters := by
    simp only [deletePendingRegisters]; split <;> rfl
  refine ⟨fun reg hne => ?_, fun reg hne => ?_⟩
  · have h1 := hb.pw reg hne
    have h2 := get1_decRegs_le ec.writeRegisters ctx.PendingWriteRegisters reg hne
    rw [h3]
    simp only [cntW, List.map_cons, List.sum_cons] at h1 ⊢
    omega
  · have h1 := hb.pr reg hne
    have h2 := get1_decRegs_le ec.readRegisters ctx.PendingReadRegisters reg hne
    rw [h4]
    simp only [cntWr, List.map_cons, List.sum_cons] at h1 ⊢
    omega

theorem pendingPos_of_le (m : GoMap Reg Int) (r : Reg) (h : GoMap.get1 m r ≤ 0) : pendingPos m r = false := by
  unfold pendingPos
  rw [Proofs.Mvp4.get1_of_find?] at h
  cases hf : m.find? r with
  | none => rfl
  | some v =>
    rw [hf] at h
    simp only [Option.getD_some] at h
    simp only [decide_eq_false_iff_not, Int.not_lt]
    exact h

/-- with nothing on the write bus and nothing issued, no instruction has a hazard -/
theorem BackL.no_hazard {ctx : Model.Context} (hb : BackL ctx [] []) (i : Gen.Instr) : isDataHazard3 ctx i = false := by
  have hw : ∀ r, r ≠ Gen.Reg.Zero → pendingPos ctx.PendingWriteRegisters r = false := fun r hne =>
    pendingPos_of_le _ _ (by have := hb.pw r hne; simpa [cntW, cntX] using this)
  have hr : ∀ r, r ≠ Gen.Reg.Zero → pendingPos ctx.PendingReadRegisters r = false := fun r hne =>
    pendingPos_of_le _ _ (by have := hb.pr r hne; simpa [cntWr, cntXr] using this)
  simp only [isDataHazard3, Bool.or_eq_false_iff, List.any_eq_false, Bool.and_eq_true, bne_iff_ne, ne_eq, not_and,
    Bool.not_eq_true]
  exact ⟨fun r _ hne => hw r hne, fun r _ hne => ⟨hw r hne, hr r hne⟩⟩

/-! ### what waits in a bus buffer is due at the next `Connect` -/

/-- every entry of the buffer is stamped at most `c` -/
def Due {α : Type} (b : BufferedBus α) (c : Int) : Prop := ∀ e ∈ b.buffer, e.1 ≤ c

theorem Due.add {α : Type} {b : BufferedBus α} {c : Int} (h : Due b (c + 1)) (t : α) : Due (b.add t c) (c + 1) := by
  intro e he
  simp only [BufferedBus.add, List.mem_append, List.mem_singleton] at he
  rcases he with he | he
  · exact h e he
  · subst he; exact Int.le_refl _

theorem Due.mono {α : Type} {b : BufferedBus α} {c c' : Int} (h : Due b c) (hc : c ≤ c') : Due b c' :=
  fun e he => Int.le_trans (h e he) hc

theorem connect_buffer_sub {α : Type} (b : BufferedBus α) (c : Int) : ∀ e ∈ (b.connect c).buffer, e ∈ b.buffer := by
  intro e he
  unfold BufferedBus.connect at he
  split at he
  · exact he
  · obtain ⟨m, h1, _, _⟩ := Proofs.Bus.connectLoop_spec b.queueLength c b.buffer b.queue
    rw [h1]; exact List.mem_append_right _ he

theorem Due.connect {α : Type} {b : BufferedBus α} {c' : Int} (h : Due b c') (c : Int) : Due (b.connect c) c' :=
  fun e he => h e (connect_buffer_sub b c e he)

theorem Due.clean {α : Type} (b : BufferedBus α) (c : Int) : Due b.clean c := by
  intro e he; simp [BufferedBus.clean] at he

/-- `Connect` makes the head of a bus readable when what waits in the buffer is due -/
theorem connect_nonempty {α : Type} (b : BufferedBus α) (c : Int) (hql : 1 ≤ b.queueLength) (hdue : Due b c)
    (h : b.inside ≠ []) : (b.connect c).queue ≠ [] := by
  unfold BufferedBus.connect
  split
  · rename_i hfull
    have : (b.queue.length : Int) = b.queueLength := by simpa using hfull
    intro hq; rw [hq] at this; simp only [List.length_nil, Int.natCast_zero] at this; omega
  · rename_i hnf
    cases hq : b.queue with
    | cons x q =>
      obtain ⟨m, _, h2, _⟩ := Proofs.Bus.connectLoop_spec b.queueLength c b.buffer (x :: q)
      simp only [h2]
      intro hc; cases hc
    | nil =>
      cases hb : b.buffer with
      | nil => simp only [BufferedBus.inside, hq, hb, List.map_nil, List.append_nil] at h; exact absurd rfl h
      | cons e rest =>
        have he := hdue e (by rw [hb]; exact List.mem_cons_self)
        simp only [BufferedBus.connectLoop, List.length_nil, Int.natCast_zero]
        have h1 : ¬ (((0 : Int) == b.queueLength) = true) := by
          simp only [beq_iff_eq]; omega
        have h2 : ¬ (e.1 > c) := by omega
        simp only [h1, h2, Bool.false_eq_true, if_false, List.nil_append]
        obtain ⟨m, _, h3, _⟩ := Proofs.Bus.connectLoop_spec b.queueLength c rest [e.2]
        rw [h3]
        intro hc; cases hc

/-- a fetch unit that has stopped has passed the end; one that waits for memory counts down from a non-negative number -/
def FuOk (fu : FetchUnit) : Prop := (fu.co = .done → fu.complete = true) ∧ (fu.co = .wait → 0 ≤ fu.remainingCycles)

/-- **what makes the pipeline move** (between two ticks and between the units of a tick): what waits in the buffers of the
execute, control and decode bus is due at the next `Connect`; the scoreboards hold no entry without an instruction in flight;
a decode unit that has seen a `ret` still has that `ret` in flight; a fetch unit that has stopped has passed the end -/
structure Live (s : State) : Prop where
  xdue : Due s.executeBus (s.cycles + 1)
  cdue : Due s.controlBus (s.cycles + 1)
  ddue : Due s.decodeBus (s.cycles + 1)
  cql : 1 ≤ s.controlBus.queueLength
  dql : 1 ≤ s.decodeBus.queueLength
  backL : BackL s.ctx s.writeBus.inside s.executeBus.inside
  retIn : s.du.ret = true → ∃ r ∈ runners s, (r.instr.instructionType == Gen.InstructionType.Ret) = true
  fuDone : FuOk s.fu
  xbl : s.executeBus.bufferLength = 2
  pcap : 1 ≤ s.cuPendings.length

/-! ### the units keep these facts -/

theorem fuEmit_live (app : App) (fu : FetchUnit) (bus : BufferedBus Word) (c : Int) (hd : Due bus (c + 1))
    (hf : FuOk fu) :
    Due (fuEmit app fu bus c).2 (c + 1) ∧ FuOk (fuEmit app fu bus c).1 ∧
    (fuEmit app fu bus c).2.queueLength = bus.queueLength := by
  unfold fuEmit
  refine ⟨hd.add _, ?_, rfl⟩
  simp only
  split
  · exact ⟨fun _ => rfl, fun hc => by cases hc⟩
  · exact hf

theorem coFetchLoop_live (app : App) (c : Int) :
    ∀ (n : Nat) (fu fu' : FetchUnit) (mmu mmu' : Model.Mmu.Mmu) (bus bus' : BufferedBus Word),
    Due bus (c + 1) → FuOk fu →
    coFetchLoop app c n fu mmu bus = .ok (fu', mmu', bus') →
    Due bus' (c + 1) ∧ FuOk fu' ∧ bus'.queueLength = bus.queueLength := by
  intro n
  induction n with
  | zero =>
    intro fu fu' mmu mmu' bus bus' hd hf hr
    simp only [coFetchLoop, pure, Except.pure, Except.ok.injEq, Prod.mk.injEq] at hr
    obtain ⟨rfl, rfl, rfl⟩ := hr
    exact ⟨hd, hf, rfl⟩
  | succ n ih =>
    intro fu fu' mmu mmu' bus bus' hd hf hr
    simp only [coFetchLoop] at hr
    split at hr
    · simp only [pure, Except.pure, Except.ok.injEq, Prod.mk.injEq] at hr
      obtain ⟨rfl, rfl, rfl⟩ := hr
      exact ⟨hd, hf, rfl⟩
    · simp only [bind, Except.bind] at hr
      split at hr
      · cases hr
      · rename_i v hv
        obtain ⟨hit, mmu1⟩ := v
        simp only at hr
        split at hr
        · simp only [pure, Except.pure, Except.ok.injEq, Prod.mk.injEq] at hr
          obtain ⟨rfl, rfl, rfl⟩ := hr
          exact ⟨hd, ⟨(fun hc => by cases hc), fun _ => by (show (0 : Int) ≤ Gen.Latency.MemoryAccess - 1); decide⟩, rfl⟩
        · obtain ⟨e1, e2, e3⟩ := fuEmit_live app fu bus c hd hf
          have := ih _ fu' mmu1 mmu' _ bus' e1 e2 hr
          exact ⟨this.1, this.2.1, this.2.2.trans e3⟩

theorem fetchCore_live (app : App) (c : Int) (fu fu' : FetchUnit) (mmu mmu' : Model.Mmu.Mmu) (bus bus' : BufferedBus Word)
    (hd : Due bus (c + 1)) (hf : FuOk fu)
    (hr : fetchCore app c fu mmu bus = .ok (fu', mmu', bus')) :
    Due bus' (c + 1) ∧ FuOk fu' ∧ bus'.queueLength = bus.queueLength := by
  have key : ∀ (fu : FetchUnit) (bus : BufferedBus Word), fu.toCleanPending = false → Due bus (c + 1) →
      FuOk fu → fetchCore app c fu mmu bus = .ok (fu', mmu', bus') →
      Due bus' (c + 1) ∧ FuOk fu' ∧ bus'.queueLength = bus.queueLength := by
    intro fu bus hcl hd hf hr
    obtain ⟨fpc, ftc, fcm, fco, frc⟩ := fu
    simp only at hcl
    subst hcl
    unfold fetchCore at hr
    simp only [Bool.false_eq_true, if_false] at hr
    cases hco : fco with
    | done =>
      simp only [hco, pure, Except.pure, Except.ok.injEq, Prod.mk.injEq] at hr
      obtain ⟨rfl, rfl, rfl⟩ := hr
      subst hco
      exact ⟨hd, hf, rfl⟩
    | wait =>
      simp only [hco] at hr
      split at hr
      · rename_i hne
        simp only [pure, Except.pure, Except.ok.injEq, Prod.mk.injEq] at hr
        obtain ⟨rfl, rfl, rfl⟩ := hr
        subst hco
        refine ⟨hd, ⟨(fun hc => by cases hc), fun _ => ?_⟩, rfl⟩
        have h0 : 0 ≤ frc := hf.2 rfl
        have h1 : frc ≠ 0 := by simpa using hne
        show 0 ≤ frc - 1
        omega
      · split at hr
        · cases hr
        · simp only [pure, Except.pure, Except.ok.injEq, Prod.mk.injEq] at hr
          obtain ⟨rfl, rfl, rfl⟩ := hr
          exact fuEmit_live app ⟨fpc, false, fcm, .none, frc⟩ bus c hd ⟨(fun hc => by cases hc), fun hc => by cases hc⟩
    | none =>
      simp only [hco] at hr
      split at hr
      · simp only [pure, Except.pure, Except.ok.injEq, Prod.mk.injEq] at hr
        obtain ⟨rfl, rfl, rfl⟩ := hr
        exact ⟨hd, ⟨(fun hc => by cases hc), fun hc => by cases hc⟩, rfl⟩
      · exact coFetchLoop_live app c _ _ fu' mmu mmu' bus bus' hd ⟨(fun hc => by cases hc), fun hc => by cases hc⟩ hr
  cases hc : fu.toCleanPending with
  | false => exact key fu bus hc hd hf hr
  | true =>
    rw [fetchCore_clean app c fu mmu bus hc] at hr
    exact key { fu with toCleanPending := false } bus.clean rfl (Due.clean bus _) hf hr

/-- the runner is a `ret` -/
def isRetB (r : Runner) : Bool := r.instr.instructionType == Gen.InstructionType.Ret

/-- the decode unit: the decode bus only loses readable entries, the control bus only gains entries due next cycle; when
the unit has seen a `ret`, the `ret` is on the control bus (or the unit had seen it before) -/
theorem decodeLoop_live (app : App) (ctx : Model.Context) (c : Int) :
    ∀ (n : Nat) (du du' : DecodeUnit) (inBus inBus' : BufferedBus Word) (outBus outBus' : BufferedBus Runner),
    decodeLoop app ctx c n du inBus outBus = .ok (du', inBus', outBus') →
    inBus'.buffer = inBus.buffer ∧ inBus'.queueLength = inBus.queueLength ∧ outBus'.queueLength = outBus.queueLength ∧
    (Due outBus (c + 1) → Due outBus' (c + 1)) ∧
    (du'.ret = true → du.ret = true ∨ ∃ r ∈ outBus'.inside, isRetB r = true) ∧
    (∀ r ∈ outBus.inside, r ∈ outBus'.inside) := by
  intro n
  induction n with
  | zero =>
    intro du du' inBus inBus' outBus outBus' hr
    simp only [decodeLoop, pure, Except.pure, Except.ok.injEq, Prod.mk.injEq] at hr
    obtain ⟨rfl, rfl, rfl⟩ := hr
    exact ⟨rfl, rfl, rfl, id, Or.inl, fun _ h => h⟩
  | succ n ih =>
    intro du du' inBus inBus' outBus outBus' hr
    simp only [decodeLoop] at hr
    cases hq : inBus.queue with
    | nil =>
      simp only [get_none _ hq, pure, Except.pure, Except.ok.injEq, Prod.mk.injEq] at hr
      obtain ⟨rfl, rfl, rfl⟩ := hr
      exact ⟨rfl, rfl, rfl, id, Or.inl, fun _ h => h⟩
    | cons p q =>
      simp only [get_some _ p q hq] at hr
      split at hr
      · simp only [pure, Except.pure, Except.ok.injEq, Prod.mk.injEq] at hr
        obtain ⟨rfl, rfl, rfl⟩ := hr
        exact ⟨rfl, rfl, rfl, id, Or.inl, fun _ h => h⟩
      · simp only [bind, Except.bind] at hr
        split at hr
        · cases hr
        · rename_i i hi
          split at hr
          · simp only [pure, Except.pure, Except.ok.injEq, Prod.mk.injEq] at hr
            obtain ⟨rfl, rfl, rfl⟩ := hr
            refine ⟨rfl, rfl, rfl, fun hd => hd.add _, ?_, fun r h => by rw [inside_add]; exact List.mem_append_left _ h⟩
            intro h; left
            exact h
          · split at hr
            · rename_i hret
              simp only [pure, Except.pure, Except.ok.injEq, Prod.mk.injEq] at hr
              obtain ⟨rfl, rfl, rfl⟩ := hr
              refine ⟨rfl, rfl, rfl, fun hd => hd.add _, ?_, fun r h => by rw [inside_add]; exact List.mem_append_left _ h⟩
              intro _; right
              exact ⟨⟨i, p, p + ctx.sequenceID * 1000#32⟩, by rw [inside_add]; exact List.mem_append_right _ List.mem_cons_self, hret⟩
            · obtain ⟨e1, e2, e3, e4, e5, e6⟩ := ih _ du' _ inBus' _ outBus' hr
              refine ⟨e1, e2, e3, fun hd => e4 (hd.add _), ?_, fun r h => e6 r (by rw [inside_add]; exact List.mem_append_left _ h)⟩
              intro h
              rcases e5 h with h1 | h1
              · exact Or.inl h1
              · exact Or.inr h1

theorem cuBusLoop_inBus (c : Int) : ∀ (n : Nat) (st : CuSt),
    (cuBusLoop c n st).inBus.buffer = st.inBus.buffer ∧ (cuBusLoop c n st).inBus.queueLength = st.inBus.queueLength := by
  intro n
  induction n with
  | zero => intro st; exact ⟨rfl, rfl⟩
  | succ n ih =>
    intro st
    simp only [cuBusLoop]
    split
    · exact ⟨rfl, rfl⟩
    · cases hq : st.inBus.queue with
      | nil => simp [get_none _ hq]
      | cons r q =>
        simp only [get_some _ r q hq]
        split
        · split <;> exact ⟨rfl, rfl⟩
        · refine ⟨(ih _).1.trans ?_, (ih _).2.trans ?_⟩ <;> (split <;> rfl)

theorem cuPendingLoop_inBus (c : Int) : ∀ (items : List (Nat × Runner)) (st : CuSt),
    (cuPendingLoop c items st).1.inBus = st.inBus := by
  intro items
  induction items with
  | nil => intro st; rfl
  | cons hd rest ih =>
    intro st
    obtain ⟨h, r⟩ := hd
    simp only [cuPendingLoop]
    split
    · split <;> rfl
    · split
      · rw [ih]
      · rw [ih]

theorem cuBusLoop_pcap (c : Int) : ∀ (n : Nat) (st : CuSt), (cuBusLoop c n st).pendings.length = st.pendings.length := by
  intro n
  induction n with
  | zero => intro st; rfl
  | succ n ih =>
    intro st
    simp only [cuBusLoop]
    split
    · rfl
    · cases hq : st.inBus.queue with
      | nil => simp [get_none _ hq]
      | cons r q =>
        simp only [get_some _ r q hq]
        split
        · split <;> rfl
        · refine (ih _).trans ?_; split <;> rfl

theorem cuPendingLoop_pcap (c : Int) : ∀ (items : List (Nat × Runner)) (st : CuSt),
    (cuPendingLoop c items st).1.pendings.length = st.pendings.length := by
  intro items
  induction items with
  | nil => intro st; rfl
  | cons hd rest ih =>
    intro st
    obtain ⟨h, r⟩ := hd
    simp only [cuPendingLoop]
    split
    · split <;> rfl
    · refine (ih _).trans ?_; split <;> rfl

theorem controlCycle_pcap (s : State) : (controlCycle s).cuPendings.length = s.cuPendings.length := by
  rw [controlCycle_eq]
  split
  · rfl
  · simp only [cuLoops]
    split
    · exact cuPendingLoop_pcap _ _ _
    · exact (cuBusLoop_pcap _ _ _).trans (cuPendingLoop_pcap _ _ _)

/-- the control unit only reads the control bus -/
theorem controlCycle_cbus (s : State) : (controlCycle s).controlBus.buffer = s.controlBus.buffer ∧
    (controlCycle s).controlBus.queueLength = s.controlBus.queueLength := by
  rw [controlCycle_eq]
  split
  · exact ⟨rfl, rfl⟩
  · simp only [cuLoops]
    split
    · rw [cuPendingLoop_inBus]; exact ⟨rfl, rfl⟩
    · refine ⟨(cuBusLoop_inBus _ _ _).1.trans ?_, (cuBusLoop_inBus _ _ _).2.trans ?_⟩ <;> rw [cuPendingLoop_inBus]

theorem issued_backL {c p : Int} {pushed : List Runner} {x y : Model.Context × BufferedBus Runner}
    (h : Issued c p pushed x y) : ∀ {W : List ExecCtx}, BackL x.1 W x.2.inside → BackL y.1 W y.2.inside := by
  induction h with
  | nil p x => intro W hb; exact hb
  | cons p r rs ctx bus y _ _ _ _ ih =>
    intro W hb
    apply ih
    simp only [inside_add]
    exact hb.issue r

/-- a `ret` always returns -/
theorem ret_run (labels : GoMap String Word) (i : Gen.Instr) (hr : (i.instructionType == Gen.InstructionType.Ret) = true)
    (c : Model.Context) (pc : Word) (mem : List Byte) (seq : Word) (e : Gen.Execution) (h : i.run c labels pc mem seq = .ok e) :
    e.Return = true := by
  cases i <;> unfold_instr at hr h <;>
    first
      | (simp at hr; done)
      | (simp only [pure, Except.pure] at h; injection h with h; subst h; rfl)

end Proofs.Mvp60Sl

/-
  Proofs/MsiSnapshot.lean — bridge between the inductive invariant `Inv` of the abstract MSI
  protocol model (`Proofs/Msi.lean`) and the decidable monitor predicate `MsiInv` over
  snapshots (`Model/Msi.lean`, part (a)): the snapshot of every state satisfying `Inv`,
  restricted to any duplicate-free list of lines, satisfies every clause of `MsiInv`.
  Core Lean only.
-/
import MajoranaVerif.Proofs.Msi

namespace Proofs.Msi
open Model.Msi

variable {D : Type}

/-! ## The fields of a snapshot of a model state -/

theorem St.code_eq_zero {s : St} : s.code = 0 ↔ s = .I := by cases s <;> simp [St.code]
theorem St.code_eq_one {s : St} : s.code = 1 ↔ s = .S := by cases s <;> simp [St.code]
theorem St.code_eq_two {s : St} : s.code = 2 ↔ s = .M := by cases s <;> simp [St.code]

theorem mem_states {σ : State D} {ls : List Line} {e : SState} :
    e ∈ (σ.snapshot ls).states ↔
      ∃ c, c < σ.n ∧ ∃ l, l ∈ ls ∧ e = ⟨c, Int.ofNat l, (σ.st c l).code⟩ := by
  simp only [State.snapshot, List.mem_flatMap, List.mem_map, List.mem_range]
  constructor
  · rintro ⟨c, hc, l, hl, rfl⟩; exact ⟨c, hc, l, hl, rfl⟩
  · rintro ⟨c, hc, l, hl, rfl⟩; exact ⟨c, hc, l, hl, rfl⟩

theorem cores_length (σ : State D) (ls : List Line) : (σ.snapshot ls).cores.length = σ.n := by
  simp [State.snapshot]

/-- the L1 lines of core `c` in the snapshot -/
def linesOf (σ : State D) (ls : List Line) (c : Core) : List (SLine D) :=
  ls.filterMap fun l => (σ.l1 c l).map fun d => ⟨Int.ofNat l, 1, 1, d⟩

theorem cores_get {σ : State D} {ls : List Line} {c : Nat} (hc : c < σ.n) :
    (σ.snapshot ls).cores[c]? = some { lines := linesOf σ ls c, fill := fillOf σ c } := by
  simp [State.snapshot, List.getElem?_map, List.getElem?_range hc, linesOf]

theorem mem_cores {σ : State D} {ls : List Line} {k : SCore D} (hk : k ∈ (σ.snapshot ls).cores) :
    ∃ c, c < σ.n ∧ k = { lines := linesOf σ ls c, fill := fillOf σ c } := by
  simp only [State.snapshot, List.mem_map, List.mem_range] at hk
  obtain ⟨c, hc, rfl⟩ := hk
  exact ⟨c, hc, rfl⟩

theorem coreLines_eq {σ : State D} {ls : List Line} {c : Nat} (hc : c < σ.n) :
    (σ.snapshot ls).coreLines c = linesOf σ ls c := by
  unfold Snapshot.coreLines; rw [cores_get hc]

theorem coreFill_eq {σ : State D} {ls : List Line} {c : Nat} (hc : c < σ.n) :
    (σ.snapshot ls).coreFill c = fillOf σ c := by
  unfold Snapshot.coreFill; rw [cores_get hc]

theorem mem_linesOf {σ : State D} {ls : List Line} {c : Core} {ln : SLine D} :
    ln ∈ linesOf σ ls c ↔ ∃ l, l ∈ ls ∧ ∃ d, σ.l1 c l = some d ∧ ln = ⟨Int.ofNat l, 1, 1, d⟩ := by
  unfold linesOf
  rw [List.mem_filterMap]
  constructor
  · rintro ⟨l, hl, hm⟩
    cases hd : σ.l1 c l with
    | none => rw [hd] at hm; cases hm
    | some d => rw [hd] at hm; cases hm; exact ⟨l, hl, d, hd, rfl⟩
  · rintro ⟨l, hl, d, hd, rfl⟩
    exact ⟨l, hl, by rw [hd]; rfl⟩

theorem ofNat_inj {a b : Nat} (h : Int.ofNat a = Int.ofNat b) : a = b := Int.ofNat.inj h

/-- the recorded state of an existing core on a listed line is the model's state -/
theorem stateOf_eq {σ : State D} {ls : List Line} {c : Nat} {l : Line} (hc : c < σ.n) (hl : l ∈ ls) :
    (σ.snapshot ls).stateOf c (Int.ofNat l) = (σ.st c l).code := by
  unfold Snapshot.stateOf
  cases hf : (σ.snapshot ls).states.find? (fun e => e.core == c && e.base == Int.ofNat l) with
  | none =>
    exfalso
    rw [List.find?_eq_none] at hf
    have := hf ⟨c, Int.ofNat l, (σ.st c l).code⟩ (mem_states.2 ⟨c, hc, l, hl, rfl⟩)
    simp at this
  | some e =>
    have hp := List.find?_some hf
    obtain ⟨c', _, l', _, rfl⟩ := mem_states.1 (List.mem_of_find?_eq_some hf)
    simp only [Bool.and_eq_true, beq_iff_eq] at hp
    obtain ⟨h1, h2⟩ := hp
    have h1 : c' = c := h1
    have h2 := ofNat_inj h2
    subst h1; subst h2; rfl

/-- looking a listed line up in a keyed list built from the list of lines -/
theorem find_key {β : Type} (f : Line → β) {l : Line} :
    ∀ {ls : List Line}, l ∈ ls →
      (ls.map fun l' => (Int.ofNat l', f l')).find? (fun p => p.1 == Int.ofNat l) = some (Int.ofNat l, f l)
  | [], h => by cases h
  | l0 :: rest, h => by
    by_cases h0 : l0 = l
    · subst h0; simp
    · have hne : (Int.ofNat l0 == Int.ofNat l) = false := by
        simp only [beq_eq_false_iff_ne, ne_eq]
        exact fun x => h0 (ofNat_inj x)
      have hin : l ∈ rest := by
        cases h with
        | head => exact absurd rfl h0
        | tail _ h' => exact h'
      simp only [List.map_cons, List.find?_cons, hne]
      exact find_key f hin

/-! ## One lemma per clause -/

theorem snapshot_singleWriter (σ : State D) (ls : List Line) (h : Inv σ) :
    (σ.snapshot ls).singleWriter = true := by
  unfold Snapshot.singleWriter
  rw [List.all_eq_true]
  intro e he
  obtain ⟨c, _, l, _, rfl⟩ := mem_states.1 he
  cases hs : σ.st c l with
  | I => simp [St.code]
  | S => simp [St.code]
  | M =>
    simp only [St.code, bne_self_eq_false, Bool.false_or]
    rw [List.all_eq_true]
    intro f hf
    obtain ⟨c', _, l', _, rfl⟩ := mem_states.1 hf
    by_cases hcl : l' = l ∧ c' ≠ c
    · obtain ⟨rfl, hne⟩ := hcl
      rw [h.single c c' l' hs hne]
      simp [St.code]
    · have : (Int.ofNat l' == Int.ofNat l && c' != c) = false := by
        cases hx : (Int.ofNat l' == Int.ofNat l && c' != c) with
        | false => rfl
        | true =>
          simp only [Bool.and_eq_true, beq_iff_eq, bne_iff_ne, ne_eq] at hx
          exact absurd ⟨ofNat_inj hx.1, hx.2⟩ hcl
      simp only [this]
      rfl

theorem snapshot_sharedEqualsNextLevel [DecidableEq D] (σ : State D) (ls : List Line) (h : Inv σ) :
    (σ.snapshot ls).sharedEqualsNextLevel = true := by
  unfold Snapshot.sharedEqualsNextLevel
  rw [List.all_eq_true]
  intro e he
  obtain ⟨c, hc, l, hl, rfl⟩ := mem_states.1 he
  cases hs : σ.st c l with
  | I => simp [St.code]
  | M => simp [St.code]
  | S =>
    simp only [St.code, bne_self_eq_false, Bool.false_or]
    rw [coreLines_eq hc, List.all_eq_true]
    intro ln hln
    obtain ⟨l', _, d, hd, rfl⟩ := mem_linesOf.1 hln
    by_cases hll : l' = l
    · subst hll
      have hnext : (σ.snapshot ls).next = ls.map fun l' => (Int.ofNat l', σ.mem l') := rfl
      rw [hnext, find_key σ.mem hl]
      rw [h.sharedData c l' hs] at hd
      cases hd
      simp
    · have : (Int.ofNat l' != Int.ofNat l) = true := by
        simp only [bne_iff_ne, ne_eq]
        exact fun x => hll (ofNat_inj x)
      simp only [this, Bool.true_or]

theorem snapshot_holdsIffNotInvalid (σ : State D) (ls : List Line) (h : Inv σ) :
    (σ.snapshot ls).holdsIffNotInvalid = true := by
  unfold Snapshot.holdsIffNotInvalid
  rw [Bool.and_eq_true]
  constructor
  · rw [List.all_eq_true]
    intro e he
    obtain ⟨c, hc, l, hl, rfl⟩ := mem_states.1 he
    cases hs : σ.st c l with
    | I => simp [St.code]
    | S | M =>
      all_goals
        have hne : σ.l1 c l ≠ none := h.holdsOfState c l (by rw [hs]; simp)
        cases hd : σ.l1 c l with
        | none => exact absurd hd hne
        | some d =>
          have hin : (⟨Int.ofNat l, 1, 1, d⟩ : SLine D) ∈ linesOf σ ls c := mem_linesOf.2 ⟨l, hl, d, hd, rfl⟩
          have : (σ.snapshot ls).holds c (Int.ofNat l) = true := by
            unfold Snapshot.holds
            rw [coreLines_eq hc, List.any_eq_true]
            exact ⟨_, hin, by simp⟩
          simp only [this, Bool.or_true]
  · rw [List.all_eq_true]
    intro c hc
    rw [List.mem_range, cores_length] at hc
    rw [coreLines_eq hc, List.all_eq_true]
    intro ln hln
    obtain ⟨l, hl, d, hd, rfl⟩ := mem_linesOf.1 hln
    show ((σ.snapshot ls).stateOf c (Int.ofNat l) != 0 || (σ.snapshot ls).inTransfer c (Int.ofNat l)) = true
    rw [stateOf_eq hc hl]
    cases hs : σ.st c l with
    | S => simp [St.code]
    | M => simp [St.code]
    | I =>
      obtain ⟨r, hr, hrl, _, _⟩ := h.stateOfHolds c l (by rw [hd]; simp) hs
      have : (σ.snapshot ls).inTransfer c (Int.ofNat l) = true := by
        unfold Snapshot.inTransfer
        rw [coreFill_eq hc]
        unfold fillOf
        rw [hr]
        simp [hrl]
      simp only [this, Bool.or_true]

/-- the lines of a core never overlap: size 1 and pairwise distinct bases -/
theorem go_linesOf (σ : State D) (c : Core) :
    ∀ {ls : List Line}, ls.Nodup → Snapshot.noDuplicateLines.go (linesOf σ ls c) = true
  | [], _ => by simp [linesOf, Snapshot.noDuplicateLines.go]
  | l :: rest, hnd => by
    have hnd' := List.nodup_cons.1 hnd
    have ih := go_linesOf σ c hnd'.2
    cases hd : σ.l1 c l with
    | none =>
      have : linesOf σ (l :: rest) c = linesOf σ rest c := by
        simp [linesOf, hd]
      rw [this]; exact ih
    | some d =>
      have : linesOf σ (l :: rest) c = ⟨Int.ofNat l, 1, 1, d⟩ :: linesOf σ rest c := by
        simp [linesOf, hd]
      rw [this]
      simp only [Snapshot.noDuplicateLines.go, Bool.and_eq_true]
      refine ⟨?_, ih⟩
      rw [List.all_eq_true]
      intro m hm
      obtain ⟨l', hl', d', _, rfl⟩ := mem_linesOf.1 hm
      have hne : @Ne Nat l l' := fun x => hnd'.1 (x ▸ hl')
      simp only [Int.ofNat_eq_natCast, Bool.or_eq_true, decide_eq_true_eq]
      omega

theorem snapshot_noDuplicateLines (σ : State D) (ls : List Line) (hls : ls.Nodup) :
    (σ.snapshot ls).noDuplicateLines = true := by
  unfold Snapshot.noDuplicateLines
  rw [List.all_eq_true]
  intro k hk
  obtain ⟨c, _, rfl⟩ := mem_cores hk
  exact go_linesOf σ c hls

theorem snapshot_aligned (σ : State D) (ls : List Line) : (σ.snapshot ls).aligned = true := by
  unfold Snapshot.aligned
  rw [List.all_eq_true]
  intro k hk
  obtain ⟨c, _, rfl⟩ := mem_cores hk
  rw [List.all_eq_true]
  intro ln hln
  obtain ⟨l, _, d, _, rfl⟩ := mem_linesOf.1 hln
  have : (σ.snapshot ls).lineSize = 1 := rfl
  simp [this, Int.emod_one]

theorem mem_sems {σ : State D} {ls : List Line} {m : SSem} (hm : m ∈ (σ.snapshot ls).sems) :
    ∃ l, m = ⟨Int.ofNat l, (σ.sem l).read, (σ.sem l).write⟩ := by
  simp only [State.snapshot, List.mem_map] at hm
  obtain ⟨l, _, rfl⟩ := hm
  exact ⟨l, rfl⟩

theorem snapshot_countersNonneg (σ : State D) (ls : List Line) (h : Inv σ) :
    (σ.snapshot ls).countersNonneg = true := by
  unfold Snapshot.countersNonneg
  rw [List.all_eq_true]
  intro m hm
  obtain ⟨l, rfl⟩ := mem_sems hm
  have h1 := h.semRead l
  have h2 := h.semWrite l
  simp only [Bool.and_eq_true, decide_eq_true_eq]
  omega

theorem snapshot_semSane (σ : State D) (ls : List Line) (h : Inv σ) :
    (σ.snapshot ls).semSane = true := by
  unfold Snapshot.semSane
  rw [List.all_eq_true]
  intro m hm
  obtain ⟨l, rfl⟩ := mem_sems hm
  obtain ⟨h1, h2⟩ := h.semExcl l
  simp only [Bool.and_eq_true, Bool.not_eq_true', Bool.and_eq_false_iff, decide_eq_true_eq, decide_eq_false_iff_not]
  refine ⟨?_, h1⟩
  by_cases hr : 0 < (σ.sem l).read
  · right; have := h2 hr; omega
  · left; exact hr

/-! ## The bridge -/

/-- the snapshot of a state satisfying the inductive invariant satisfies the monitor predicate -/
theorem msiInv_snapshot {D : Type} [DecidableEq D] (σ : State D) (ls : List Line) (h : Inv σ)
    (hls : ls.Nodup) : MsiInv (σ.snapshot ls) = true := by
  unfold MsiInv
  rw [snapshot_singleWriter σ ls h, snapshot_sharedEqualsNextLevel σ ls h,
    snapshot_holdsIffNotInvalid σ ls h, snapshot_noDuplicateLines σ ls hls, snapshot_aligned σ ls,
    snapshot_countersNonneg σ ls h, snapshot_semSane σ ls h]
  rfl

end Proofs.Msi

/-
  Proofs/Mvp63.lean — facts about the cycle-accurate model of MVP-6.3 (`Model.Mvp63` = `Model.Mvp61` with the
  configuration flags `v62`, `v63`, on a context in rename-table mode).  The frame lemmas of `Proofs.Mvp61` are about every
  state, whatever the flags say, so the lower bound of property C12 carries over.
-/
import MajoranaVerif.Model.Mvp63
import MajoranaVerif.Proofs.Mvp61
open GoInt

namespace Proofs.Mvp63
open Model.Mvp63
open Model.Seq (App Halt)

/-- the initial state: as many execute units as asked for, nothing executed, cycle 0 -/
theorem init_shape {ctx : Model.Context} {eu wu : Nat} {s : Model.Mvp61.State} (h : init ctx eu wu = .ok s) :
    s.eus.length = eu ∧ s.executed = 0 ∧ s.cycles = 0 ∧ s.v63 = true := by
  unfold init at h
  split at h
  · cases h
  · simp only [bind, Except.bind, pure, Except.pure] at h
    split at h
    · cases h
    · rename_i s0 h0
      simp only [Except.ok.injEq] at h
      subst h
      unfold Model.Mvp61.init at h0
      split at h0
      · cases h0
      · simp only [bind, Except.bind, pure, Except.pure] at h0
        split at h0
        · cases h0
        · simp only [Except.ok.injEq] at h0
          subst h0
          exact ⟨List.length_replicate .., rfl, rfl, rfl⟩

/-- **lower bound (C12) for MVP-6.3.**  At most `eu` instructions are executed per tick, and the cycle counter is at
least `executed / eu` — for every run (halted, out of fuel, Go panic, `maporder`). -/
theorem run_executed_le (app : App) (ctx : Model.Context) (eu wu fuel : Nat) :
    (run app ctx eu wu fuel).final.executed ≤ eu * (run app ctx eu wu fuel).ticks ∧
    ((run app ctx eu wu fuel).final.executed : Int) ≤ eu * (run app ctx eu wu fuel).final.cycles := by
  unfold run
  split
  · rename_i s hs
    obtain ⟨h1, h2, h3, _⟩ := init_shape hs
    have h := Proofs.Mvp61.runFrom_bound app fuel s 0
    rw [h1, h2, h3] at h
    simp only [Nat.mul_zero, Nat.add_zero, Nat.zero_add, Int.natCast_zero, Int.mul_zero, Int.le_refl, true_implies] at h
    exact ⟨h.2.2.1, h.2.2.2⟩
  · exact ⟨Nat.zero_le _, by simp only [Int.natCast_zero, Int.mul_zero, Int.le_refl]⟩

end Proofs.Mvp63

/-
  Proofs/TxnRead.lean — the read precedence of the REGENERATED `Gen.registerRead`
  (risc/opcodes.go, tie T1), unfolded once for each mode, so that the C15 theorems
  about reads are re-proved against whatever the code says now:
  forward > (rat ? transactionRAT (Read when tag = 0, Find `sequenceID ≤ tag` otherwise)
  then committedRAT : Transaction map then Registers).
-/
import MajoranaVerif.Proofs.Txn
import MajoranaVerif.Gen.Opcodes
open GoInt
namespace Proofs.TxnRead
open Model Model.Txn

/-- a forwarded value wins over everything -/
theorem read_forward (ctx : Context) (fwd : Gen.Forward) (r : Reg) (t : Word) (h : fwd.Register = r) :
    Gen.registerRead ctx fwd r t = fwd.Value := by
  simp [Gen.registerRead, h]

/-- map mode: the transaction map first (whatever the reader's tag), then the register file -/
theorem read_map (ctx : Context) (fwd : Gen.Forward) (r : Reg) (t : Word) (hf : fwd.Register ≠ r)
    (hm : ctx.rat = false) :
    Gen.registerRead ctx fwd r t =
      match ctx.Transaction.find? r with
      | some tu => tu.value
      | none => ctx.Registers.get1 r := by
  have hf' : (r == fwd.Register) = false := by simp; exact fun e => hf e.symm
  cases h : ctx.Transaction.find? r <;> simp [Gen.registerRead, hf', hm, GoMap.get, h]

/-- rename-table mode, plain read (tag 0): newest slot of the transaction table, else the
committed table -/
theorem read_rat_plain (ctx : Context) (fwd : Gen.Forward) (r : Reg) (hf : fwd.Register ≠ r)
    (hm : ctx.rat = true) :
    Gen.registerRead ctx fwd r 0 =
      if (ctx.transactionRAT.read r).2 then (ctx.transactionRAT.read r).1.value
      else (ctx.committedRAT.read r).1 := by
  have hf' : (r == fwd.Register) = false := by simp; exact fun e => hf e.symm
  simp only [Gen.registerRead, hf', hm]
  rcases ctx.transactionRAT.read r with ⟨v, b⟩
  cases b <;> simp

/-- rename-table mode, tagged read: newest slot of the transaction table whose tag is not
younger than the reader, else the committed table -/
theorem read_rat_tag (ctx : Context) (fwd : Gen.Forward) (r : Reg) (t : Word) (hf : fwd.Register ≠ r)
    (hm : ctx.rat = true) (ht : t ≠ 0) :
    Gen.registerRead ctx fwd r t =
      if (ctx.transactionRAT.find r (fun u => u.sequenceID.sle t)).2
      then (ctx.transactionRAT.find r (fun u => u.sequenceID.sle t)).1.value
      else (ctx.committedRAT.read r).1 := by
  have hf' : (r == fwd.Register) = false := by simp; exact fun e => hf e.symm
  have ht' : (t == 0#32) = false := by simp; exact ht
  simp only [Gen.registerRead, hf', hm, ht']
  rcases ctx.transactionRAT.find r (fun u => u.sequenceID.sle t) with ⟨v, b⟩
  cases b <;> simp

end Proofs.TxnRead

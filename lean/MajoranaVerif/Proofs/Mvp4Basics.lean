/-
  Proofs/Mvp4Basics.lean — small facts used by the pipeline argument of MVP-4:
  Go maps (`GoMap`) under `set`/`erase`, the two-slot bus, runs of consecutive pcs, the
  register scoreboard (`PendingWriteRegisters`), the store scoreboard
  (`pendingWriteMemoryIntention`), and the effect of a queue of results on registers/memory.
-/
import MajoranaVerif.Model.Mvp4
import MajoranaVerif.Proofs.Mmu
open GoInt Model Model.Mvp4

set_option linter.unusedSimpArgs false
set_option linter.unusedVariables false
set_option linter.unusedSectionVars false

namespace Proofs.Mvp4

/-! ### Go maps -/

section GoMapLemmas
variable {κ ν : Type} [BEq κ] [LawfulBEq κ]

theorem lookup_cons_eq (k a : κ) (b : ν) (l : List (κ × ν)) :
    List.lookup k ((a, b) :: l) = if k == a then some b else l.lookup k := by
  cases h : (k == a) <;> simp [List.lookup, h]

theorem lookup_setList (k : κ) (v : ν) : ∀ (l : List (κ × ν)) (k' : κ),
    (GoMap.setList k v l).lookup k' = if k' == k then some v else l.lookup k'
  | [], k' => by simp only [GoMap.setList, lookup_cons_eq, List.lookup]
  | (a, b) :: rest, k' => by
    unfold GoMap.setList
    by_cases ha : (a == k) = true
    · have hak : a = k := eq_of_beq ha
      subst hak
      simp only [beq_self_eq_true, if_true, lookup_cons_eq]
      split <;> rfl
    · have ha' : (a == k) = false := by simpa using ha
      simp only [ha', Bool.false_eq_true, if_false, lookup_cons_eq]
      by_cases h1 : (k' == a) = true
      · have : k' = a := eq_of_beq h1
        subst this
        simp [ha']
      · have h1' : (k' == a) = false := by simpa using h1
        simp only [h1', Bool.false_eq_true, if_false]
        exact lookup_setList k v rest k'

theorem lookup_filter_ne (k : κ) : ∀ (l : List (κ × ν)) (k' : κ),
    (l.filter (fun p => !(p.1 == k))).lookup k' = if k' == k then none else l.lookup k'
  | [], k' => by simp [List.lookup]
  | (a, b) :: rest, k' => by
    by_cases ha : (a == k) = true
    · have hak : a = k := eq_of_beq ha
      subst hak
      simp only [List.filter, beq_self_eq_true, Bool.not_true, lookup_cons_eq]
      rw [lookup_filter_ne a rest k']
      split <;> rfl
    · have ha' : (a == k) = false := by simpa using ha
      simp only [List.filter, ha', Bool.not_false, lookup_cons_eq]
      rw [lookup_filter_ne k rest k']
      by_cases h1 : (k' == a) = true
      · have : k' = a := eq_of_beq h1
        subst this
        simp [ha']
      · have h1' : (k' == a) = false := by simpa using h1
        simp [h1']

theorem find?_set (m : GoMap κ ν) (k k' : κ) (v : ν) :
    (m.set k v).find? k' = if k' == k then some v else m.find? k' := lookup_setList k v m.entries k'

theorem find?_erase (m : GoMap κ ν) (k k' : κ) :
    (m.erase k).find? k' = if k' == k then none else m.find? k' := lookup_filter_ne k m.entries k'

theorem get1_set [Inhabited ν] (m : GoMap κ ν) (k k' : κ) (v : ν) :
    GoMap.get1 (m.set k v) k' = if k' == k then v else GoMap.get1 m k' := by
  unfold GoMap.get1 GoMap.get
  rw [find?_set]
  by_cases h : (k' == k) = true <;> simp [h]

theorem get1_erase [Inhabited ν] (m : GoMap κ ν) (k k' : κ) :
    GoMap.get1 (m.erase k) k' = if k' == k then default else GoMap.get1 m k' := by
  unfold GoMap.get1 GoMap.get
  rw [find?_erase]
  by_cases h : (k' == k) = true <;> simp [h]

theorem get1_of_find? [Inhabited ν] (m : GoMap κ ν) (k : κ) :
    GoMap.get1 m k = (m.find? k).getD default := by
  unfold GoMap.get1 GoMap.get
  cases m.find? k <;> rfl

end GoMapLemmas

theorem get1_empty (r : Reg) : GoMap.get1 ({} : GoMap Reg Int) r = 0 := rfl

/-! ### the two-slot bus -/

section Bus
variable {α : Type}

theorem bus_get_inside (b : SimpleBus α) : b.inside = b.get.1.toList ++ b.get.2.inside := by
  unfold SimpleBus.inside SimpleBus.get
  simp

theorem bus_add_inside (b : SimpleBus α) (x : α) (h : b.canAdd = true) : (b.add x).inside = b.inside ++ [x] := by
  unfold SimpleBus.canAdd at h
  unfold SimpleBus.inside SimpleBus.add
  cases hp : b.pending with
  | none => simp
  | some y => simp [hp] at h

theorem bus_get_canAdd (b : SimpleBus α) : b.get.2.canAdd = true := rfl

theorem bus_get_pending (b : SimpleBus α) : b.get.2.pending = none := rfl

theorem bus_flush_inside (b : SimpleBus α) : b.flush.inside = [] := rfl

theorem bus_isEmpty_iff (b : SimpleBus α) : b.isEmpty = true ↔ b.inside = [] := by
  unfold SimpleBus.isEmpty SimpleBus.inside
  cases b.pending <;> cases b.current <;> simp

theorem bus_inside_of_get_none (b : SimpleBus α) (h : b.get.1 = none) : b.get.2.inside = b.inside := by
  rw [bus_get_inside b, h]; rfl

theorem bus_inside_of_get_some (b : SimpleBus α) (x : α) (h : b.get.1 = some x) : b.inside = x :: b.get.2.inside := by
  rw [bus_get_inside b, h]; rfl

end Bus

/-! ### runs of consecutive pcs -/

/-- `l = [x, x+4, x+8, …]` -/
def Consec : Word → List Word → Prop
  | _, [] => True
  | x, y :: l => y = x ∧ Consec (x + 4#32) l

theorem Consec.append_last : ∀ (x : Word) (l : List Word) (y : Word),
    Consec x (l ++ [y]) → Consec x (l ++ [y, y + 4#32])
  | x, [], y, h => by
    simp only [List.nil_append, Consec] at h ⊢
    obtain ⟨h1, _⟩ := h
    subst h1
    exact ⟨rfl, rfl, trivial⟩
  | x, z :: l, y, h => by
    simp only [List.cons_append, Consec] at h ⊢
    exact ⟨h.1, Consec.append_last _ l y h.2⟩

theorem Consec.append_congr : ∀ (x : Word) (l t t' : List Word),
    Consec x (l ++ t) → (∀ y, Consec y t → Consec y t') → Consec x (l ++ t')
  | x, [], t, t', h, hc => hc x h
  | x, z :: l, t, t', h, hc => by
    simp only [List.cons_append, Consec] at h ⊢
    exact ⟨h.1, Consec.append_congr _ l t t' h.2 hc⟩

theorem Consec.tail {x y : Word} {l : List Word} (h : Consec x (y :: l)) : Consec (x + 4#32) l := h.2
theorem Consec.head {x y : Word} {l : List Word} (h : Consec x (y :: l)) : y = x := h.1

/-! ### the register scoreboard -/

theorem get1_addPending (ws : List Reg) : ∀ (m : GoMap Reg Int) (r : Reg),
    GoMap.get1 (addPendingWriteRegisters m ws) r = GoMap.get1 m r + (ws.count r : Nat) := by
  induction ws with
  | nil => intro m r; simp [addPendingWriteRegisters]
  | cons x xs ih =>
    intro m r
    simp only [addPendingWriteRegisters]
    rw [ih, get1_set]
    by_cases h : r = x
    · subst h; simp [List.count_cons]; omega
    · have : (r == x) = false := by simpa using h
      have h' : (x == r) = false := by simpa using (Ne.symm h)
      simp [this, List.count_cons, h']

theorem get1_deletePending_ge (ws : List Reg) : ∀ (m : GoMap Reg Int) (r : Reg),
    GoMap.get1 m r - (ws.count r : Nat) ≤ GoMap.get1 (deletePendingWriteRegisters m ws) r := by
  induction ws with
  | nil => intro m r; simp [deletePendingWriteRegisters]
  | cons x xs ih =>
    intro m r
    simp only [deletePendingWriteRegisters]
    refine Int.le_trans ?_ (ih _ r)
    by_cases h : r = x
    · subst h
      have hc : (List.count r (r :: xs) : Nat) = List.count r xs + 1 := by simp [List.count_cons]
      rw [hc]
      by_cases hv : GoMap.get1 m r - 1 ≤ 0
      · rw [if_pos hv, get1_erase]
        simp only [beq_self_eq_true, if_true]
        show _ ≤ (0 : Int) - _
        omega
      · rw [if_neg hv, get1_set]
        simp only [beq_self_eq_true, if_true]
        omega
    · have h1 : (r == x) = false := by simpa using h
      have hc : (List.count r (x :: xs) : Nat) = List.count r xs := by
        simp [List.count_cons, Ne.symm h]
      rw [hc]
      by_cases hv : GoMap.get1 m x - 1 ≤ 0
      · rw [if_pos hv, get1_erase]; simp [h1]
      · rw [if_neg hv, get1_set]; simp [h1]

/-- the hazard test is false: no register read (other than `x0`) has a positive counter -/
theorem hazard_false {m : GoMap Reg Int} {rs : List Reg} (h : isWriteDataHazard m rs = false) :
    ∀ r ∈ rs, r ≠ 0 → GoMap.get1 m r ≤ 0 := by
  intro r hr h0
  unfold isWriteDataHazard at h
  have := List.any_eq_false.mp h r hr
  have hz : (r != Gen.Reg.Zero) = true := by simpa [Gen.Reg.Zero] using h0
  simp only [hz, Bool.true_and] at this
  rw [get1_of_find?]
  cases hf : m.find? r with
  | none => simp
  | some v =>
    rw [hf] at this
    simp only [Bool.not_eq_true, decide_eq_false_iff_not] at this
    simp only [Option.getD_some]
    omega

/-! ### the store scoreboard -/

theorem addPwmi_mem_old {p : List (Int × Int)} {line id : Int} {x : Int × Int} (h : x ∈ p) : x ∈ addPwmi p line id := by
  unfold addPwmi; split
  · exact h
  · exact List.mem_append_left _ h

theorem addPwmi_mem_new (p : List (Int × Int)) (line id : Int) : (line, id) ∈ addPwmi p line id := by
  unfold addPwmi; split
  · rename_i h; simpa using h
  · simp

theorem addPwmiAll_mem_old (id : Int) : ∀ (chs : List (Word × Byte)) (p : List (Int × Int)) (x : Int × Int),
    x ∈ p → x ∈ addPwmiAll p id chs
  | [], p, x, h => h
  | (a, b) :: rest, p, x, h => by
    simp only [addPwmiAll]
    exact addPwmiAll_mem_old id rest _ x (addPwmi_mem_old h)

theorem addPwmiAll_mem_new (id : Int) : ∀ (chs : List (Word × Byte)) (p : List (Int × Int)) (c : Word × Byte),
    c ∈ chs → (lineOf c.1, id) ∈ addPwmiAll p id chs
  | [], p, c, h => by cases h
  | (a, b) :: rest, p, c, h => by
    simp only [addPwmiAll]
    rcases List.mem_cons.mp h with rfl | h'
    · exact addPwmiAll_mem_old id rest _ _ (addPwmi_mem_new p _ id)
    · exact addPwmiAll_mem_new id rest _ c h'

theorem pending_false {p : List (Int × Int)} {line : Int} (h : pendingWriteMemoryIntention p line = false) :
    ∀ id, (line, id) ∉ p := by
  intro id hm
  unfold pendingWriteMemoryIntention at h
  have := List.any_eq_false.mp h (line, id) hm
  simp at this

theorem deletePwmi_keeps {p p' : List (Int × Int)} {line id : Int} (h : deletePwmi p line id = .ok p')
    (x : Int × Int) (hx : x ∈ p) (hne : x.2 ≠ id) : x ∈ p' := by
  unfold deletePwmi at h
  split at h
  · injection h with h; subst h
    exact (List.mem_erase_of_ne (by intro he; exact hne (by rw [he]))).mpr hx
  · cases h

theorem releaseAll_keeps (id : Int) : ∀ (chs : List (Word × Byte)) (p : List (Int × Int)) (rel : List Int) (p' : List (Int × Int)),
    releaseAll p id chs rel = .ok p' → ∀ x ∈ p, x.2 ≠ id → x ∈ p'
  | [], p, rel, p', h, x, hx, _ => by
    simp only [releaseAll, pure, Except.pure] at h
    injection h with h; subst h; exact hx
  | (a, b) :: rest, p, rel, p', h, x, hx, hne => by
    simp only [releaseAll] at h
    split at h
    · exact releaseAll_keeps id rest p rel p' h x hx hne
    · cases hd : deletePwmi p (lineOf a) id with
      | error f => simp [hd, bind, Except.bind] at h
      | ok p1 =>
        simp only [hd, bind, Except.bind] at h
        exact releaseAll_keeps id rest p1 _ p' h x (deletePwmi_keeps hd x hx hne) hne

/-! ### a queue of results applied to registers and memory -/

/-- a queued result that is a store (the write unit tests `RegisterChange` first) -/
def isStore (ec : ExecCtx) : Bool := !ec.execution.RegisterChange && ec.execution.MemoryChange

/-- the register file after the write unit has handled the queue `q` (oldest first) -/
def applyRegs (regs : GoMap Reg Word) (q : List ExecCtx) : GoMap Reg Word :=
  q.foldl (fun g ec => if ec.execution.RegisterChange then g.set ec.execution.Register ec.execution.RegisterValue else g) regs

/-- the memory after the write unit has handled the queue `q` -/
def applyMemQ (m : List Byte) (q : List ExecCtx) : List Byte :=
  q.foldl (fun m ec => if isStore ec then Proofs.Mmu.applyChanges m ec.execution.MemoryChanges else m) m

theorem applyRegs_cons (regs : GoMap Reg Word) (ec : ExecCtx) (q : List ExecCtx) :
    applyRegs regs (ec :: q) =
      applyRegs (if ec.execution.RegisterChange then regs.set ec.execution.Register ec.execution.RegisterValue else regs) q := rfl

theorem applyRegs_append (regs : GoMap Reg Word) (q : List ExecCtx) (ec : ExecCtx) :
    applyRegs regs (q ++ [ec]) =
      (if ec.execution.RegisterChange then (applyRegs regs q).set ec.execution.Register ec.execution.RegisterValue
       else applyRegs regs q) := by
  simp [applyRegs, List.foldl_append]

theorem applyMemQ_cons (m : List Byte) (ec : ExecCtx) (q : List ExecCtx) :
    applyMemQ m (ec :: q) = applyMemQ (if isStore ec then Proofs.Mmu.applyChanges m ec.execution.MemoryChanges else m) q := rfl

theorem applyMemQ_append (m : List Byte) (q : List ExecCtx) (ec : ExecCtx) :
    applyMemQ m (q ++ [ec]) =
      (if isStore ec then Proofs.Mmu.applyChanges (applyMemQ m q) ec.execution.MemoryChanges else applyMemQ m q) := by
  simp [applyMemQ, List.foldl_append]

theorem applyMemQ_length (q : List ExecCtx) : ∀ m : List Byte, (applyMemQ m q).length = m.length := by
  induction q with
  | nil => intro m; rfl
  | cons ec q ih =>
    intro m
    rw [applyMemQ_cons, ih]
    split
    · exact Proofs.Mmu.applyChanges_length _ _
    · rfl

/-- a register no queued result writes keeps its value -/
theorem get1_applyRegs_of_no_writer (r : Reg) : ∀ (q : List ExecCtx) (regs : GoMap Reg Word),
    (∀ ec ∈ q, ec.execution.RegisterChange = true → ec.execution.Register ≠ r) →
    GoMap.get1 (applyRegs regs q) r = GoMap.get1 regs r := by
  intro q
  induction q with
  | nil => intro regs _; rfl
  | cons ec q ih =>
    intro regs h
    rw [applyRegs_cons, ih _ (fun e he => h e (List.mem_cons_of_mem _ he))]
    split
    · rename_i hrc
      rw [get1_set]
      have : (r == ec.execution.Register) = false := by
        have := h ec (by simp) hrc
        simpa using (Ne.symm this)
      simp [this]
    · rfl

/-! ### byte changes -/

open Proofs.Mmu (applyChanges)

theorem applyChanges_cons (m : List Byte) (p : Word × Byte) (ps : List (Word × Byte)) :
    applyChanges m (p :: ps) = applyChanges (m.set p.1.toInt.toNat p.2) ps := rfl

theorem getElem?_applyChanges_other (x : Nat) : ∀ (chs : List (Word × Byte)) (m : List Byte),
    (∀ p ∈ chs, p.1.toInt.toNat ≠ x) → (applyChanges m chs)[x]? = m[x]? := by
  intro chs
  induction chs with
  | nil => intro m _; rfl
  | cons p ps ih =>
    intro m h
    rw [applyChanges_cons, ih _ (fun q hq => h q (List.mem_cons_of_mem _ hq))]
    exact List.getElem?_set_ne (h p (by simp))

theorem set_applyChanges_comm (i : Nat) (b : Byte) : ∀ (chs : List (Word × Byte)) (m : List Byte),
    (∀ p ∈ chs, p.1.toInt.toNat ≠ i) → (applyChanges m chs).set i b = applyChanges (m.set i b) chs := by
  intro chs
  induction chs with
  | nil => intro m _; rfl
  | cons p ps ih =>
    intro m h
    rw [applyChanges_cons, applyChanges_cons, ih _ (fun q hq => h q (List.mem_cons_of_mem _ hq))]
    rw [List.set_comm _ _ (h p (by simp))]

theorem applyChanges_comm : ∀ (c1 c2 : List (Word × Byte)) (m : List Byte),
    (∀ p ∈ c1, ∀ q ∈ c2, p.1.toInt.toNat ≠ q.1.toInt.toNat) →
    applyChanges (applyChanges m c1) c2 = applyChanges (applyChanges m c2) c1 := by
  intro c1
  induction c1 with
  | nil => intro c2 m _; rfl
  | cons p ps ih =>
    intro c2 m h
    rw [applyChanges_cons, applyChanges_cons]
    rw [ih c2 _ (fun a ha b hb => h a (List.mem_cons_of_mem _ ha) b hb)]
    rw [set_applyChanges_comm _ _ c2 m (fun q hq => (h p (by simp) q hq).symm)]


/-! ### more on the scoreboards (liveness) -/

theorem get1_deletePending_le (ws : List Reg) : ∀ (m : GoMap Reg Int) (r : Reg), (ws.count r : Int) ≤ GoMap.get1 m r →
    (∀ r', 0 ≤ GoMap.get1 m r') →
    GoMap.get1 (deletePendingWriteRegisters m ws) r ≤ GoMap.get1 m r - (ws.count r : Nat) ∧
    (∀ r', 0 ≤ GoMap.get1 (deletePendingWriteRegisters m ws) r') := by
  induction ws with
  | nil => intro m r _ h0; simp [deletePendingWriteRegisters]; exact h0
  | cons x xs ih =>
    intro m r hc h0
    simp only [deletePendingWriteRegisters]
    -- the map after handling x
    have hm' : ∀ r', GoMap.get1 (if GoMap.get1 m x - 1 ≤ 0 then m.erase x else m.set x (GoMap.get1 m x - 1)) r' =
        if r' = x then (if GoMap.get1 m x - 1 ≤ 0 then 0 else GoMap.get1 m x - 1) else GoMap.get1 m r' := by
      intro r'
      by_cases hv : GoMap.get1 m x - 1 ≤ 0
      · rw [if_pos hv, get1_erase]
        by_cases h : r' = x
        · subst h; simp [hv]
        · have : (r' == x) = false := by simpa using h
          simp [this, h]
      · rw [if_neg hv, get1_set]
        by_cases h : r' = x
        · subst h; simp [hv]
        · have : (r' == x) = false := by simpa using h
          simp [this, h]
    have h0' : ∀ r', 0 ≤ GoMap.get1 (if GoMap.get1 m x - 1 ≤ 0 then m.erase x else m.set x (GoMap.get1 m x - 1)) r' := by
      intro r'
      rw [hm']
      by_cases h : r' = x
      · simp only [h, if_true]; split <;> omega
      · simp only [h, if_false]; exact h0 r'
    by_cases h : r = x
    · subst h
      have hc' : (List.count r (r :: xs) : Nat) = List.count r xs + 1 := by simp [List.count_cons]
      rw [hc'] at hc ⊢
      have hcx : (xs.count r : Int) ≤ GoMap.get1 (if GoMap.get1 m r - 1 ≤ 0 then m.erase r else m.set r (GoMap.get1 m r - 1)) r := by
        rw [hm']; simp only [if_true]; split <;> omega
      obtain ⟨i1, i2⟩ := ih _ r hcx h0'
      refine ⟨?_, i2⟩
      refine Int.le_trans i1 ?_
      rw [hm']; simp only [if_true]
      split <;> omega
    · have hc' : (List.count r (x :: xs) : Nat) = List.count r xs := by simp [List.count_cons, Ne.symm h]
      rw [hc'] at hc ⊢
      have hcx : (xs.count r : Int) ≤ GoMap.get1 (if GoMap.get1 m x - 1 ≤ 0 then m.erase x else m.set x (GoMap.get1 m x - 1)) r := by
        rw [hm']; simp only [h, if_false]; exact hc
      obtain ⟨i1, i2⟩ := ih _ r hcx h0'
      refine ⟨?_, i2⟩
      refine Int.le_trans i1 ?_
      rw [hm']; simp only [h, if_false]; omega


theorem releaseAll_skip (id : Int) : ∀ (chs : List (Word × Byte)) (p : List (Int × Int)) (rel : List Int),
    (∀ c ∈ chs, rel.contains (lineOf c.1) = true) → releaseAll p id chs rel = .ok p
  | [], p, rel, _ => rfl
  | (a, b) :: rest, p, rel, h => by
    simp only [releaseAll]
    have := h (a, b) (by simp)
    simp only at this
    rw [if_pos this]
    exact releaseAll_skip id rest p rel (fun c hc => h c (List.mem_cons_of_mem _ hc))

/-- the release loop of the write unit on a store whose bytes lie in one line that is announced -/
theorem releaseAll_ok (id : Int) (l : Int) (p0 : Word × Byte) (ps : List (Word × Byte)) (p : List (Int × Int))
    (hline : ∀ c ∈ p0 :: ps, lineOf c.1 = l) (hmem : (l, id) ∈ p) :
    releaseAll p id (p0 :: ps) [] = .ok (p.erase (l, id)) := by
  obtain ⟨a, b⟩ := p0
  simp only [releaseAll]
  have h0 : lineOf a = l := hline (a, b) (by simp)
  rw [h0]
  have hc : p.contains (l, id) = true := by simpa using hmem
  simp only [List.contains_nil, Bool.false_eq_true, if_false, deletePwmi, hc, if_true, pure, Except.pure, bind, Except.bind]
  apply releaseAll_skip
  intro c hc'
  rw [hline c (List.mem_cons_of_mem _ hc')]
  simp


theorem addPwmi_mem_inv {p : List (Int × Int)} {line id : Int} {x : Int × Int} (h : x ∈ addPwmi p line id) :
    x ∈ p ∨ x = (line, id) := by
  unfold addPwmi at h
  split at h
  · exact Or.inl h
  · rcases List.mem_append.mp h with h | h
    · exact Or.inl h
    · exact Or.inr (by simpa using h)

theorem addPwmi_nodup {p : List (Int × Int)} (line id : Int) (h : p.Nodup) : (addPwmi p line id).Nodup := by
  unfold addPwmi
  split
  · exact h
  · rename_i hc
    have hn : (line, id) ∉ p := by simpa using hc
    exact List.nodup_append.mpr ⟨h, by simp, by
      intro a ha b hb
      simp only [List.mem_singleton] at hb
      subst hb
      intro he; subst he; exact hn ha⟩

theorem addPwmiAll_mem_inv (id : Int) : ∀ (chs : List (Word × Byte)) (p : List (Int × Int)) (x : Int × Int),
    x ∈ addPwmiAll p id chs → x ∈ p ∨ ∃ c ∈ chs, x = (lineOf c.1, id)
  | [], p, x, h => Or.inl h
  | (a, b) :: rest, p, x, h => by
    simp only [addPwmiAll] at h
    rcases addPwmiAll_mem_inv id rest _ x h with h1 | ⟨c, hc, he⟩
    · rcases addPwmi_mem_inv h1 with h2 | h2
      · exact Or.inl h2
      · exact Or.inr ⟨(a, b), by simp, h2⟩
    · exact Or.inr ⟨c, List.mem_cons_of_mem _ hc, he⟩

theorem addPwmiAll_nodup (id : Int) : ∀ (chs : List (Word × Byte)) (p : List (Int × Int)), p.Nodup →
    (addPwmiAll p id chs).Nodup
  | [], p, h => h
  | (a, b) :: rest, p, h => by
    simp only [addPwmiAll]
    exact addPwmiAll_nodup id rest _ (addPwmi_nodup _ _ h)

end Proofs.Mvp4

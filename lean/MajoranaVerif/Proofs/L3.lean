/-
  Proofs/L3.lean — the next level of MVP-8 (Model/L3.lean): memory + shared L3 + dirty flags.

  * the flat next-level view `nl a` = the byte of the L3 line that covers `a`, else the
    memory byte (`Proofs.Mmu.view`; `Proofs.Mmu.Coh lines mem flat` says "the view is `flat`");
  * the invariant `Inv`: the L3 lines are full, aligned, pairwise distinct 128-byte blocks
    (`LWf`); every resident line NOT flagged dirty equals memory on its range (`clean` — the
    harness's `l3stale`, negated); every dirty flag sits on the base of a resident line (`keys`);
  * every operation that returns (does not panic) preserves `Inv`; a fill, an L3 eviction
    (write-back of a dirty line, plain removal of a clean one) and the final write-back leave
    the view unchanged; an L1 write-back changes it exactly on the written bytes; after the
    final write-back memory IS the view.
  Core Lean only.
-/
import MajoranaVerif.Model.L3
import MajoranaVerif.Proofs.Mvp3Cycles
open GoInt LineCache

namespace Proofs.L3
open Model.L3 Model.Mmu Proofs.Mmu Proofs.LC

/-! ### the invariant -/

/-- the lines of the L3: full, aligned, non-wrapping, pairwise distinct blocks -/
structure LWf (L : Nat) (ls : List Line) : Prop where
  lines : ∀ l ∈ ls, LineWf L l
  distinct : ls.Pairwise (fun a b => a.lo ≠ b.lo)

theorem LWf.perm {L : Nat} {ls ls' : List Line} (h : LWf L ls) (hp : ls'.Perm ls) : LWf L ls' :=
  { lines := fun l hl => h.lines l (hp.mem_iff.mp hl),
    distinct := (hp.pairwise_iff (fun {a b} (hab : a.lo ≠ b.lo) => Ne.symm hab)).mpr h.distinct }

theorem LWf.sublist {L : Nat} {ls ls' : List Line} (h : LWf L ls) (hs : ls'.Sublist ls) : LWf L ls' :=
  { lines := fun l hl => h.lines l (hs.subset hl), distinct := h.distinct.sublist hs }

theorem LWf.unique {L : Nat} {ls : List Line} (h : LWf L ls) {l1 l2 : Line} (h1 : l1 ∈ ls) (h2 : l2 ∈ ls)
    (he : l1.lo = l2.lo) : l1 = l2 := lines_unique h.distinct h1 h2 he

/-- a line is clean: it equals memory on the part of its range that lies inside memory -/
def LineClean (mem : List Byte) (l : Line) : Prop :=
  ∀ x : Nat, l.covers x = true → x < mem.length → l.data[((x : Int) - l.lo).toNat]? = mem[x]?

structure Inv (L : Nat) (s : State) : Prop where
  lwf : LWf L s.l3.lines
  lineLength : s.l3.lineLength = L
  clean : ∀ l ∈ s.l3.lines, isDirty s l.lo = false → LineClean s.mem l
  keys : ∀ a ∈ s.dirty, ∃ l ∈ s.l3.lines, l.lo = a

/-- the view of the next level is `flat` -/
def NL (s : State) (flat : List Byte) : Prop := Coh s.l3.lines s.mem flat

/-- the view as a list -/
def nlOf (s : State) : List Byte := (List.range s.mem.length).map (fun x => (view s.l3.lines s.mem x).getD 0#8)

theorem view_isSome {L : Nat} {ls : List Line} (hw : LWf L ls) (mem : List Byte) (x : Nat) (hx : x < mem.length) :
    ∃ b, view ls mem x = some b := by
  unfold view
  cases hf : ls.find? (fun l => l.covers x) with
  | none => exact ⟨mem[x], List.getElem?_eq_getElem hx⟩
  | some l =>
    have hm := List.mem_of_find?_eq_some hf
    have hc0 := List.find?_some hf
    have hc := (covers_iff l x).mp hc0
    have hl := hw.lines l hm
    rw [hl.hi] at hc
    have : ((x : Int) - l.lo).toNat < l.data.length := by rw [hl.len]; omega
    exact ⟨_, List.getElem?_eq_getElem this⟩

/-- the view is a flat memory of the same size, and the pair is coherent with it -/
theorem nl_coh {L : Nat} (hL : 0 < L) {s : State} (hw : LWf L s.l3.lines) : NL s (nlOf s) := by
  have hlen : (nlOf s).length = s.mem.length := by simp [nlOf]
  have hv : ∀ x : Nat, x < (nlOf s).length → view s.l3.lines s.mem x = (nlOf s)[x]? := by
    intro x hx
    rw [hlen] at hx
    obtain ⟨b, hb⟩ := view_isSome hw s.mem x hx
    simp [nlOf, hx, hb]
  refine { len := hlen.symm, cached := ?_, uncached := ?_ }
  · intro l hl x hc hx
    have := hv x hx
    unfold view at this
    cases hf : s.l3.lines.find? (fun l => l.covers x) with
    | some l' =>
      rw [hf] at this
      have hm' := List.mem_of_find?_eq_some hf
      have hc' := List.find?_some hf
      have e : l' = l := hw.unique hm' hl
        ((((hw.lines l' hm').covers_iff hL x (by omega)).mp hc').trans (((hw.lines l hl).covers_iff hL x (by omega)).mp hc).symm)
      rw [← e]; exact this
    | none =>
      have hnone := List.find?_eq_none.mp hf l hl
      simp only [hc, not_true_eq_false] at hnone
  · intro x hx hu
    have := hv x hx
    unfold view at this
    have hf : s.l3.lines.find? (fun l => l.covers x) = none := by
      apply List.find?_eq_none.mpr
      intro l hl
      simp [hu l hl]
    rw [hf] at this
    exact this

/-- two flat memories the pair is coherent with are equal -/
theorem NL.unique {s : State} {f1 f2 : List Byte} (h1 : NL s f1) (h2 : NL s f2) : f1 = f2 := by
  apply List.ext_getElem?
  intro x
  by_cases hx : x < f1.length
  · rw [← h1.view_eq x hx, ← h2.view_eq x (by rw [← h2.len, h1.len]; exact hx)]
  · have hx2 : ¬ x < f2.length := by rw [← h2.len, h1.len]; exact hx
    rw [List.getElem?_eq_none (by omega), List.getElem?_eq_none (by omega)]

/-! ### the presence test (`isAddressInL3`): only the LRU order changes -/

theorem isAddressInL3_spec {s s1 : State} {a : Int} {b : Bool} (h : isAddressInL3 s a = .ok (b, s1)) :
    s1.mem = s.mem ∧ s1.dirty = s.dirty ∧ s1.l3.lines.Perm s.l3.lines ∧ s1.l3.lineLength = s.l3.lineLength ∧
    s1.l3.numberOfLines = s.l3.numberOfLines ∧
    (b = true ↔ ∃ l ∈ s.l3.lines, l.covers a = true) := by
  unfold isAddressInL3 at h
  cases hg : LineCache.get s.l3 a with
  | error f => simp [hg, bind, Except.bind] at h
  | ok p =>
    obtain ⟨v, c⟩ := p
    simp only [hg, bind, Except.bind, pure, Except.pure] at h
    injection h with h
    simp only [Prod.mk.injEq] at h
    obtain ⟨hb, hs1⟩ := h
    obtain ⟨ls, hc, hp⟩ := Proofs.Mvp3Cycles.get_perm hg
    rw [← hs1, hc]
    refine ⟨rfl, rfl, hp, rfl, rfl, ?_⟩
    rw [← hb]
    unfold LineCache.get at hg
    cases hsp : splitAt a s.l3.lines with
    | none =>
      simp only [hsp, pure, Except.pure] at hg
      injection hg with hg; injection hg with hv _
      rw [← hv]
      constructor
      · intro h; cases h
      · intro ⟨l, hl, hcov⟩
        rw [splitAt_none hsp l hl] at hcov; cases hcov
    | some r =>
      obtain ⟨pre, l, post⟩ := r
      obtain ⟨hsplit, hcov, _⟩ := splitAt_some hsp
      simp only [hsp, bind, Except.bind] at hg
      cases hat : l.at a with
      | error f => simp [hat] at hg
      | ok bb =>
        simp only [hat, pure, Except.pure] at hg
        injection hg with hg; injection hg with hv _
        rw [← hv]
        exact ⟨fun _ => ⟨l, by rw [hsplit]; simp, hcov⟩, fun _ => rfl⟩

theorem Inv.of_perm {L : Nat} {s s1 : State} (hi : Inv L s) (hm : s1.mem = s.mem) (hd : s1.dirty = s.dirty)
    (hp : s1.l3.lines.Perm s.l3.lines) (hl : s1.l3.lineLength = s.l3.lineLength) : Inv L s1 :=
  { lwf := hi.lwf.perm hp, lineLength := by rw [hl]; exact hi.lineLength,
    clean := by
      intro l hlm hdl
      rw [hm]
      exact hi.clean l (hp.mem_iff.mp hlm) (by unfold isDirty at hdl ⊢; rw [← hd]; exact hdl),
    keys := by
      intro a ha
      rw [hd] at ha
      obtain ⟨l, hl, hlo⟩ := hi.keys a ha
      exact ⟨l, hp.mem_iff.mpr hl, hlo⟩ }

theorem NL.of_perm {s s1 : State} {flat : List Byte} (h : NL s flat) (hm : s1.mem = s.mem)
    (hp : s1.l3.lines.Perm s.l3.lines) : NL s1 flat := by
  unfold NL at h ⊢
  rw [hm]
  exact h.congr_mem (fun y => hp.mem_iff)

/-! ### dirty flags -/

theorem isDirty_iff (s : State) (a : Int) : isDirty s a = true ↔ a ∈ s.dirty := by
  unfold isDirty; simp

theorem mem_release (s : State) (a b : Int) : b ∈ (releaseNotify s a).dirty ↔ b ∈ s.dirty ∧ b ≠ a := by
  unfold releaseNotify; simp

theorem mem_notify (s : State) (a b : Int) : b ∈ (writeNotify s a).dirty ↔ b ∈ s.dirty ∨ b = a := by
  unfold writeNotify
  by_cases h : s.dirty.contains a = true
  · simp only [h, if_true]
    constructor
    · exact Or.inl
    · rintro (h1 | rfl)
      · exact h1
      · simpa using h
  · simp only [h, Bool.false_eq_true, if_false, List.mem_cons]
    constructor
    · rintro (rfl | h1)
      · exact Or.inr rfl
      · exact Or.inl h1
    · rintro (h1 | rfl)
      · exact Or.inr h1
      · exact Or.inl rfl

theorem isDirty_false_iff (s : State) (a : Int) : isDirty s a = false ↔ a ∉ s.dirty := by
  rw [← isDirty_iff]; cases isDirty s a <;> simp

/-! ### eviction of an L3 line -/

/-- a resident line that covers an aligned address starts there -/
theorem covers_aligned {L : Nat} (hL : 0 < L) {l : Line} (hl : LineWf L l) {lo : Int} (h0 : 0 ≤ lo) (hal : lo % (L : Int) = 0)
    (hc : l.covers lo = true) : l.lo = lo := by
  have := (hl.covers_iff hL lo h0).mp hc
  rw [this, base_eq _ _ h0, hal]; omega

/-- two distinct resident lines do not overlap -/
theorem disjoint_of_ne {L : Nat} (hL : 0 < L) {l x : Line} (hl : LineWf L l) (hx : LineWf L x) (hne : l.lo ≠ x.lo)
    (y : Nat) (hcl : l.covers y = true) : x.covers y = false := by
  cases hcx : x.covers y with
  | false => rfl
  | true =>
    have h1 := (hl.covers_iff hL y (by omega)).mp hcl
    have h2 := (hx.covers_iff hL y (by omega)).mp hcx
    exact absurd (h1.trans h2.symm) hne

/-- **L3 eviction** (decision by the flag under the line's address, then the snoop): a dirty line is written back, a
clean line is dropped; either way the invariant holds afterwards and the next-level view is unchanged -/
theorem evict_ok {L : Nat} (hL : 0 < L) {s s' : State} (hi : Inv L s) (lo : Int) (h0 : 0 ≤ lo) (hal : lo % (L : Int) = 0)
    (h : evictExtra s lo = .ok s') :
    Inv L s' ∧ (∀ flat, NL s flat → NL s' flat) ∧ s'.mem.length = s.mem.length := by
  unfold evictExtra evictDecision at h
  by_cases hd : isDirty s lo = true
  · -- write-back
    simp only [hd, if_true, execEvict, bind, Except.bind] at h
    unfold LineCache.getCacheLine at h
    cases hsp : splitAt lo s.l3.lines with
    | none => simp [hsp, pure, Except.pure, throw, throwThe, MonadExceptOf.throw] at h
    | some r =>
      obtain ⟨pre, x, post⟩ := r
      obtain ⟨hsplit, hcov, _⟩ := splitAt_some hsp
      have hxm : x ∈ s.l3.lines := by rw [hsplit]; simp
      have hxw := hi.lwf.lines x hxm
      have hxlo : x.lo = lo := covers_aligned hL hxw h0 hal hcov
      simp only [hsp, bind, Except.bind] at h
      cases hat : x.at lo with
      | error f => simp [hat] at h
      | ok bb =>
        simp only [hat, pure, Except.pure] at h
        cases hwb : writeToMemory s.mem lo x.data with
        | error f => simp [hwb] at h
        | ok mem' =>
          simp only [hwb, evictCacheLine, hsp, hat, bind, Except.bind, pure, Except.pure, Option.isNone_some,
            Bool.false_eq_true, if_false] at h
          injection h with h
          subst h
          rw [← hxlo] at hwb
          obtain ⟨m2, g1, g2, g3⟩ := writeToMemory_spec s.mem x.lo x.data hxw.nonneg
          rw [hwb] at g1; injection g1 with g1; subst g1
          have hsub : (pre ++ post).Sublist s.l3.lines := by rw [hsplit]; exact sublist_middle pre post x
          have hne : ∀ l ∈ pre ++ post, l.lo ≠ x.lo := by
            intro l hl he
            have hd2 := hi.lwf.distinct
            rw [hsplit] at hd2
            have hp := List.pairwise_append.mp hd2
            rcases List.mem_append.mp hl with h1 | h1
            · exact hp.2.2 l h1 x (by simp) he
            · exact (List.pairwise_cons.mp hp.2.1).1 l h1 he.symm
          refine ⟨?_, ?_, g2⟩
          · refine { lwf := hi.lwf.sublist hsub, lineLength := hi.lineLength, clean := ?_, keys := ?_ }
            · intro l hl hdl y hcy hy
              have hlm : l ∈ s.l3.lines := hsub.subset hl
              have hdl' : isDirty s l.lo = false := by
                rw [isDirty_false_iff] at hdl ⊢
                intro hmem
                exact hdl ((mem_release _ lo l.lo).mpr ⟨hmem, by rw [← hxlo]; exact hne l hl⟩)
              have hxc := disjoint_of_ne hL (hi.lwf.lines l hlm) hxw (hne l hl) y hcy
              have hxr := (covers_false_iff x y).mp hxc
              rw [hxw.hi] at hxr
              show l.data[((y : Int) - l.lo).toNat]? = mem'[y]?
              rw [g3 y]
              have : ¬ (x.lo ≤ (y : Int) ∧ (y : Int) < x.lo + (x.data.length : Nat) ∧ y < s.mem.length) := by
                rw [hxw.len]; omega
              simp only [this, if_false]
              exact hi.clean l hlm hdl' y hcy (by rw [← g2]; exact hy)
            · intro a ha
              obtain ⟨ha1, ha2⟩ := (mem_release _ lo a).mp ha
              obtain ⟨l, hl, hla⟩ := hi.keys a ha1
              refine ⟨l, ?_, hla⟩
              rw [hsplit] at hl
              rcases List.mem_append.mp hl with h1 | h1
              · exact List.mem_append_left _ h1
              · rcases List.mem_cons.mp h1 with rfl | h1
                · exact absurd (hla.symm.trans hxlo) ha2
                · exact List.mem_append_right _ h1
          · intro flat hnl
            unfold NL at hnl ⊢
            rw [hsplit] at hnl
            exact hnl.evict hxw hwb
  · -- plain eviction of a clean line
    have hd' : isDirty s lo = false := by simpa using hd
    simp only [hd', Bool.false_eq_true, if_false, execEvict, bind, Except.bind, evictCacheLine] at h
    cases hsp : splitAt lo s.l3.lines with
    | none =>
      simp only [hsp, pure, Except.pure] at h
      injection h with h
      subst h
      refine ⟨?_, fun flat hnl => hnl, rfl⟩
      refine { lwf := hi.lwf, lineLength := hi.lineLength, clean := ?_, keys := ?_ }
      · intro l hl hdl
        apply hi.clean l hl
        rw [isDirty_false_iff] at hdl ⊢
        intro hmem
        have hne : l.lo ≠ lo := by
          intro he; rw [he] at hmem
          exact ((isDirty_false_iff s lo).mp hd') hmem
        exact hdl ((mem_release _ lo l.lo).mpr ⟨hmem, hne⟩)
      · intro a ha
        exact hi.keys a ((mem_release _ lo a).mp ha).1
    | some r =>
      obtain ⟨pre, x, post⟩ := r
      obtain ⟨hsplit, hcov, _⟩ := splitAt_some hsp
      have hxm : x ∈ s.l3.lines := by rw [hsplit]; simp
      have hxw := hi.lwf.lines x hxm
      have hxlo : x.lo = lo := covers_aligned hL hxw h0 hal hcov
      simp only [hsp, bind, Except.bind] at h
      cases hat : x.at lo with
      | error f => simp [hat] at h
      | ok bb =>
        simp only [hat, pure, Except.pure] at h
        injection h with h
        subst h
        have hsub : (pre ++ post).Sublist s.l3.lines := by rw [hsplit]; exact sublist_middle pre post x
        have hxclean : LineClean s.mem x := hi.clean x hxm (by rw [hxlo]; exact hd')
        refine ⟨?_, ?_, rfl⟩
        · refine { lwf := hi.lwf.sublist hsub, lineLength := hi.lineLength, clean := ?_, keys := ?_ }
          · intro l hl hdl
            have hlm : l ∈ s.l3.lines := hsub.subset hl
            apply hi.clean l hlm
            rw [isDirty_false_iff] at hdl ⊢
            intro hmem
            have hne : l.lo ≠ lo := by
              intro he; rw [he] at hmem
              exact ((isDirty_false_iff s lo).mp hd') hmem
            exact hdl ((mem_release _ lo l.lo).mpr ⟨hmem, hne⟩)
          · intro a ha
            obtain ⟨ha1, ha2⟩ := (mem_release _ lo a).mp ha
            obtain ⟨l, hl, hla⟩ := hi.keys a ha1
            refine ⟨l, ?_, hla⟩
            rw [hsplit] at hl
            rcases List.mem_append.mp hl with h1 | h1
            · exact List.mem_append_left _ h1
            · rcases List.mem_cons.mp h1 with rfl | h1
              · exact absurd (hla.symm.trans hxlo) ha2
              · exact List.mem_append_right _ h1
        · intro flat hnl
          unfold NL at hnl ⊢
          show Coh (pre ++ post) s.mem flat
          rw [hsplit] at hnl
          refine { len := hnl.len, cached := fun l hl => hnl.cached l (mem_middle hl), uncached := ?_ }
          intro y hy hu
          by_cases hc : x.covers y = true
          · rw [← hxclean y hc (by rw [hnl.len]; exact hy)]
            exact hnl.cached x (by simp) y hc hy
          · have hc' : x.covers y = false := by simpa using hc
            apply hnl.uncached y hy
            intro l hl
            rcases List.mem_append.mp hl with h1 | h1
            · exact hu l (List.mem_append_left _ h1)
            · rcases List.mem_cons.mp h1 with rfl | h1
              · exact hc'
              · exact hu l (List.mem_append_right _ h1)

/-! ### L1 fill: fetch from memory, push, evict the extra line -/

theorem fetchLine_ok {cfg : Model.L3.Config} {L : Nat} (hcfg : cfg.l3LineSize = L) (hL : 0 < L) {mem : List Byte} {a : Word}
    (h0 : 0 ≤ a.toInt) {lo : Int} {line : List Byte} (h : fetchLine cfg mem a = .ok (lo, line)) :
    lo = base L a.toInt ∧ line = padTake (mem.drop lo.toNat) L := by
  obtain ⟨hb0, _, _, _⟩ := base_spec L a.toInt (by omega) h0
  unfold fetchLine align at h
  rw [hcfg, alignDown_ok _ _ (by omega)] at h
  have h1 : ¬ ((L : Int) < 0) := by omega
  have h2 : ¬ ((L : Int) = 0) := by omega
  have h3 : ¬ (base (L : Int) a.toInt < 0) := by omega
  simp only [bind, Except.bind, h1, h2, h3, if_false, pure, Except.pure, Int.toNat_natCast] at h
  injection h with h
  simp only [Prod.mk.injEq] at h
  exact ⟨h.1.symm, by rw [← h.1]; exact h.2.symm⟩

/-- pushing a block freshly read from memory at an aligned address keeps the invariant and the view -/
theorem push_ok {cfg : Model.L3.Config} {L : Nat} (hcfg : cfg.l3LineSize = L) (hL : 0 < L) {s s2 : State} (hi : Inv L s)
    {lo : Int} (h0 : 0 ≤ lo) (hal : lo % (L : Int) = 0) (hend : lo + L < 2 ^ 31)
    {ev : Option Line} (h : pushLineToL3 cfg s lo (padTake (s.mem.drop lo.toNat) L) = .ok (ev, s2)) :
    Inv L s2 ∧ (∀ flat, NL s flat → NL s2 flat) ∧ s2.mem = s.mem ∧ (∀ v, ev = some v → v ∈ s2.l3.lines) := by
  unfold pushLineToL3 at h
  have hL0 : ¬ cfg.l3LineSize = 0 := by rw [hcfg]; omega
  have hlen : (padTake (s.mem.drop lo.toNat) L).length = L := padTake_length _ _
  have hchk : ¬ (((padTake (s.mem.drop lo.toNat) L).length : Int) ≠ cfg.l3LineSize ∨ Int.tmod lo cfg.l3LineSize ≠ 0) := by
    rw [hlen, hcfg, Int.tmod_eq_emod_of_nonneg h0]
    omega
  simp only [hL0, if_false, hchk, bind, Except.bind] at h
  cases hp : isAddressInL3 s lo with
  | error f => simp [hp] at h
  | ok q =>
    obtain ⟨present, s1⟩ := q
    obtain ⟨hm1, hd1, hperm, hll, _, hiff⟩ := isAddressInL3_spec hp
    have hi1 : Inv L s1 := hi.of_perm hm1 hd1 hperm hll
    simp only [hp] at h
    by_cases hpr : present = true
    · simp only [hpr, if_true, pure, Except.pure] at h
      injection h with h
      simp only [Prod.mk.injEq] at h
      obtain ⟨hev, hs2⟩ := h
      subst hs2
      exact ⟨hi1, fun flat hnl => hnl.of_perm hm1 hperm, hm1, fun v hv => by rw [← hev] at hv; cases hv⟩
    · -- the block is not resident: no line starts at `lo`
      have hpr' : present = false := by simpa using hpr
      simp only [hpr', Bool.false_eq_true, if_false, pushLineWithEvictionWarning, pure, Except.pure] at h
      have hnone : ∀ l ∈ s.l3.lines, l.covers lo = false := by
        intro l hl
        cases hc : l.covers lo with
        | false => rfl
        | true => exact absurd (hiff.mpr ⟨l, hl, hc⟩) hpr
      have hfresh : ∀ l ∈ s1.l3.lines, l.lo ≠ lo := by
        intro l hl he
        have hlm := hperm.mem_iff.mp hl
        have hw := hi.lwf.lines l hlm
        have : l.covers lo = true := by rw [covers_iff, hw.hi, he]; omega
        rw [hnone l hlm] at this; cases this
      let nl : Line := LineCache.newLine s1.l3 lo (padTake (s.mem.drop lo.toNat) L)
      have hnlwf : LineWf L nl :=
        { hi := by show lo + (s1.l3.lineLength : Int) = lo + L; rw [hi1.lineLength], len := hlen, nonneg := h0, aligned := hal }
      have hfix : fixHead ({ s1.l3 with lines := nl :: s1.l3.lines } : Cache) = { s1.l3 with lines := nl :: s1.l3.lines } := by
        apply fixHead_id _ _ _ rfl
        apply wrap32_id
        · show -(2 ^ 31) ≤ lo + (s1.l3.lineLength : Int); omega
        · show lo + (s1.l3.lineLength : Int) < 2 ^ 31; rw [hi1.lineLength]; exact hend
      have hlw2 : LWf L (nl :: s1.l3.lines) :=
        { lines := by
            intro l hl
            rcases List.mem_cons.mp hl with rfl | hl
            · exact hnlwf
            · exact hi1.lwf.lines l hl,
          distinct := List.pairwise_cons.mpr ⟨fun y hy => Ne.symm (hfresh y hy), hi1.lwf.distinct⟩ }
      -- the new line is what memory holds
      have hnlclean : LineClean s.mem nl := by
        intro x hcx hx
        have hr := (covers_iff nl x).mp hcx
        rw [hnlwf.hi] at hr
        have hnl : nl.lo = lo := rfl
        rw [hnl] at hr ⊢
        show (padTake (s.mem.drop lo.toNat) L)[((x : Int) - lo).toNat]? = s.mem[x]?
        have e : ((x : Int) - lo).toNat = x - lo.toNat := by omega
        rw [e]
        exact fetched_bytes s.mem lo.toNat L x (by omega) (by omega) hx
      -- read off the result
      have hs2 : s2 = { s1 with l3 := { s1.l3 with lines := nl :: s1.l3.lines } } ∧
          (∀ v, ev = some v → v ∈ nl :: s1.l3.lines) := by
        by_cases hfull : (nl :: s1.l3.lines).length > s1.l3.numberOfLines
        · have hfull' : (LineCache.newLine s1.l3 lo (padTake (s.mem.drop lo.toNat) L) :: s1.l3.lines).length > s1.l3.numberOfLines := hfull
          simp only [hfull', if_true] at h
          injection h with h
          simp only [Prod.mk.injEq] at h
          exact ⟨h.2.symm.trans (congrArg (fun c => ({ s1 with l3 := c } : State)) hfix), fun v hv => by rw [← h.1] at hv; exact List.mem_of_getLast? hv⟩
        · have hfull' : ¬ (LineCache.newLine s1.l3 lo (padTake (s.mem.drop lo.toNat) L) :: s1.l3.lines).length > s1.l3.numberOfLines := hfull
          simp only [hfull', if_false] at h
          injection h with h
          simp only [Prod.mk.injEq] at h
          exact ⟨h.2.symm.trans (congrArg (fun c => ({ s1 with l3 := c } : State)) hfix), fun v hv => by rw [← h.1] at hv; cases hv⟩
      obtain ⟨hs2e, hevm⟩ := hs2
      subst hs2e
      refine ⟨?_, ?_, hm1, hevm⟩
      · refine { lwf := hlw2, lineLength := hi1.lineLength, clean := ?_, keys := ?_ }
        · intro l hl hdl
          show LineClean s1.mem l
          rcases List.mem_cons.mp hl with rfl | hl
          · rw [hm1]; exact hnlclean
          · exact hi1.clean l hl hdl
        · intro a ha
          obtain ⟨l, hl, hla⟩ := hi1.keys a ha
          exact ⟨l, List.mem_cons_of_mem _ hl, hla⟩
      · intro flat hnlf
        have h1 : NL s1 flat := hnlf.of_perm hm1 hperm
        unfold NL at h1 ⊢
        apply h1.push nl
        intro x hcx hx
        have hun : ∀ l ∈ s1.l3.lines, l.covers x = false := by
          intro l hl
          exact disjoint_of_ne hL hnlwf (hi1.lwf.lines l hl) (Ne.symm (hfresh l hl)) x hcx
        rw [← h1.uncached x hx hun, hm1]
        exact hnlclean x hcx (by rw [← hm1, h1.len]; exact hx)

/-- **L1 fill** (L3 hit, or miss → fetch, push, eviction of the extra line): the invariant is kept and the
next-level view does not change -/
theorem fill_ok {cfg : Model.L3.Config} {L : Nat} (hcfg : cfg.l3LineSize = L) (hL : 0 < L) {s s' : State} (hi : Inv L s)
    (a0 : Word) (as : List Word) (h0 : 0 ≤ a0.toInt) (hend : base L a0.toInt + L < 2 ^ 31)
    {r : Int × List Byte} (h : fill cfg s (a0 :: as) = .ok (r, s')) :
    Inv L s' ∧ (∀ flat, NL s flat → NL s' flat) ∧ s'.mem.length = s.mem.length := by
  unfold fill at h
  simp only [bind, Except.bind] at h
  cases hp : isAddressInL3 s a0.toInt with
  | error f => simp [hp] at h
  | ok q =>
    obtain ⟨hit, s1⟩ := q
    obtain ⟨hm1, hd1, hperm, hll, _, _⟩ := isAddressInL3_spec hp
    have hi1 : Inv L s1 := hi.of_perm hm1 hd1 hperm hll
    have hnl1 : ∀ flat, NL s flat → NL s1 flat := fun flat hnl => hnl.of_perm hm1 hperm
    simp only [hp] at h
    by_cases hh : hit = true
    · simp only [hh, if_true] at h
      cases hg : getSub cfg s1 (a0 :: as) with
      | error f => simp [hg] at h
      | ok r1 =>
        simp only [hg, pure, Except.pure] at h
        injection h with h
        simp only [Prod.mk.injEq] at h
        rw [← h.2]
        exact ⟨hi1, hnl1, by rw [hm1]⟩
    · have hh' : hit = false := by simpa using hh
      simp only [hh', Bool.false_eq_true, if_false] at h
      cases hf : fetchLine cfg s1.mem a0 with
      | error f => simp [hf] at h
      | ok p =>
        obtain ⟨lo, line⟩ := p
        obtain ⟨hlo, hline⟩ := fetchLine_ok hcfg hL h0 hf
        obtain ⟨hb0, _, _, hb3⟩ := base_spec L a0.toInt (by omega) h0
        rw [← hlo] at hb0 hb3 hend
        simp only [hf] at h
        rw [hline] at h
        cases hps : pushLineToL3 cfg s1 lo (padTake (s1.mem.drop lo.toNat) L) with
        | error f => simp [hps] at h
        | ok q2 =>
          obtain ⟨ev, s2⟩ := q2
          obtain ⟨hi2, hnl2, hm2, hevm⟩ := push_ok hcfg hL hi1 hb0 hb3 hend hps
          simp only [hps] at h
          cases ev with
          | none =>
            simp only [pure, Except.pure] at h
            cases hg : getSub cfg s2 (a0 :: as) with
            | error f => simp [hg] at h
            | ok r1 =>
              simp only [hg] at h
              injection h with h
              simp only [Prod.mk.injEq] at h
              rw [← h.2]
              exact ⟨hi2, fun flat hnl => hnl2 flat (hnl1 flat hnl), by rw [hm2, hm1]⟩
          | some v =>
            simp only at h
            cases he : evictExtra s2 v.lo with
            | error f => simp [he] at h
            | ok s3 =>
              have hvw := hi2.lwf.lines v (hevm v rfl)
              obtain ⟨hi3, hnl3, hm3⟩ := evict_ok hL hi2 v.lo hvw.nonneg hvw.aligned he
              simp only [he] at h
              cases hg : getSub cfg s3 (a0 :: as) with
              | error f => simp [hg] at h
              | ok r1 =>
                simp only [hg, pure, Except.pure] at h
                injection h with h
                simp only [Prod.mk.injEq] at h
                rw [← h.2]
                exact ⟨hi3, fun flat hnl => hnl3 flat (hnl2 flat (hnl1 flat hnl)), by rw [hm3, hm2, hm1]⟩

/-! ### write-back of a Modified L1 line -/

/-- an aligned L1 line lies inside ONE L3 block -/
theorem sub_block {L L1 : Nat} (hL1 : 0 < L1) (hdiv : (L1 : Int) ∣ (L : Int)) (hL : 0 < L) (a : Int) (h0 : 0 ≤ a)
    (hal : a % (L1 : Int) = 0) : base L a ≤ a ∧ a + L1 ≤ base L a + L := by
  obtain ⟨hb0, hb1, hb2, hb3⟩ := base_spec L a (by omega) h0
  refine ⟨hb1, ?_⟩
  have hoff : (L1 : Int) ∣ (a - base L a) := by
    rw [base_eq _ _ h0]
    have e : a - (a - a % (L : Int)) = a % (L : Int) := by omega
    rw [e]
    apply Int.dvd_of_emod_eq_zero
    rw [Int.emod_emod_of_dvd _ hdiv]; exact hal
  have := Proofs.Mvp3Cycles.dvd_gap L1 L (a - base L a) (by omega) hdiv hoff (by omega)
  omega

/-- **L1 write-back** (into the L3 line when it is resident — flagging it dirty under its 128-aligned address —
else straight to memory): the invariant is kept, and the next-level view changes exactly as a flat memory
written at the same place -/
theorem wb_ok {cfg : Model.L3.Config} {L L1 : Nat} (hcfg : cfg.l3LineSize = L) (hL : 0 < L) (hL1 : 0 < L1)
    (hdiv : (L1 : Int) ∣ (L : Int)) {s s' : State} (hi : Inv L s) (a : Word) (d : List Byte)
    (h0 : 0 ≤ a.toInt) (hal : a.toInt % (L1 : Int) = 0) (hd : d.length = L1)
    (h : l1WriteBack cfg s a d = .ok s') :
    Inv L s' ∧ (∀ flat flat', NL s flat → writeToMemory flat a.toInt d = .ok flat' → NL s' flat') ∧
    s'.mem.length = s.mem.length := by
  obtain ⟨hblk1, hblk2⟩ := sub_block hL1 hdiv hL a.toInt h0 hal
  obtain ⟨hb0, _, hb2, hb3⟩ := base_spec L a.toInt (by omega) h0
  unfold l1WriteBack at h
  simp only [bind, Except.bind] at h
  cases hp : isAddressInL3 s a.toInt with
  | error f => simp [hp] at h
  | ok q =>
    obtain ⟨present, s1⟩ := q
    obtain ⟨hm1, hd1, hperm, hll, _, hiff⟩ := isAddressInL3_spec hp
    have hi1 : Inv L s1 := hi.of_perm hm1 hd1 hperm hll
    simp only [hp] at h
    by_cases hpr : present = true
    · -- into the L3 line
      simp only [hpr, if_true] at h
      unfold writeToL3 align at h
      rw [hcfg, alignDown_ok _ _ (by omega)] at h
      simp only [bind, Except.bind] at h
      obtain ⟨l, hlm, hlc⟩ := hiff.mp hpr
      have hlm1 : l ∈ s1.l3.lines := hperm.mem_iff.mpr hlm
      have hl3 : (writeNotify s1 (base L a.toInt)).l3 = s1.l3 := by unfold writeNotify; split <;> rfl
      rw [hl3] at h
      obtain ⟨pre, x, post, hsp⟩ := splitAt_isSome (a := a.toInt) ⟨l, hlm1, hlc⟩
      obtain ⟨hsplit, hxcov, _⟩ := splitAt_some hsp
      have hxm : x ∈ s1.l3.lines := by rw [hsplit]; simp
      have hxw := hi1.lwf.lines x hxm
      have hxlo : x.lo = base L a.toInt := (hxw.covers_iff hL _ h0).mp hxcov
      have hfit : (a.toInt - x.lo).toNat + d.length ≤ x.data.length := by rw [hxw.len, hd, hxlo]; omega
      have hwr := write_fits (d := d) hsp hfit (by omega)
      rw [hwr] at h
      simp only [pure, Except.pure] at h
      injection h with h
      subst h
      obtain ⟨_, hdlen, hdget⟩ := setFrom_spec d x.data (a.toInt - x.lo).toNat hfit
      generalize hd' : (setFrom x.data (a.toInt - x.lo).toNat d).1 = d' at hdlen hdget
      have hx'w : LineWf L { x with data := d' } :=
        { hi := hxw.hi, len := by show d'.length = L; rw [hdlen, hxw.len], nonneg := hxw.nonneg, aligned := hxw.aligned }
      have hne : ∀ y ∈ pre ++ post, y.lo ≠ x.lo := by
        intro y hy he
        have hd2 := hi1.lwf.distinct
        rw [hsplit] at hd2
        have hpw := List.pairwise_append.mp hd2
        rcases List.mem_append.mp hy with h1 | h1
        · exact hpw.2.2 y h1 x (by simp) he
        · exact (List.pairwise_cons.mp hpw.2.1).1 y h1 he.symm
      have hold : ∀ y ∈ pre ++ post, y ∈ s1.l3.lines := fun y hy => by rw [hsplit]; exact mem_middle hy
      refine ⟨?_, ?_, by show (writeNotify s1 _).mem.length = _; unfold writeNotify; split <;> simp [hm1]⟩
      · refine { lwf := ?_, lineLength := hi1.lineLength, clean := ?_, keys := ?_ }
        · refine { lines := ?_, distinct := ?_ }
          · intro y hy
            rcases List.mem_append.mp hy with h1 | h1
            · exact hi1.lwf.lines y (hold y (List.mem_append_left _ h1))
            · rcases List.mem_cons.mp h1 with rfl | h1
              · exact hx'w
              · exact hi1.lwf.lines y (hold y (List.mem_append_right _ h1))
          · have hd2 := hi1.lwf.distinct
            rw [hsplit] at hd2
            have e1 : (pre ++ { x with data := d' } :: post).map (·.lo) = (pre ++ x :: post).map (·.lo) := by simp
            have := (List.pairwise_map (f := fun (l : Line) => l.lo) (R := fun a b => a ≠ b)).mpr hd2
            rw [← e1] at this
            exact List.pairwise_map.mp this
        · intro y hy hdy
          have hdy' : y.lo ∉ (writeNotify s1 (base L a.toInt)).dirty := (isDirty_false_iff _ _).mp hdy
          have hdy1 : y.lo ∉ s1.dirty ∧ y.lo ≠ base L a.toInt := by
            constructor
            · exact fun hm => hdy' ((mem_notify _ _ _).mpr (Or.inl hm))
            · exact fun he => hdy' ((mem_notify _ _ _).mpr (Or.inr he))
          have hym : y ∈ pre ++ post := by
            rcases List.mem_append.mp hy with h1 | h1
            · exact List.mem_append_left _ h1
            · rcases List.mem_cons.mp h1 with rfl | h1
              · exact absurd hxlo hdy1.2
              · exact List.mem_append_right _ h1
          have hmm : (writeNotify s1 (base L a.toInt)).mem = s1.mem := by unfold writeNotify; split <;> rfl
          show LineClean (writeNotify s1 (base L a.toInt)).mem y
          rw [hmm]
          exact hi1.clean y (hold y hym) ((isDirty_false_iff _ _).mpr hdy1.1)
        · intro k hk
          rcases (mem_notify _ _ _).mp hk with h1 | h1
          · obtain ⟨y, hy, hyk⟩ := hi1.keys k h1
            rw [hsplit] at hy
            rcases List.mem_append.mp hy with h2 | h2
            · exact ⟨y, List.mem_append_left _ h2, hyk⟩
            · rcases List.mem_cons.mp h2 with rfl | h2
              · exact ⟨{ y with data := d' }, by simp, hyk⟩
              · exact ⟨y, List.mem_append_right _ (List.mem_cons_of_mem _ h2), hyk⟩
          · exact ⟨{ x with data := d' }, by simp, by rw [h1]; exact hxlo⟩
      · intro flat flat' hnl hfl
        have hnl1 : NL s1 flat := hnl.of_perm hm1 hperm
        unfold NL at hnl1 ⊢
        have hmm : (writeNotify s1 (base L a.toInt)).mem = s1.mem := by unfold writeNotify; split <;> rfl
        show Coh (pre ++ { x with data := d' } :: post) (writeNotify s1 (base L a.toInt)).mem flat'
        rw [hmm]
        obtain ⟨f2, g1, g2, g3⟩ := writeToMemory_spec flat a.toInt d h0
        rw [hfl] at g1; injection g1 with g1; subst g1
        rw [hsplit] at hnl1
        have hother : ∀ y ∈ pre ++ post, ∀ z : Nat, y.covers z = true →
            ¬ (a.toInt ≤ (z : Int) ∧ (z : Int) < a.toInt + (d.length : Nat) ∧ z < flat.length) := by
          intro y hy z hcz hin
          have hxz : x.covers z = true := by rw [covers_iff, hxw.hi, hxlo]; omega
          have := disjoint_of_ne hL (hi1.lwf.lines y (hold y hy)) hxw (hne y hy) z hcz
          rw [this] at hxz; cases hxz
        refine { len := by rw [g2]; exact hnl1.len, cached := ?_, uncached := ?_ }
        · intro y hy z hcz hz
          rw [g2] at hz
          rw [g3 z]
          rcases List.mem_append.mp hy with h1 | h1
          · simp only [hother y (List.mem_append_left _ h1) z hcz, if_false]
            exact hnl1.cached y (List.mem_append_left _ h1) z hcz hz
          · rcases List.mem_cons.mp h1 with rfl | h1
            · have hcz' : x.covers z = true := hcz
              have hzr := (covers_iff x z).mp hcz'
              rw [hxw.hi] at hzr
              show d'[((z : Int) - x.lo).toNat]? = _
              rw [hdget]
              by_cases hin : a.toInt ≤ (z : Int) ∧ (z : Int) < a.toInt + (d.length : Nat) ∧ z < flat.length
              · have h2 : (a.toInt - x.lo).toNat ≤ ((z : Int) - x.lo).toNat ∧
                    ((z : Int) - x.lo).toNat < (a.toInt - x.lo).toNat + d.length := by omega
                rw [if_pos h2, if_pos hin]
                congr 1; omega
              · have h2 : ¬ ((a.toInt - x.lo).toNat ≤ ((z : Int) - x.lo).toNat ∧
                    ((z : Int) - x.lo).toNat < (a.toInt - x.lo).toNat + d.length) := by omega
                rw [if_neg h2, if_neg hin]
                exact hnl1.cached x (by simp) z hcz' hz
            · simp only [hother y (List.mem_append_right _ h1) z hcz, if_false]
              exact hnl1.cached y (List.mem_append_right _ (List.mem_cons_of_mem _ h1)) z hcz hz
        · intro z hz hu
          rw [g2] at hz
          rw [g3 z]
          have hxz : x.covers z = false := hu { x with data := d' } (by simp)
          have hzr := (covers_false_iff x z).mp hxz
          rw [hxw.hi, hxlo] at hzr
          have hin : ¬ (a.toInt ≤ (z : Int) ∧ (z : Int) < a.toInt + (d.length : Nat) ∧ z < flat.length) := by omega
          rw [if_neg hin]
          apply hnl1.uncached z hz
          intro y hy
          rcases List.mem_append.mp hy with h1 | h1
          · exact hu y (List.mem_append_left _ h1)
          · rcases List.mem_cons.mp h1 with rfl | h1
            · exact hxz
            · exact hu y (List.mem_append_right _ (List.mem_cons_of_mem _ h1))
    · -- straight to memory
      have hpr' : present = false := by simpa using hpr
      simp only [hpr', Bool.false_eq_true, if_false] at h
      cases hwb : writeToMemory s1.mem a.toInt d with
      | error f => simp [hwb] at h
      | ok mem' =>
        simp only [hwb, pure, Except.pure] at h
        injection h with h
        subst h
        obtain ⟨m2, g1, g2, g3⟩ := writeToMemory_spec s1.mem a.toInt d h0
        rw [hwb] at g1; injection g1 with g1; subst g1
        -- no resident line meets the written bytes
        have hnone : ∀ y ∈ s1.l3.lines, ∀ z : Nat, y.covers z = true →
            ¬ (a.toInt ≤ (z : Int) ∧ (z : Int) < a.toInt + (d.length : Nat)) := by
          intro y hy z hcz hin
          have hyw := hi1.lwf.lines y hy
          have hyb := (hyw.covers_iff hL z (by omega)).mp hcz
          have hzb : base L a.toInt = base L (z : Int) :=
            (block_iff_base L (base L a.toInt) z (by omega) (by omega) hb3).mp (by omega)
          have hya : y.covers a.toInt = true := (hyw.covers_iff hL _ h0).mpr (by rw [hyb, hzb])
          have hcontra := hiff.mpr ⟨y, hperm.mem_iff.mp hy, hya⟩
          exact hpr hcontra
        refine ⟨?_, ?_, by show mem'.length = _; rw [g2, hm1]⟩
        · refine { lwf := hi1.lwf, lineLength := hi1.lineLength, clean := ?_, keys := hi1.keys }
          intro y hy hdy z hcz hz
          show y.data[((z : Int) - y.lo).toNat]? = mem'[z]?
          rw [g3 z]
          have := hnone y hy z hcz
          have hin : ¬ (a.toInt ≤ (z : Int) ∧ (z : Int) < a.toInt + (d.length : Nat) ∧ z < s1.mem.length) := fun h => this ⟨h.1, h.2.1⟩
          rw [if_neg hin]
          exact hi1.clean y hy hdy z hcz (by rw [← g2]; exact hz)
        · intro flat flat' hnl hfl
          have hnl1 : NL s1 flat := hnl.of_perm hm1 hperm
          unfold NL at hnl1 ⊢
          show Coh s1.l3.lines mem' flat'
          obtain ⟨f2, k1, k2, k3⟩ := writeToMemory_spec flat a.toInt d h0
          rw [hfl] at k1; injection k1 with k1; subst k1
          refine { len := by rw [g2, k2]; exact hnl1.len, cached := ?_, uncached := ?_ }
          · intro y hy z hcz hz
            rw [k2] at hz
            rw [k3 z]
            have := hnone y hy z hcz
            have hin : ¬ (a.toInt ≤ (z : Int) ∧ (z : Int) < a.toInt + (d.length : Nat) ∧ z < flat.length) := fun h => this ⟨h.1, h.2.1⟩
            rw [if_neg hin]
            exact hnl1.cached y hy z hcz hz
          · intro z hz hu
            rw [k2] at hz
            rw [g3 z, k3 z, hnl1.len]
            by_cases hin : a.toInt ≤ (z : Int) ∧ (z : Int) < a.toInt + (d.length : Nat) ∧ z < flat.length
            · rw [if_pos hin, if_pos hin]
            · rw [if_neg hin, if_neg hin]
              exact hnl1.uncached z hz hu

/-! ### the final write-back -/

theorem writeLines_ok {L : Nat} {flat : List Byte} : ∀ (ls : List Line) (mem : List Byte),
    (∀ l ∈ ls, LineWf L l) → Coh ls mem flat → ∃ mem', writeLines ls mem = .ok mem' ∧ Coh [] mem' flat := by
  intro ls
  induction ls with
  | nil => intro mem _ hc; exact ⟨mem, rfl, hc⟩
  | cons l ls ih =>
    intro mem hwf hc
    have hl := hwf l (by simp)
    obtain ⟨mem1, hwb, _, _⟩ := writeToMemory_spec mem l.lo l.data hl.nonneg
    have hc1 : Coh ([] ++ ls) mem1 flat := Coh.evict (pre := []) (by simpa using hc) hl hwb
    obtain ⟨mem', hf, hc'⟩ := ih mem1 (fun y hy => hwf y (by simp [hy])) (by simpa using hc1)
    refine ⟨mem', ?_, hc'⟩
    unfold writeLines
    simp only [hwb, bind, Except.bind, hf]

/-- **end of run**: `l3WriteBack()` succeeds and afterwards memory IS the next-level view; the view itself is
unchanged and the invariant holds (every line now equals memory) -/
theorem final_ok {L : Nat} {s : State} (hi : Inv L s) {flat : List Byte} (hnl : NL s flat) :
    ∃ s', finalWriteBack s = .ok s' ∧ s'.mem = flat ∧ Inv L s' ∧ NL s' flat := by
  obtain ⟨mem', hw, hc⟩ := writeLines_ok s.l3.lines s.mem hi.lwf.lines hnl
  have hm : mem' = flat := hc.nil_eq
  subst hm
  refine ⟨{ s with mem := mem' }, ?_, rfl, ?_, ?_⟩
  · unfold finalWriteBack LineCache.lines
    simp only [hw, bind, Except.bind]; rfl
  · refine { lwf := hi.lwf, lineLength := hi.lineLength, clean := ?_, keys := hi.keys }
    intro l hl _ x hcx hx
    exact hnl.cached l hl x hcx hx
  · exact hnl.flushed

/-! ### histories -/

/-- the constants as the proofs need them -/
structure CfgOk (cfg : Model.L3.Config) (L L1 : Nat) : Prop where
  l3 : cfg.l3LineSize = L
  l1 : cfg.l1LineSize = L1
  Lpos : 0 < L
  L1pos : 0 < L1
  div : (L1 : Int) ∣ (L : Int)

theorem mvp8Config_ok : CfgOk mvp8Config 128 64 :=
  { l3 := by decide, l1 := by decide, Lpos := by decide, L1pos := by decide, div := ⟨2, by decide⟩ }

/-- **every operation** (that returns) keeps the invariant and moves the next-level view as `flatStep` says:
not at all, except for an L1 write-back, which changes exactly the written bytes -/
theorem step_ok {cfg : Model.L3.Config} {L L1 : Nat} (hc : CfgOk cfg L L1) {s s' : State} (hi : Inv L s) (op : Model.L3.Op)
    (hop : Model.L3.okOp cfg op = true) (h : Model.L3.step cfg s op = .ok s') {flat : List Byte} (hnl : NL s flat) :
    Inv L s' ∧ NL s' (flatStep flat op) ∧ s'.mem.length = s.mem.length := by
  cases op with
  | fill addrs =>
    cases addrs with
    | nil => simp [Model.L3.okOp] at hop
    | cons a0 as =>
      simp only [Model.L3.okOp, hc.l3, Bool.and_eq_true, decide_eq_true_eq] at hop
      simp only [Model.L3.step, bind, Except.bind] at h
      cases hf : fill cfg s (a0 :: as) with
      | error f => simp [hf] at h
      | ok p =>
        obtain ⟨r, s1⟩ := p
        simp only [hf, pure, Except.pure] at h
        injection h with h
        subst h
        obtain ⟨h1, h2, h3⟩ := fill_ok hc.l3 hc.Lpos hi a0 as hop.1 hop.2 hf
        exact ⟨h1, h2 flat hnl, h3⟩
  | l1WriteBack a d =>
    simp only [Model.L3.okOp, hc.l1, Bool.and_eq_true, decide_eq_true_eq] at hop
    obtain ⟨⟨h0, hal⟩, hd⟩ := hop
    have hd' : d.length = L1 := by omega
    obtain ⟨h1, h2, h3⟩ := wb_ok hc.l3 hc.Lpos hc.L1pos hc.div hi a d h0 hal hd' h
    obtain ⟨f2, g1, _, _⟩ := writeToMemory_spec flat a.toInt d h0
    refine ⟨h1, ?_, h3⟩
    simp only [flatStep, g1]
    exact h2 flat f2 hnl g1
  | evict lo =>
    simp only [Model.L3.okOp, hc.l3, Bool.and_eq_true, decide_eq_true_eq] at hop
    obtain ⟨h1, h2, h3⟩ := evict_ok hc.Lpos hi lo hop.1 hop.2 h
    exact ⟨h1, h2 flat hnl, h3⟩
  | final =>
    obtain ⟨s2, hf, hm, h1, h2⟩ := final_ok hi hnl
    simp only [Model.L3.step] at h
    rw [hf] at h
    injection h with h
    subst h
    exact ⟨h1, h2, by rw [hm, hnl.len]⟩

/-- **all histories**: along every history of well-formed operations that does not panic the invariant holds and the
next-level view is the flat memory obtained by applying the write-backs alone -/
theorem run_ok {cfg : Model.L3.Config} {L L1 : Nat} (hc : CfgOk cfg L L1) :
    ∀ (ops : List Model.L3.Op) (s s' : State) (flat : List Byte), Inv L s → NL s flat → (∀ op ∈ ops, Model.L3.okOp cfg op = true) →
      Model.L3.run cfg s ops = .ok s' → Inv L s' ∧ NL s' (ops.foldl flatStep flat) := by
  intro ops
  induction ops with
  | nil =>
    intro s s' flat hi hnl _ h
    simp only [Model.L3.run, pure, Except.pure] at h
    injection h with h
    subst h
    exact ⟨hi, hnl⟩
  | cons op ops ih =>
    intro s s' flat hi hnl hok h
    simp only [Model.L3.run, bind, Except.bind] at h
    cases hs : Model.L3.step cfg s op with
    | error f => simp [hs] at h
    | ok s1 =>
      simp only [hs] at h
      obtain ⟨h1, h2, _⟩ := step_ok hc hi op (hok op (by simp)) hs hnl
      exact ih s1 s' _ h1 h2 (fun o ho => hok o (by simp [ho])) h

/-- the initial state: empty L3, no flag; the view is the memory -/
theorem init_ok {cfg : Model.L3.Config} {L L1 : Nat} (hc : CfgOk cfg L L1) (mem : List Byte) (s0 : State)
    (h : Model.L3.new cfg mem = .ok s0) : Inv L s0 ∧ NL s0 mem := by
  unfold Model.L3.new at h
  cases hn : Model.Mmu.newCache cfg.l3LineSize cfg.l3Size with
  | error f => simp [hn, bind, Except.bind] at h
  | ok c =>
    simp only [hn, bind, Except.bind, pure, Except.pure] at h
    injection h with h
    subst h
    have hcl : c.lines = [] ∧ c.lineLength = L := by
      unfold Model.Mmu.newCache LineCache.new at hn
      rw [hc.l3] at hn
      repeat' split at hn
      all_goals first
        | (simp [throw, throwThe, MonadExceptOf.throw] at hn; done)
        | (simp only [pure, Except.pure] at hn; injection hn with hn; rw [← hn]; exact ⟨rfl, by simp⟩)
    refine ⟨{ lwf := ?_, lineLength := hcl.2, clean := ?_, keys := ?_ }, ?_⟩
    · show LWf L c.lines
      rw [hcl.1]; exact { lines := fun l hl => (by cases hl), distinct := List.Pairwise.nil }
    · intro l hl; change l ∈ c.lines at hl; rw [hcl.1] at hl; cases hl
    · intro a ha; cases ha
    · show Coh c.lines mem mem
      rw [hcl.1]
      exact { len := rfl, cached := fun l hl => (by cases hl), uncached := fun _ _ _ => rfl }

/-! ### the monitor's decidable predicate follows from the invariant -/

theorem lineClean_of {L : Nat} {mem : List Byte} {l : Line} (hw : LineWf L l) (hc : LineClean mem l) :
    lineClean mem l = true := by
  unfold lineClean
  rw [List.all_eq_true]
  intro i hi
  have hi' : i < l.data.length := List.mem_range.mp hi
  rw [hw.len] at hi'
  have hn := hw.nonneg
  cases hm : mem[(l.lo + (i : Int)).toNat]? with
  | none => rfl
  | some b =>
    have hlt : (l.lo + (i : Int)).toNat < mem.length := by
      by_cases h : (l.lo + (i : Int)).toNat < mem.length
      · exact h
      · rw [List.getElem?_eq_none (by omega)] at hm; cases hm
    have hcov : l.covers (((l.lo + (i : Int)).toNat : Nat) : Int) = true := by
      rw [covers_iff, hw.hi]; omega
    have := hc (l.lo + (i : Int)).toNat hcov hlt
    have e : ((((l.lo + (i : Int)).toNat : Nat) : Int) - l.lo).toNat = i := by omega
    rw [e, hm] at this
    simp [this]

/-- `Model.L3.cleanB` — what the monitor evaluates on real snapshots — holds in every state that satisfies the invariant -/
theorem cleanB_of_inv {cfg : Model.L3.Config} {L : Nat} (hcfg : cfg.l3LineSize = L) {s : State} (hi : Inv L s) :
    cleanB cfg s = true := by
  unfold cleanB cleanLinesB dirtyKeysB
  simp only [Bool.and_eq_true, List.all_eq_true, Bool.or_eq_true, decide_eq_true_eq, List.any_eq_true, beq_iff_eq]
  constructor
  · intro l hl
    cases hd : isDirty s l.lo with
    | true => exact Or.inl rfl
    | false => exact Or.inr (lineClean_of (hi.lwf.lines l hl) (hi.clean l hl hd))
  · intro a ha
    obtain ⟨l, hl, hla⟩ := hi.keys a ha
    have hw := hi.lwf.lines l hl
    refine ⟨?_, l, hl, hla⟩
    rw [hcfg, ← hla, Int.tmod_eq_emod_of_nonneg hw.nonneg]
    exact hw.aligned

/-! ### the snapshot form of `cleanB` -/

theorem all_congr_mem {α} (l : List α) (p q : α → Bool) (h : ∀ a ∈ l, p a = q a) : l.all p = l.all q := by
  induction l with
  | nil => rfl
  | cons x xs ih =>
    simp only [List.all_cons, h x (by simp), ih (fun a ha => h a (by simp [ha]))]

theorem lineClean_reloc (mem : List Byte) (l : Line) (h0 : 0 ≤ l.lo) :
    lineClean ((mem.drop l.lo.toNat).take l.data.length) { lo := 0, hi := l.data.length, data := l.data } = lineClean mem l := by
  unfold lineClean
  refine all_congr_mem _ _ _ (fun i hi => ?_)
  have hi' : i < l.data.length := List.mem_range.mp hi
  have e1 : ((0 : Int) + (i : Int)).toNat = i := by omega
  have e2 : (l.lo + (i : Int)).toNat = l.lo.toNat + i := by omega
  simp only [e1, e2, List.getElem?_take, hi', if_true, List.getElem?_drop]
  have g1 : ¬ ((0 : Int) + (i : Int) < 0) := by omega
  have g2 : ¬ (l.lo + (i : Int) < 0) := by omega
  simp only [g1, g2, decide_false, Bool.false_or]

/-- the predicate the C06 monitor evaluates on exported snapshots IS `cleanB` of the state -/
theorem cleanSnapB_snapshotOf (cfg : Model.L3.Config) (s : State) (h0 : ∀ l ∈ s.l3.lines, 0 ≤ l.lo) :
    cleanSnapB cfg (snapshotOf s) s.dirty = cleanB cfg s := by
  unfold cleanSnapB cleanB cleanSnapLinesB cleanLinesB cleanSnapKeysB dirtyKeysB snapshotOf
  congr 1
  · rw [List.all_map]
    refine all_congr_mem _ _ _ (fun l hl => ?_)
    simp only [Function.comp]
    rw [lineClean_reloc s.mem l (h0 l hl)]
  · refine all_congr_mem _ _ _ (fun a _ => ?_)
    rw [List.any_map]
    rfl

end Proofs.L3

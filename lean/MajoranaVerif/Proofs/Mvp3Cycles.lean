/-
  Proofs/Mvp3Cycles.lean — cycle bounds of the MVP-3 model that hold for EVERY program,
  initial state and fuel (no hypothesis on the accesses): a shape invariant of the two
  caches (every line has `lineLength` bytes and bounds `[lo, lo + lineLength)`, the data
  cache never holds more than `numberOfLines` lines between two iterations) is preserved
  by every iteration whatever the instruction does; under it a fetch never panics, every
  started iteration costs between 1 and
  `MemoryAccess + decode + (L1Access + MemoryAccess) + 50 + MemoryAccess` cycles, and the
  final `flush()` costs at most `numberOfLines · MemoryAccess`.  Core Lean only.
-/
import MajoranaVerif.Proofs.Mvp3
open GoInt LineCache

namespace Proofs.Mvp3Cycles
open Model.Seq Model.Mmu Model.Mvp3 Proofs.Mmu Proofs.Mvp3 Proofs.LC

/-- shape of the data cache (no distinctness, no bounds on the addresses: holds whatever the program does):
every resident line is a full, `lineLength`-aligned block whose `int32` upper bound did not wrap -/
structure DShape (L n : Nat) (c : Cache) : Prop where
  lineLength : c.lineLength = L
  numberOfLines : c.numberOfLines = n
  lines : ∀ l ∈ c.lines, l.hi = l.lo + L ∧ l.data.length = L ∧ (L : Int) ∣ l.lo ∧ l.lo + L < 2 ^ 31
  count : c.lines.length ≤ n

theorem DShape.perm {L n : Nat} {c : Cache} (h : DShape L n c) (ls : List Line) (hp : ls.Perm c.lines) :
    DShape L n { c with lines := ls } :=
  { lineLength := h.lineLength, numberOfLines := h.numberOfLines,
    lines := fun l hl => h.lines l (hp.mem_iff.mp hl), count := by rw [hp.length_eq]; exact h.count }

/-- Go's `addr - addr % L` is a multiple of `L` and lies within `L` of the address -/
theorem base_dvd (L a : Int) : L ∣ base L a := by
  unfold base
  have := Int.mul_tdiv_add_tmod a L
  exact ⟨a.tdiv L, by omega⟩

theorem base_near (L a : Int) (hL : 0 < L) : a - L < base L a ∧ base L a < a + L := by
  unfold base
  have h1 := Int.tmod_lt_of_pos a hL
  have h2 := Int.lt_tmod_of_pos a hL
  omega

/-! ### the cache operations keep the shape, whatever they are asked -/

theorem get_perm {c c' : Cache} {a : Int} {v : Option Byte} (h : LineCache.get c a = .ok (v, c')) :
    ∃ ls, c' = { c with lines := ls } ∧ ls.Perm c.lines := by
  unfold LineCache.get at h
  cases hs : splitAt a c.lines with
  | none =>
    simp only [hs, pure, Except.pure] at h
    injection h with h; injection h with _ h
    exact ⟨c.lines, by rw [← h], List.Perm.refl _⟩
  | some r =>
    obtain ⟨pre, l, post⟩ := r
    obtain ⟨hsplit, _, _⟩ := splitAt_some hs
    simp only [hs, bind, Except.bind] at h
    cases hat : l.at a with
    | error f => simp [hat] at h
    | ok b =>
      simp only [hat, pure, Except.pure] at h
      injection h with h; injection h with _ h
      exact ⟨l :: (pre ++ post), h.symm, by rw [hsplit]; exact touch_perm pre post l⟩

theorem getAll_perm : ∀ (addrs : List Word) (c c' : Cache) (r : Option (List Byte)),
    getAll c addrs = .ok (r, c') → ∃ ls, c' = { c with lines := ls } ∧ ls.Perm c.lines := by
  intro addrs
  induction addrs with
  | nil =>
    intro c c' r h
    simp only [getAll, pure, Except.pure] at h
    injection h with h; injection h with _ h
    exact ⟨c.lines, by rw [← h], List.Perm.refl _⟩
  | cons a as ih =>
    intro c c' r h
    unfold getAll at h
    cases hg : LineCache.get c a.toInt with
    | error f => simp [hg, bind, Except.bind] at h
    | ok p =>
      obtain ⟨v, c1⟩ := p
      obtain ⟨ls1, hc1, hp1⟩ := get_perm hg
      simp only [hg, bind, Except.bind] at h
      cases v with
      | none =>
        simp only [pure, Except.pure] at h
        injection h with h; injection h with _ h
        exact ⟨ls1, by rw [← h, hc1], hp1⟩
      | some b =>
        simp only at h
        cases hr : getAll c1 as with
        | error f => simp [hr] at h
        | ok q =>
          obtain ⟨r2, c2⟩ := q
          obtain ⟨ls2, hc2, hp2⟩ := ih c1 c2 r2 hr
          simp only [hr, pure, Except.pure] at h
          injection h with h; injection h with _ h
          refine ⟨ls2, ?_, ?_⟩
          · rw [← h, hc2, hc1]
          · rw [hc1] at hp2; exact hp2.trans hp1

theorem getFromL1D_shape {L n : Nat} {u u' : Mmu} {addrs : List Word} {r : Option (List Byte)}
    (h : getFromL1D u addrs = .ok (r, u')) (hs : DShape L n u.l1d) : DShape L n u'.l1d ∧ u'.l1i = u.l1i := by
  unfold getFromL1D at h
  cases hg : getAll u.l1d addrs with
  | error f => simp [hg, bind, Except.bind] at h
  | ok p =>
    obtain ⟨r1, c1⟩ := p
    obtain ⟨ls, hc, hp⟩ := getAll_perm addrs u.l1d c1 r1 hg
    simp only [hg, bind, Except.bind, pure, Except.pure] at h
    injection h with h; injection h with _ h
    rw [← h, hc]
    exact ⟨hs.perm ls hp, rfl⟩

theorem fetchCacheLine_len {cfg : Config} {L : Nat} (hcfg : cfg.l1DLineSize = L) {mem line : List Byte} {a : Word}
    (h : fetchCacheLine cfg mem a = .ok line) : line.length = L := by
  unfold fetchCacheLine at h
  rw [hcfg] at h
  cases ha : LineCache.alignDown a.toInt (L : Int) with
  | error f => simp [ha, bind, Except.bind] at h
  | ok lo =>
    simp only [ha, bind, Except.bind] at h
    have h1 : ¬ ((L : Int) < 0) := by omega
    simp only [h1, if_false] at h
    by_cases h2 : (L : Int) = 0
    · simp only [h2, if_true, pure, Except.pure] at h
      injection h with h
      rw [← h]; simp; omega
    · simp only [h2, if_false] at h
      by_cases h3 : lo < 0
      · simp [h3, throw, throwThe, MonadExceptOf.throw] at h
      · simp only [h3, if_false, pure, Except.pure, Int.toNat_natCast] at h
        injection h with h
        rw [← h]; exact padTake_length _ _

theorem evict_lines {c c' : Cache} {a : Int} {r : Option (List Byte)} (h : evictCacheLine c a = .ok (r, c')) :
    ∀ y ∈ c'.lines, y ∈ c.lines := by
  unfold evictCacheLine at h
  cases hsp : splitAt a c.lines with
  | none =>
    simp only [hsp, pure, Except.pure] at h
    injection h with h; injection h with _ h
    rw [← h]; exact fun y hy => hy
  | some q =>
    obtain ⟨pre, x, post⟩ := q
    obtain ⟨hsplit, _, _⟩ := splitAt_some hsp
    simp only [hsp, bind, Except.bind] at h
    cases hat : x.at a with
    | error f => simp [hat] at h
    | ok b =>
      simp only [hat, pure, Except.pure] at h
      injection h with h; injection h with _ h
      rw [← h, hsplit]
      exact fun y hy => mem_middle hy

/-- the lines after `pushLineToL1D`: old lines, or the new block (with its `int32` upper bound) -/
theorem pushLineToL1D_lines {cfg : Config} {u u' : Mmu} {mem mem' line : List Byte} {a : Word} {lo : Int}
    (ha : LineCache.alignDown a.toInt cfg.l1DLineSize = .ok lo)
    (h : pushLineToL1D cfg u mem a line = .ok (u', mem')) :
    ∀ y ∈ u'.l1d.lines, y ∈ u.l1d.lines ∨
      (y.lo = lo ∧ y.hi = wrap32 (lo + (u.l1d.lineLength : Int)) ∧ y.data = line) := by
  unfold pushLineToL1D at h
  simp only [ha, bind, Except.bind, pushLineWithEvictionWarning] at h
  have hmem : ∀ y ∈ (fixHead ({ u.l1d with lines := LineCache.newLine u.l1d lo line :: u.l1d.lines } : Cache)).lines,
      y ∈ u.l1d.lines ∨ (y.lo = lo ∧ y.hi = wrap32 (lo + (u.l1d.lineLength : Int)) ∧ y.data = line) := by
    intro y hy
    simp only [fixHead] at hy
    rcases List.mem_cons.mp hy with h | h
    · right; rw [h]; exact ⟨rfl, rfl, rfl⟩
    · exact Or.inl h
  by_cases hfull : (LineCache.newLine u.l1d lo line :: u.l1d.lines).length > u.l1d.numberOfLines
  · simp only [hfull, if_true] at h
    cases hlast : (LineCache.newLine u.l1d lo line :: u.l1d.lines).getLast? with
    | none => simp at hlast
    | some ev =>
      simp only [hlast] at h
      generalize hc1 : fixHead _ = c1 at h
      have hm1 : ∀ y ∈ c1.lines, y ∈ u.l1d.lines ∨ (y.lo = lo ∧ y.hi = wrap32 (lo + (u.l1d.lineLength : Int)) ∧ y.data = line) := by
        rw [← hc1]; exact hmem
      cases hev : evictCacheLine c1 ev.lo with
      | error f => simp [hev] at h
      | ok q =>
        obtain ⟨r, c2⟩ := q
        simp only [hev] at h
        cases hwb : writeToMemory mem ev.lo ev.data with
        | error f => simp [hwb] at h
        | ok m2 =>
          simp only [hwb, pure, Except.pure] at h
          injection h with h; injection h with h _
          rw [← h]
          exact fun y hy => hm1 y (evict_lines hev y hy)
  · simp only [hfull, if_false, pure, Except.pure] at h
    injection h with h; injection h with h _
    rw [← h]
    exact hmem

/-- `pushLineToL1D` keeps the shape when the new block's upper bound does not wrap -/
theorem pushLineToL1D_shape {cfg : Config} {L n : Nat} (hcfg : cfg.l1DLineSize = L) (hL : 0 < L) {u u' : Mmu}
    {mem mem' line : List Byte} {a : Word}
    (h : pushLineToL1D cfg u mem a line = .ok (u', mem')) (hlen : line.length = L) (hs : DShape L n u.l1d)
    (hnowrap : base L a.toInt + L < 2 ^ 31) :
    DShape L n u'.l1d ∧ u'.l1i = u.l1i := by
  have ha : LineCache.alignDown a.toInt cfg.l1DLineSize = .ok (base L a.toInt) := by
    rw [hcfg]; exact alignDown_ok _ _ (by omega)
  generalize hlo : base (L : Int) a.toInt = lo at ha hnowrap
  have hdvd : (L : Int) ∣ lo := by rw [← hlo]; exact base_dvd _ _
  have hnear := base_near L a.toInt (by omega)
  rw [hlo] at hnear
  have hage := BitVec.le_toInt a
  unfold pushLineToL1D at h
  simp only [ha, bind, Except.bind, pushLineWithEvictionWarning] at h
  have hfix : fixHead ({ u.l1d with lines := LineCache.newLine u.l1d lo line :: u.l1d.lines } : Cache) =
      { u.l1d with lines := LineCache.newLine u.l1d lo line :: u.l1d.lines } := by
    apply fixHead_id _ _ _ rfl
    apply wrap32_id
    · show -(2 ^ 31) ≤ lo + (u.l1d.lineLength : Int)
      rw [hs.lineLength]; simp at hage; omega
    · show lo + (u.l1d.lineLength : Int) < 2 ^ 31; rw [hs.lineLength]; exact hnowrap
  have hnew : ∀ l ∈ LineCache.newLine u.l1d lo line :: u.l1d.lines,
      l.hi = l.lo + L ∧ l.data.length = L ∧ (L : Int) ∣ l.lo ∧ l.lo + L < 2 ^ 31 := by
    intro l hl
    rcases List.mem_cons.mp hl with rfl | hl
    · exact ⟨by show lo + (u.l1d.lineLength : Int) = lo + L; rw [hs.lineLength], hlen, hdvd, hnowrap⟩
    · exact hs.lines l hl
  by_cases hfull : (LineCache.newLine u.l1d lo line :: u.l1d.lines).length > u.l1d.numberOfLines
  · simp only [hfull, if_true, hfix] at h
    cases hlast : (LineCache.newLine u.l1d lo line :: u.l1d.lines).getLast? with
    | none => simp at hlast
    | some ev =>
      simp only [hlast] at h
      have hevm : ev ∈ LineCache.newLine u.l1d lo line :: u.l1d.lines := List.mem_of_getLast? hlast
      have hev := hnew ev hevm
      have hcov : ev.covers ev.lo = true := by rw [Proofs.LC.covers_iff, hev.1]; omega
      obtain ⟨pre, x, post, hsp⟩ := splitAt_isSome (a := ev.lo) ⟨ev, hevm, hcov⟩
      obtain ⟨hsplit, _, _⟩ := splitAt_some hsp
      simp only [evictCacheLine, hsp, bind, Except.bind] at h
      cases hat : x.at ev.lo with
      | error f => simp [hat] at h
      | ok b =>
        simp only [hat, pure, Except.pure] at h
        cases hwb : writeToMemory mem ev.lo ev.data with
        | error f => simp [hwb] at h
        | ok m2 =>
          simp only [hwb] at h
          injection h with h; injection h with h _
          rw [← h]
          refine ⟨?_, rfl⟩
          have hlen2 : (LineCache.newLine u.l1d lo line :: u.l1d.lines).length = pre.length + post.length + 1 := by
            rw [hsplit]; simp; omega
          exact { lineLength := hs.lineLength, numberOfLines := hs.numberOfLines,
                  lines := fun l hl => hnew l (by rw [hsplit]; exact mem_middle hl),
                  count := by
                    have := hs.count
                    simp only [List.length_cons] at hlen2
                    simp only [List.length_append]; omega }
  · simp only [hfull, if_false, pure, Except.pure, hfix] at h
    injection h with h; injection h with h _
    rw [← h]
    exact ⟨{ lineLength := hs.lineLength, numberOfLines := hs.numberOfLines, lines := hnew,
             count := by rw [← hs.numberOfLines]; exact Nat.le_of_not_gt hfull }, rfl⟩

theorem setFrom_length : ∀ (vs d : List Byte) (off : Nat), (setFrom d off vs).1.length = d.length
  | [], d, off => by simp [setFrom]
  | v :: vs, d, off => by
    unfold setFrom
    split
    · rw [setFrom_length vs (d.set off v) (off + 1)]; simp
    · rfl

theorem write_shape {L n : Nat} {c c' : Cache} {a : Int} {d : List Byte} (h : LineCache.write c a d = .ok c')
    (hs : DShape L n c) : DShape L n c' := by
  unfold LineCache.write at h
  have hc' : c' = writeState c a d := by
    cases hr : (writeRaw c a d).2 with
    | none => simp only [hr, pure, Except.pure] at h; injection h with h; exact h.symm
    | some f => simp [hr, throw, throwThe, MonadExceptOf.throw] at h
  rw [hc']
  unfold writeState writeRaw
  cases hsp : splitAt a c.lines with
  | none => simpa using hs
  | some r =>
    obtain ⟨pre, l, post⟩ := r
    obtain ⟨hsplit, _, _⟩ := splitAt_some hsp
    simp only
    cases hl : l.data[(a - l.lo).toNat]? with
    | none => simpa using hs
    | some _ =>
      simp only
      have hlm := hs.lines l (by rw [hsplit]; simp)
      refine { lineLength := hs.lineLength, numberOfLines := hs.numberOfLines, lines := ?_, count := ?_ }
      · intro y hy
        rcases List.mem_append.mp hy with hy | hy
        · exact hs.lines y (by rw [hsplit]; exact List.mem_append_left _ hy)
        · rcases List.mem_cons.mp hy with rfl | hy
          · exact ⟨hlm.1, by show (setFrom l.data (a - l.lo).toNat d).1.length = L; rw [setFrom_length]; exact hlm.2.1, hlm.2.2⟩
          · exact hs.lines y (by rw [hsplit]; exact List.mem_append_right _ (List.mem_cons_of_mem _ hy))
      · have := hs.count
        rw [hsplit] at this
        simpa using this

theorem wrap32_high (x : Int) (h1 : 2 ^ 31 ≤ x) (h2 : x < 2 ^ 32) : wrap32 x = x - 2 ^ 32 := by
  unfold wrap32
  rw [BitVec.toInt_ofInt, Int.bmod_def]
  have : x % ((2 ^ 32 : Nat) : Int) = x := Int.emod_eq_of_lt (by omega) (by omega)
  rw [this]
  simp only [Nat.reducePow]
  split <;> omega

theorem dvd_gap (L x y : Int) (hL : 0 < L) (hx : L ∣ x) (hy : L ∣ y) (hlt : y < x) : y + L ≤ x := by
  obtain ⟨kx, rfl⟩ := hx
  obtain ⟨ky, rfl⟩ := hy
  have h1 : ky < kx := Int.lt_of_mul_lt_mul_left hlt (Int.le_of_lt hL)
  have h2 : L * (ky + 1) ≤ L * kx := Int.mul_le_mul_of_nonneg_left (by omega) (Int.le_of_lt hL)
  rw [Int.mul_add, Int.mul_one] at h2
  exact h2

/-- when the block of `a0` would end at or beyond 2^31, no line of the cache covers `a0` after the push:
the pushed line has a negative upper bound, and the shaped (aligned, unwrapped) old lines end below it -/
theorem wrapped_not_covered {cfg : Config} {L n : Nat} (hcfg : cfg.l1DLineSize = L) (hL : 0 < L) (hLs : L ≤ 2 ^ 30)
    {u u' : Mmu} {mem mem' line : List Byte} {a0 : Word}
    (hp : pushLineToL1D cfg u mem a0 line = .ok (u', mem')) (hs : DShape L n u.l1d)
    (hwrap : ¬ base L a0.toInt + L < 2 ^ 31) :
    ∀ y ∈ u'.l1d.lines, y.covers a0.toInt = false := by
  have ha : LineCache.alignDown a0.toInt cfg.l1DLineSize = .ok (base L a0.toInt) := by
    rw [hcfg]; exact alignDown_ok _ _ (by omega)
  have hnear := base_near L a0.toInt (by omega)
  have hlt := BitVec.toInt_lt (x := a0)
  simp only [Nat.add_one_sub_one] at hlt
  have ha0 : 0 ≤ a0.toInt := by omega
  obtain ⟨hb0, hb1, hb2, hb3⟩ := base_spec L a0.toInt (by omega) ha0
  have hbd : (L : Int) ∣ base L a0.toInt := base_dvd _ _
  intro y hy
  rw [covers_false_iff]
  rcases pushLineToL1D_lines ha hp y hy with hold | ⟨hlo, hhi, _⟩
  · obtain ⟨h1, _, h3, h4⟩ := hs.lines y hold
    intro hc
    rw [h1] at hc
    have := dvd_gap L (base L a0.toInt) y.lo (by omega) hbd h3 (by omega)
    omega
  · rw [hlo, hhi, hs.lineLength, wrap32_high _ (by omega) (by omega)]
    omega

/-! ### the three memory-system parts of an iteration: shape and cost -/

theorem fetch_shape {cfg : Config} {Li : Nat} (hcfg : cfg.l1ILineSize = Li) {u : Mmu} (hi : IWf Li u.l1i) (pc : Word) :
    ∃ u' f, Model.Mvp3.fetch cfg u pc = .ok (u', f) ∧ u'.l1d = u.l1d ∧ IWf Li u'.l1i ∧
      (f = Gen.Latency.L1Access ∨ f = Gen.Latency.MemoryAccess) := fetch_ok hcfg hi pc

theorem load_shape {cfg : Config} {L n : Nat} (hcfg : cfg.l1DLineSize = L) (hL : 0 < L) (hLs : L ≤ 2 ^ 30) {u u' : Mmu}
    {mem mem' bytes : List Byte} {addrs : List Word} {mr : Int}
    (h : Model.Mvp3.load cfg u mem addrs = .ok (bytes, u', mem', mr)) (hs : DShape L n u.l1d) :
    DShape L n u'.l1d ∧ u'.l1i = u.l1i ∧
      (mr = 0 ∨ mr = Gen.Latency.L1Access ∨ mr = Gen.Latency.L1Access + Gen.Latency.MemoryAccess) := by
  unfold Model.Mvp3.load at h
  cases addrs with
  | nil =>
    simp only [pure, Except.pure] at h
    injection h with h
    simp only [Prod.mk.injEq] at h
    obtain ⟨_, hu, _, hmr⟩ := h
    rw [← hu, ← hmr]; exact ⟨hs, rfl, Or.inl rfl⟩
  | cons a0 as =>
    simp only [bind, Except.bind] at h
    cases hg : getFromL1D u (a0 :: as) with
    | error f => simp [hg] at h
    | ok p =>
      obtain ⟨r, u1⟩ := p
      obtain ⟨hs1, hi1⟩ := getFromL1D_shape hg hs
      simp only [hg] at h
      cases r with
      | some bs =>
        simp only [pure, Except.pure] at h
        injection h with h
        simp only [Prod.mk.injEq] at h
        obtain ⟨_, hu, _, hmr⟩ := h
        rw [← hu, ← hmr]; exact ⟨hs1, hi1, Or.inr (Or.inl rfl)⟩
      | none =>
        simp only at h
        cases hf : fetchCacheLine cfg mem a0 with
        | error f => simp [hf] at h
        | ok line =>
          simp only [hf] at h
          cases hp : pushLineToL1D cfg u1 mem a0 line with
          | error f => simp [hp] at h
          | ok q =>
            obtain ⟨u2, mem2⟩ := q
            simp only [hp] at h
            by_cases hnw : base L a0.toInt + L < 2 ^ 31
            · obtain ⟨hs2, hi2⟩ := pushLineToL1D_shape hcfg hL hp (fetchCacheLine_len hcfg hf) hs1 hnw
              cases hg2 : getFromL1D u2 (a0 :: as) with
              | error f => simp [hg2] at h
              | ok q2 =>
                obtain ⟨r2, u3⟩ := q2
                obtain ⟨hs3, hi3⟩ := getFromL1D_shape hg2 hs2
                simp only [hg2] at h
                cases r2 with
                | none => simp [throw, throwThe, MonadExceptOf.throw] at h
                | some bs =>
                  simp only [pure, Except.pure] at h
                  injection h with h
                  simp only [Prod.mk.injEq] at h
                  obtain ⟨_, hu, _, hmr⟩ := h
                  rw [← hu, ← hmr]; exact ⟨hs3, by rw [hi3, hi2, hi1], Or.inr (Or.inr rfl)⟩
            · -- the pushed line's upper bound wrapped: the second lookup misses, Go panics
              have hnc := wrapped_not_covered hcfg hL hLs hp hs1 hnw
              rw [getFromL1D_miss a0 as hnc] at h
              simp [throw, throwThe, MonadExceptOf.throw] at h

theorem store_shape {L n : Nat} {u u' : Mmu} {ctx ctx' : Model.Context} {e : Gen.Execution} {wb : Int}
    (h : Model.Mvp3.store u ctx e = .ok (u', ctx', wb)) (hs : DShape L n u.l1d) :
    DShape L n u'.l1d ∧ u'.l1i = u.l1i ∧ (wb = Gen.Latency.L1Access ∨ wb = Gen.Latency.MemoryAccess) := by
  unfold Model.Mvp3.store doesExecutionMemoryChangesExistsInL1D at h
  simp only [bind, Except.bind] at h
  cases hg : getFromL1D u (e.MemoryChanges.map (·.1)) with
  | error f => simp [hg] at h
  | ok p =>
    obtain ⟨r, u1⟩ := p
    obtain ⟨hs1, hi1⟩ := getFromL1D_shape hg hs
    simp only [hg, pure, Except.pure] at h
    by_cases hex : r.isSome = true
    · simp only [hex, if_true] at h
      cases hw : writeExecutionMemoryChangesToL1D u1 e with
      | error f => simp [hw] at h
      | ok u2 =>
        simp only [hw] at h
        injection h with h
        simp only [Prod.mk.injEq] at h
        obtain ⟨hu, _, hwb⟩ := h
        rw [← hu, ← hwb]
        unfold writeExecutionMemoryChangesToL1D at hw
        cases hsc : sortChanges e.MemoryChanges with
        | nil => simp [hsc, throw, throwThe, MonadExceptOf.throw] at hw
        | cons q qs =>
          simp only [hsc, writeToL1D, bind, Except.bind] at hw
          split at hw
          · cases hw
          · rename_i c2 hwr
            simp only [pure, Except.pure] at hw
            injection hw with hw
            rw [← hw]
            exact ⟨write_shape hwr hs1, hi1, Or.inl rfl⟩
    · simp only [hex, Bool.false_eq_true, if_false] at h
      cases hwm : writeMemory ctx e with
      | none => simp [hwm, throw, throwThe, MonadExceptOf.throw] at h
      | some c =>
        simp only [hwm] at h
        injection h with h
        simp only [Prod.mk.injEq] at h
        obtain ⟨hu, _, hwb⟩ := h
        rw [← hu, ← hwb]
        exact ⟨hs1, hi1, Or.inr rfl⟩

/-! ### one iteration: shape kept, cost bounded -/

structure Shape (L n Li : Nat) (s : State) : Prop where
  d : DShape L n s.mmu.l1d
  i : IWf Li s.mmu.l1i

/-- what one started iteration costs, fetch included -/
def CostB (dc f : Int) (c : StepCost) : Prop :=
  1 ≤ f + c.total ∧
  f + c.total ≤ Gen.Latency.MemoryAccess + dc + (Gen.Latency.L1Access + Gen.Latency.MemoryAccess) + 50 + Gen.Latency.MemoryAccess

def StepShape (L n Li : Nat) (dc : Int) : Model.Mvp3.StepResult → Prop
  | .next s' f c => Shape L n Li s' ∧ CostB dc f c
  | .halt h s' f c => Shape L n Li s' ∧ (h = .offEnd ∨ CostB dc f c)

theorem costB_of {dc f : Int} (hdc : 0 ≤ dc) (hf : f = Gen.Latency.L1Access ∨ f = Gen.Latency.MemoryAccess)
    {d mr ex wb : Int} (hd : d = 0 ∨ d = dc)
    (hmr : mr = 0 ∨ mr = Gen.Latency.L1Access ∨ mr = Gen.Latency.L1Access + Gen.Latency.MemoryAccess)
    (hex0 : 0 ≤ ex) (hex : ex ≤ 50) (hwb0 : 0 ≤ wb) (hwb : wb ≤ Gen.Latency.MemoryAccess) :
    CostB dc f ⟨d, mr, ex, wb⟩ := by
  have hl1 : 1 ≤ Gen.Latency.L1Access := by decide
  have hl1m : Gen.Latency.L1Access ≤ Gen.Latency.MemoryAccess := Proofs.Seq.l1_le_mem
  unfold CostB StepCost.total
  simp only
  rcases hf with rfl | rfl <;> rcases hd with rfl | rfl <;> rcases hmr with rfl | rfl | rfl <;> constructor <;> omega

theorem step_shape {cfg : Config} {L n Li : Nat} (hcfg : CfgOk cfg L n Li) (hLs : L ≤ 2 ^ 30) (dc : Int) (hdc : 0 ≤ dc) (app : App)
    {s : State} (hs : Shape L n Li s) : StepShape L n Li dc (Model.Mvp3.step cfg dc app s) := by
  have hmem := mem_nonneg
  have h050 : (0 : Int) ≤ 50 := by decide
  unfold Model.Mvp3.step
  simp only
  by_cases h1 : Int.tdiv s.arch.pc.toInt 4 < app.instrs.length
  · simp only [h1, not_true_eq_false, if_false]
    obtain ⟨u1, f, hf, hfd, hfi, hfc⟩ := fetch_shape hcfg.iline hs.i s.arch.pc
    simp only [hf]
    have hd1 : DShape L n u1.l1d := by rw [hfd]; exact hs.d
    have hs1 : ∀ ar : Arch, Shape L n Li ⟨ar, u1⟩ := fun ar => ⟨hd1, hfi⟩
    by_cases h2 : Int.tdiv s.arch.pc.toInt 4 < 0
    · simp only [h2, if_true, StepShape]
      exact ⟨hs1 _, Or.inr (costB_of hdc hfc (Or.inl rfl) (Or.inl rfl) (Int.le_refl 0) h050 (Int.le_refl 0) hmem)⟩
    · simp only [h2, if_false]
      cases h3 : app.instrs[(Int.tdiv s.arch.pc.toInt 4).toNat]? with
      | none =>
        simp only [StepShape]
        exact ⟨hs1 _, Or.inr (costB_of hdc hfc (Or.inl rfl) (Or.inl rfl) (Int.le_refl 0) h050 (Int.le_refl 0) hmem)⟩
      | some i =>
        simp only
        cases hld : Model.Mvp3.load cfg u1 s.arch.ctx.Memory (i.memoryRead s.arch.ctx 0#32) with
        | error fl =>
          simp only [StepShape]
          exact ⟨hs1 _, Or.inr (costB_of hdc hfc (Or.inr rfl) (Or.inl rfl) (Int.le_refl 0) h050 (Int.le_refl 0) hmem)⟩
        | ok p =>
          obtain ⟨bytes, u2, mem2, mr⟩ := p
          obtain ⟨hd2, hi2, hmr⟩ := load_shape hcfg.dline hcfg.Lpos hLs hld hd1
          have hs2 : ∀ ar : Arch, Shape L n Li ⟨ar, u2⟩ := fun ar => ⟨hd2, by rw [hi2]; exact hfi⟩
          simp only
          cases h5 : i.run { s.arch.ctx with Memory := mem2 } app.labels s.arch.pc bytes 0#32 with
          | error fl =>
            simp only [StepShape]
            exact ⟨hs2 _, Or.inr (costB_of hdc hfc (Or.inr rfl) hmr (Int.le_refl 0) h050 (Int.le_refl 0) hmem)⟩
          | ok e =>
            simp only
            cases h6 : Gen.InstructionType.Cycles i.instructionType with
            | error fl =>
              simp only [StepShape]
              exact ⟨hs2 _, Or.inr (costB_of hdc hfc (Or.inr rfl) hmr (Int.le_refl 0) h050 (Int.le_refl 0) hmem)⟩
            | ok ex =>
              simp only
              have hex0 : 0 ≤ ex := Int.le_of_lt (Proofs.Seq.cycles_pos _ _ h6)
              have hex50 : ex ≤ 50 := cycles_le _ _ h6
              by_cases h7 : e.Return = true
              · simp only [h7, if_true, StepShape]
                exact ⟨hs2 _, Or.inr (costB_of hdc hfc (Or.inr rfl) hmr hex0 hex50 (Int.le_refl 0) hmem)⟩
              · simp only [h7]
                by_cases h8 : e.RegisterChange = true
                · simp only [h8, if_true, StepShape]
                  exact ⟨hs2 _, costB_of hdc hfc (Or.inr rfl) hmr hex0 hex50 reg_nonneg reg_le_mem⟩
                · simp only [h8]
                  by_cases h9 : e.MemoryChange = true
                  · simp only [h9, if_true]
                    cases hst : Model.Mvp3.store u2 { s.arch.ctx with Memory := mem2 } e with
                    | error fl =>
                      simp only [StepShape]
                      exact ⟨hs2 _, Or.inr (costB_of hdc hfc (Or.inr rfl) hmr hex0 hex50 (Int.le_refl 0) hmem)⟩
                    | ok q =>
                      obtain ⟨u3, ctx3, wb⟩ := q
                      obtain ⟨hd3, hi3, hwb⟩ := store_shape hst hd2
                      simp only [StepShape]
                      refine ⟨⟨hd3, by rw [hi3, hi2]; exact hfi⟩, ?_⟩
                      have hl1 := l1_nonneg
                      have hl1m := Proofs.Seq.l1_le_mem
                      rcases hwb with rfl | rfl
                      · exact costB_of hdc hfc (Or.inr rfl) hmr hex0 hex50 hl1 hl1m
                      · exact costB_of hdc hfc (Or.inr rfl) hmr hex0 hex50 hmem (Int.le_refl _)
                  · simp only [h9, StepShape]
                    exact ⟨hs2 _, costB_of hdc hfc (Or.inr rfl) hmr hex0 hex50 (Int.le_refl 0) hmem⟩
  · simp only [h1, not_false_eq_true, if_true, StepShape]
    exact ⟨hs, Or.inl trivial⟩

/-! ### whole runs -/

theorem flushLines_cost (cfg : Config) : ∀ (ls : List Line) (mem mem' : List Byte) (cyc cyc' : Int),
    flushLines cfg ls mem cyc = .ok (mem', cyc') → cyc' = cyc + ls.length * Gen.Latency.MemoryAccess := by
  intro ls
  induction ls with
  | nil =>
    intro mem mem' cyc cyc' h
    simp only [flushLines, pure, Except.pure] at h
    injection h with h; injection h with _ h
    rw [← h]; simp
  | cons l ls ih =>
    intro mem mem' cyc cyc' h
    unfold flushLines at h
    cases hf : flushLine cfg mem l with
    | error f => simp [hf, bind, Except.bind] at h
    | ok m1 =>
      simp only [hf, bind, Except.bind] at h
      rw [ih m1 mem' _ cyc' h]
      simp only [List.length_cons, Int.natCast_add, Int.natCast_one, Int.add_mul, Int.one_mul]
      omega

/-- the final flush costs between 0 and `numberOfLines · MemoryAccess` -/
theorem finish_cycles {cfg : Config} {L n Li : Nat} {s : State} (hs : Shape L n Li s) (h : Halt) (cyc : Int) (k : Nat) :
    (finish cfg h s cyc k).steps = k ∧ cyc ≤ (finish cfg h s cyc k).cycles ∧
    (finish cfg h s cyc k).cycles ≤ cyc + n * Gen.Latency.MemoryAccess := by
  have hmem := mem_nonneg
  have hnm : 0 ≤ (n : Int) * Gen.Latency.MemoryAccess := Int.mul_nonneg (Int.natCast_nonneg n) hmem
  unfold finish
  cases hf : flush cfg s.mmu s.arch.ctx.Memory with
  | error f => simp only; refine ⟨trivial, Int.le_refl _, by omega⟩
  | ok p =>
    obtain ⟨mem', fc⟩ := p
    simp only
    unfold flush LineCache.lines at hf
    have := flushLines_cost cfg _ _ _ _ _ hf
    have hc := hs.d.count
    have h1 : (s.mmu.l1d.lines.length : Int) * Gen.Latency.MemoryAccess ≤ n * Gen.Latency.MemoryAccess :=
      Int.mul_le_mul_of_nonneg_right (by omega) hmem
    have h2 : 0 ≤ (s.mmu.l1d.lines.length : Int) * Gen.Latency.MemoryAccess := Int.mul_nonneg (Int.natCast_nonneg _) hmem
    refine ⟨trivial, by omega, by omega⟩

theorem go_cycles_all {cfg : Config} {L n Li : Nat} (hcfg : CfgOk cfg L n Li) (hLs : L ≤ 2 ^ 30) (dc : Int) (hdc : 0 ≤ dc) (app : App) :
    ∀ (fuel : Nat) (s : State) (cyc3 : Int) (k : Nat), Shape L n Li s →
      cyc3 + ((Model.Mvp3.go cfg dc app fuel s cyc3 k).steps : Int) - k ≤ (Model.Mvp3.go cfg dc app fuel s cyc3 k).cycles ∧
      (Model.Mvp3.go cfg dc app fuel s cyc3 k).cycles ≤
        cyc3 + (Gen.Latency.MemoryAccess + dc + (Gen.Latency.L1Access + Gen.Latency.MemoryAccess) + 50 + Gen.Latency.MemoryAccess) *
          (((Model.Mvp3.go cfg dc app fuel s cyc3 k).steps : Int) - k) + n * Gen.Latency.MemoryAccess := by
  intro fuel
  have hmem := mem_nonneg
  have hnm : 0 ≤ (n : Int) * Gen.Latency.MemoryAccess := Int.mul_nonneg (Int.natCast_nonneg n) hmem
  induction fuel with
  | zero =>
    intro s cyc3 k _
    simp only [Model.Mvp3.go]
    constructor <;> simp <;> omega
  | succ fuel ih =>
    intro s cyc3 k hs
    have hrel := step_shape hcfg hLs dc hdc app hs
    unfold Model.Mvp3.go
    generalize hK : Gen.Latency.MemoryAccess + dc + (Gen.Latency.L1Access + Gen.Latency.MemoryAccess) + 50 + Gen.Latency.MemoryAccess = K at *
    cases hs3 : Model.Mvp3.step cfg dc app s with
    | next s' f c3 =>
      rw [hs3] at hrel
      simp only [StepShape] at hrel
      simp only
      have hc := hrel.2
      unfold CostB at hc
      rw [hK] at hc
      have hih := ih s' (cyc3 + f + c3.total) (k + 1) hrel.1
      generalize (Model.Mvp3.go cfg dc app fuel s' (cyc3 + f + c3.total) (k + 1)).cycles = C at hih ⊢
      generalize ((Model.Mvp3.go cfg dc app fuel s' (cyc3 + f + c3.total) (k + 1)).steps : Int) = S at hih ⊢
      have e : K * (S - (k : Int)) = K * (S - ((k + 1 : Nat) : Int)) + K := by
        have : S - (k : Int) = (S - ((k + 1 : Nat) : Int)) + 1 := by omega
        rw [this, Int.mul_add, Int.mul_one]
      rw [e]
      omega
    | halt h3 s' f c3 =>
      rw [hs3] at hrel
      simp only [StepShape] at hrel
      obtain ⟨hs', hcost⟩ := hrel
      cases h3 with
      | offEnd =>
        simp only
        obtain ⟨e1, e2, e3⟩ := finish_cycles (cfg := cfg) hs' .offEnd cyc3 k
        rw [e1]
        constructor <;> simp <;> omega
      | ret =>
        rcases hcost with h | hc
        · cases h
        · unfold CostB at hc
          rw [hK] at hc
          simp only
          obtain ⟨e1, e2, e3⟩ := finish_cycles (cfg := cfg) hs' .ret (cyc3 + f + c3.total) (k + 1)
          rw [e1]
          have : K * (((k + 1 : Nat) : Int) - (k : Int)) = K := by
            have : ((k + 1 : Nat) : Int) - (k : Int) = 1 := by omega
            rw [this, Int.mul_one]
          rw [this]
          constructor <;> omega
      | err =>
        rcases hcost with h | hc
        · cases h
        · unfold CostB at hc
          rw [hK] at hc
          simp only
          have : K * (((k + 1 : Nat) : Int) - (k : Int)) = K := by
            have : ((k + 1 : Nat) : Int) - (k : Int) = 1 := by omega
            rw [this, Int.mul_one]
          rw [this]
          constructor <;> omega
      | panic w =>
        rcases hcost with h | hc
        · cases h
        · unfold CostB at hc
          rw [hK] at hc
          simp only
          have : K * (((k + 1 : Nat) : Int) - (k : Int)) = K := by
            have : ((k + 1 : Nat) : Int) - (k : Int) = 1 := by omega
            rw [this, Int.mul_one]
          rw [this]
          constructor <;> omega

/-- **cycle bounds of MVP-3, every program / state / fuel**: at least one cycle per started iteration, at most
`MemoryAccess + decode + (L1Access + MemoryAccess) + 50 + MemoryAccess` per started iteration plus
`16 · MemoryAccess` for the final flush -/
theorem runMvp3_cycles (app : App) (a : Arch) (fuel : Nat) :
    ((runMvp3 app a fuel).steps : Int) ≤ (runMvp3 app a fuel).cycles ∧
    (runMvp3 app a fuel).cycles ≤
      (Gen.Latency.MemoryAccess + Gen.Consts.mvp3.cyclesDecode + (Gen.Latency.L1Access + Gen.Latency.MemoryAccess) + 50 +
        Gen.Latency.MemoryAccess) * (runMvp3 app a fuel).steps + 16 * Gen.Latency.MemoryAccess := by
  obtain ⟨u, hnew, hs⟩ := init_sim mvp3Config_ok a
  obtain ⟨u0, hnew0, hdl, _, _, _, _⟩ := mvp3Config_ok.new
  have hu : u0 = u := by rw [hnew0] at hnew; injection hnew
  subst hu
  have hshape : Shape 64 16 64 ⟨a, u0⟩ :=
    ⟨{ lineLength := hs.dwf.lineLength, numberOfLines := hs.dwf.numberOfLines,
       lines := (by rw [hdl]; intro l hl; cases hl), count := hs.dwf.count }, hs.iwf⟩
  have := go_cycles_all mvp3Config_ok (by decide) Gen.Consts.mvp3.cyclesDecode (by decide) app fuel ⟨a, u0⟩ 0 0 hshape
  unfold runMvp3 Model.Mvp3.run
  simp only [hnew]
  simpa using this

end Proofs.Mvp3Cycles

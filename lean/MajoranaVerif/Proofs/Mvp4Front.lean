/-
  Proofs/Mvp4Front.lean — the front-end part of the simulation relation of MVP-4 (the window of
  in-flight pcs, the execute unit between issue and completion of a load) and the execute unit's
  cycle against the unpipelined machine.
-/
import MajoranaVerif.Proofs.Mvp4EuRun
import MajoranaVerif.Proofs.Mvp4Live
open GoInt Model Model.Mvp4 Model.Seq
open Proofs.Mmu (DWf Coh applyChanges base)

set_option linter.unusedSimpArgs false
set_option linter.unusedVariables false

namespace Proofs.Mvp4

/-- the pc held by the execute unit -/
def euPcs (eu : ExecUnit) : List Word := if eu.processing then (eu.runner.map (·.pc)).toList else []

/-- the in-flight pcs, oldest first, followed by the pc the fetch unit will fetch next -/
def window (s : State) : List Word :=
  euPcs s.eu ++ (s.executeBus.inside.map (·.pc) ++ (s.decodeBus.inside ++ [s.fu.pc]))

/-- the execute unit between the issue of a load and its completion -/
structure PendOk (s : State) (a : Arch) (r : Runner) : Prop where
  wbFree : s.writeBus.canAdd = true
  noWriter : NoWriter s.writeBus.inside r.instr.readRegisters
  bu : ∃ bu0, s.bu = BranchUnit.assert bu0 r
  memHit : ∀ m, s.eu.memory = some m → (r.instr.memoryRead a.ctx 0#32).mapM (readMem a.ctx.Memory) = some m
  memMiss : s.eu.memory = none → ∃ a0 as, s.eu.addrs = a0 :: as ∧ r.instr.memoryRead a.ctx 0#32 = a0 :: as ∧
      (∀ ec ∈ s.writeBus.inside, isStore ec = true → ∀ p ∈ ec.execution.MemoryChanges, lineOf p.1 ≠ lineOf a0) ∧
      (∀ y ∈ s.mmu.l1d.lines, y.covers a0.toInt = false)

/-- the front end while the `Run` loop is at the head of its outer `for` -/
structure NormalOk (app : App) (s : State) (a : Arch) : Prop where
  consec : Consec a.pc (window s)
  complete : s.fu.complete = true → pastEnd app s.fu.pc = true
  busInstr : ∀ r ∈ s.executeBus.inside, instrAt app r.pc = .ok r.instr
  euRunner : s.eu.processing = true → ∃ r, s.eu.runner = some r ∧ instrAt app r.pc = .ok r.instr
  idle : s.eu.processing = false → s.eu.pendingMemoryRead = false
  pend : s.eu.pendingMemoryRead = true → ∃ r, s.eu.runner = some r ∧ PendOk s a r
  nomem : s.eu.pendingMemoryRead = false → s.eu.memory = none

/-- the front end, by the position of the `Run` loop -/
def FrontRel (app : App) (s : State) (a : Arch) : Mode → Prop
  | .normal => NormalOk app s a
  | .drainFlush pc => a.pc = pc ∧ s.eu.processing = false ∧ s.eu.pendingMemoryRead = false ∧ s.eu.memory = none
  | .drainRet => ∃ c, stepArch dc app a = .halt .ret c

/-- **the simulation relation** between the pipeline and the unpipelined machine -/
structure Rel (app : App) (s : State) (a : Arch) : Prop where
  back : Back s a
  front : FrontRel app s a s.mode

/-- forward slots are fresh (what `risc.Parse` produces; MVP-4 never sets one) -/
def NoFwd (app : App) : Prop := ∀ g ∈ app.instrs, fwdOf g = {}

theorem NoFwd.at {app : App} (h : NoFwd app) {pc : Word} {i : Gen.Instr} (hi : instrAt app pc = .ok i) : fwdOf i = {} :=
  h i (List.mem_of_getElem? (instrAt_ok hi).2.1)

/-! ### reading bytes through the queue -/

theorem mapM_congr {α β} (f g : α → Option β) : ∀ (l : List α), (∀ x ∈ l, f x = g x) → l.mapM f = l.mapM g
  | [], _ => rfl
  | x :: xs, h => by
    simp only [List.mapM_cons]
    rw [h x (by simp), mapM_congr f g xs (fun y hy => h y (by simp [hy]))]

theorem getElem?_applyMemQ (x : Nat) : ∀ (q : List ExecCtx) (F0 : List Byte),
    (∀ ec ∈ q, isStore ec = true → ∀ p ∈ ec.execution.MemoryChanges, p.1.toInt.toNat ≠ x) →
    (applyMemQ F0 q)[x]? = F0[x]? := by
  intro q
  induction q with
  | nil => intro F0 _; rfl
  | cons ec q ih =>
    intro F0 h
    rw [applyMemQ_cons, ih _ (fun e he => h e (List.mem_cons_of_mem _ he))]
    by_cases hs : isStore ec = true
    · simp only [hs, if_true]
      exact getElem?_applyChanges_other x _ _ (h ec (by simp) hs)
    · have hs' : isStore ec = false := by simpa using hs
      simp only [hs', Bool.false_eq_true, if_false]

theorem readMem_applyMemQ (ad : Word) (q : List ExecCtx) (F0 : List Byte)
    (h : ∀ ec ∈ q, isStore ec = true → ∀ p ∈ ec.execution.MemoryChanges, p.1.toInt.toNat ≠ ad.toInt.toNat) :
    readMem (applyMemQ F0 q) ad = readMem F0 ad := by
  unfold readMem
  split
  · rfl
  · exact getElem?_applyMemQ _ q F0 h


/-! ### the execute unit: issue -/

/-- the execute unit keeps holding `r` (a stall, or the issue of its memory read): nothing is executed -/
structure Stay (s : State) (eu : ExecUnit) (a : Arch) (r : Runner) (s2 : State) : Prop where
  back : Back s2 a
  processing : s2.eu.processing = eu.processing
  runner : s2.eu.runner = eu.runner
  fu : s2.fu = s.fu
  decodeBus : s2.decodeBus = s.decodeBus
  executeBus : s2.executeBus = s.executeBus
  wu : s2.wu = s.wu
  mode : s2.mode = s.mode
  cycles : s2.cycles = s.cycles
  pend : s2.eu.pendingMemoryRead = true → PendOk s2 a r
  nomem : s2.eu.pendingMemoryRead = false → s2.eu.memory = eu.memory
  writeBus : s2.writeBus = s.writeBus
  ctx : s2.ctx = s.ctx
  pwmi : s2.pwmi = s.pwmi
  /-- (liveness) a stall waits for something on the write side; an issued memory read has a positive latency -/
  meas : (s2.eu.pendingMemoryRead = false ∧ s2.eu.remainingCycles = 1 ∧ s.writeBus.isEmpty = false) ∨
         (s2.eu.pendingMemoryRead = true ∧ 1 ≤ s2.eu.remainingCycles ∧ s2.eu.remainingCycles ≤ Gen.Latency.MemoryAccess)

theorem Back.with_eu_bu {s : State} {a : Arch} (hb : Back s a) (eu : ExecUnit) (bu : BranchUnit)
    (hsid : eu.storeID = s.eu.storeID) : Back { s with eu := eu, bu := bu } a := by
  unfold Back at hb ⊢
  simp only
  rw [hsid]; exact hb

/-- the tail of `executeUnit.cycle` on the next-to-execute instruction: it stalls (register interlock,
store→load interlock), issues the memory read of a load, or executes the instruction -/
theorem euIssue_sim {app : App} {s : State} {a : Arch} {eu : ExecUnit} {r : Runner} {s2 : State} {out : EuOut}
    (hb : Back s a) (hsid : eu.storeID = s.eu.storeID) (hpe : eu.pendingMemoryRead = false) (hnomem : eu.memory = none)
    (hpc : r.pc = a.pc) (hi : instrAt app r.pc = .ok r.instr) (hnf : NoFwd app)
    (hfree : s.writeBus.canAdd = true) (hok : stepOk app a = true)
    (h : euIssue app s eu r = .ok (s2, out)) :
    (out = .none ∧ Stay s eu a r s2) ∨
    (Frame { s with eu := eu, bu := s.bu.assert r } s2 ∧ EuPost app { s with eu := eu, bu := s.bu.assert r } a s2 out) := by
  have hf := hnf.at hi
  have hi' : instrAt app a.pc = .ok r.instr := hpc ▸ hi
  have hb' : BackRel s.ctx s.pwmi s.writeBus.inside s.mmu.l1d s.eu.storeID a := hb
  unfold euIssue at h
  simp only at h
  by_cases hhz : isWriteDataHazard s.ctx.PendingWriteRegisters r.instr.readRegisters = true
  · -- register interlock
    simp only [hhz, if_true, pure, Except.pure] at h
    injection h with h
    simp only [Prod.mk.injEq] at h
    obtain ⟨rfl, rfl⟩ := h
    left
    refine ⟨rfl, ⟨hb.with_eu_bu _ _ hsid, rfl, rfl, rfl, rfl, rfl, rfl, rfl, rfl, ?_, fun _ => rfl, rfl, rfl, rfl,
      Or.inl ⟨hpe, rfl, nonempty_of_hazard hb' hhz⟩⟩⟩
    intro hp; simp only [hpe] at hp; cases hp
  · have hhz' : isWriteDataHazard s.ctx.PendingWriteRegisters r.instr.readRegisters = false := by simpa using hhz
    simp only [hhz', Bool.false_eq_true, if_false] at h
    have hnw := noWriter_of_hazard hb' hhz'
    have hsr := sameRegs_of_noWriter hb' hnw
    have haddr : r.instr.memoryRead s.ctx 0#32 = r.instr.memoryRead a.ctx 0#32 := memoryRead_congr r.instr hf hsr 0#32
    rw [haddr] at h
    cases haddrs : r.instr.memoryRead a.ctx 0#32 with
    | nil =>
      -- no memory read: execute
      simp only [haddrs, List.isEmpty_nil, Bool.not_true, Bool.false_eq_true, if_false] at h
      right
      have := euRun_sim (s := { s with eu := eu, bu := s.bu.assert r }) (hb.with_eu_bu _ _ hsid) hpc hi hf hnw
        (by rw [haddrs]; rfl) ⟨s.bu, rfl⟩ hfree hok h
      exact this
    | cons a0 as =>
      simp only [haddrs, List.isEmpty_cons, Bool.not_false, if_true] at h
      left
      by_cases hpw : ((a0 :: as).any fun a => pendingWriteMemoryIntention s.pwmi (lineOf a)) = true
      · -- store→load interlock
        simp only [hpw, if_true, pure, Except.pure] at h
        injection h with h
        simp only [Prod.mk.injEq] at h
        obtain ⟨rfl, rfl⟩ := h
        have hne : s.writeBus.isEmpty = false := by
          obtain ⟨ad, _, had⟩ := List.any_eq_true.mp hpw
          exact nonempty_of_pending hb' had
        refine ⟨rfl, ⟨hb.with_eu_bu _ _ hsid, rfl, rfl, rfl, rfl, rfl, rfl, rfl, rfl, ?_, fun _ => rfl, rfl, rfl, rfl,
          Or.inl ⟨hpe, rfl, hne⟩⟩⟩
        intro hp; simp only [hpe] at hp; cases hp
      · have hpw' : ((a0 :: as).any fun a => pendingWriteMemoryIntention s.pwmi (lineOf a)) = false := by simpa using hpw
        simp only [hpw', Bool.false_eq_true, if_false] at h
        have hpw0 : pendingWriteMemoryIntention s.pwmi (lineOf a0) = false := by
          have := List.any_eq_false.mp hpw' a0 (by simp)
          simpa using this
        have hlok := stepOk_load hok hi'
        rw [haddrs] at hlok
        have hlspec := Proofs.Mmu.loadOk_spec hlok
        have h00 := (hlspec a0 (by simp)).1
        obtain ⟨F0, hcoh, hmemq⟩ := hb'.coh
        have hlen0 : a.ctx.Memory.length = F0.length := by rw [hmemq, applyMemQ_length]
        -- a queued store never lies in the line of the load
        have hnoq : ∀ ec ∈ s.writeBus.inside, isStore ec = true → ∀ p ∈ ec.execution.MemoryChanges, lineOf p.1 ≠ lineOf a0 := by
          intro ec hec hs p hp heq
          have := hb'.stPw ec hec hs p hp
          rw [heq] at this
          exact pending_false hpw0 _ this
        rcases Proofs.Mmu.resident_or_not hL hb'.dwf a0.toInt h00 with hres | hmiss
        · -- L1D hit: the bytes are taken now
          obtain ⟨bytes, u', hg, _, hd', hc', hperm, hbytes⟩ :=
            Proofs.Mmu.getFromL1D_hit hL hb'.dwf hcoh a0 as (by rw [← hlen0]; exact hlok) hres
          simp only [hg, bind, Except.bind, pure, Except.pure] at h
          injection h with h
          simp only [Prod.mk.injEq] at h
          obtain ⟨rfl, rfl⟩ := h
          have hback : Back { s with bu := s.bu.assert r, mmu := u', eu := { eu with memory := some bytes, pendingMemoryRead := true, remainingCycles := Gen.Latency.L1Access } } a := by
            unfold Back; simp only
            rw [hsid]
            have := hb'.with_mem_l1d s.ctx.Memory u'.l1d hd'
              (fun F hF => by have : F = F0 := coh_unique hF hcoh; subst this; exact hc')
              (fun ec hec hs p hp y hy => hb'.stUncached ec hec hs p hp y (hperm.mem_iff.mp hy))
            exact this
          refine ⟨rfl, ⟨hback, rfl, rfl, rfl, rfl, rfl, rfl, rfl, rfl, ?_, fun hx => (by simp at hx), rfl, rfl, rfl,
            Or.inr ⟨rfl, (by show (1 : Int) ≤ Gen.Latency.L1Access; decide), (by show Gen.Latency.L1Access ≤ Gen.Latency.MemoryAccess; decide)⟩⟩⟩
          intro _
          refine { wbFree := hfree, noWriter := hnw, bu := ⟨s.bu, rfl⟩, memHit := ?_, memMiss := ?_ }
          · intro m hm
            simp only [Option.some.injEq] at hm
            subst hm
            rw [haddrs, ← hbytes, hmemq]
            apply mapM_congr
            intro ad had
            apply readMem_applyMemQ
            intro ec hec hs p hp heq
            obtain ⟨l, hl, hlb⟩ := hres
            have hpad := hlspec ad had
            have hp0 := (storeOk_inb (hb'.stOk ec hec hs) p hp).1
            have hcov : l.covers p.1.toInt = true := by
              rw [(hb'.dwf.lines l hl).covers_iff hL _ hp0]
              have : p.1.toInt = ad.toInt := by have := hpad.1; omega
              rw [this, hlb, hpad.2.2.1]
            rw [hb'.stUncached ec hec hs p hp l hl] at hcov
            cases hcov
          · intro hm; simp at hm
        · -- L1D miss: the line is fetched when the memory latency has elapsed
          have hg := Proofs.Mmu.getFromL1D_miss (u := s.mmu) a0 as hmiss
          simp only [hg, bind, Except.bind, pure, Except.pure] at h
          injection h with h
          simp only [Prod.mk.injEq] at h
          obtain ⟨rfl, rfl⟩ := h
          refine ⟨rfl, ⟨hb.with_eu_bu _ _ hsid, rfl, rfl, rfl, rfl, rfl, rfl, rfl, rfl, ?_, fun hx => (by simp at hx), rfl, rfl, rfl,
            Or.inr ⟨rfl, (by show (1 : Int) ≤ Gen.Latency.MemoryAccess; decide), (by show Gen.Latency.MemoryAccess ≤ Gen.Latency.MemoryAccess; exact Int.le_refl _)⟩⟩⟩
          intro _
          refine { wbFree := hfree, noWriter := hnw, bu := ⟨s.bu, rfl⟩, memHit := ?_, memMiss := ?_ }
          · intro m hm
            have : eu.memory = some m := hm
            rw [hnomem] at this; cases this
          · intro _
            exact ⟨a0, as, rfl, haddrs, hnoq, hmiss⟩


/-! ### the execute unit: completion of a memory read -/

/-- **lemma (b): a load sees the architectural memory.**  When the latency of the memory read has elapsed, the
bytes handed to `Run` — taken from L1D at issue time, or from the line fetched now — are the bytes the
unpipelined machine reads: no older store is still queued for that line (store→load interlock), so the line in
memory/L1D is up to date.  The instruction then executes as in `euRun_sim`. -/
theorem euMemDone_sim {app : App} {s : State} {a : Arch} {eu : ExecUnit} {r : Runner} {s2 : State} {out : EuOut}
    (hb : Back s a) (hsid : eu.storeID = s.eu.storeID) (hp : PendOk s a r)
    (hmem : eu.memory = s.eu.memory) (haddrs : eu.addrs = s.eu.addrs) (hpe : eu.pendingMemoryRead = false)
    (hpc : r.pc = a.pc) (hi : instrAt app r.pc = .ok r.instr) (hnf : NoFwd app) (hok : stepOk app a = true)
    (h : euMemDone app s eu r = .ok (s2, out)) :
    ∃ s1 : State, s1.eu.processing = eu.processing ∧ s1.fu = s.fu ∧ s1.decodeBus = s.decodeBus ∧
      s1.executeBus = s.executeBus ∧ s1.wu = s.wu ∧ s1.mode = s.mode ∧ s1.cycles = s.cycles ∧
      s1.eu.pendingMemoryRead = false ∧ s1.eu.memory = none ∧ s1.writeBus = s.writeBus ∧ Frame s1 s2 ∧
      EuPost app s1 a s2 out := by
  have hf := hnf.at hi
  have hi' : instrAt app a.pc = .ok r.instr := hpc ▸ hi
  have hb' : BackRel s.ctx s.pwmi s.writeBus.inside s.mmu.l1d s.eu.storeID a := hb
  unfold euMemDone at h
  cases hm : eu.memory with
  | some m =>
    simp only [hm] at h
    have hbytes := hp.memHit m (by rw [← hmem]; exact hm)
    have := euRun_sim (s := { s with eu := { eu with memory := none } }) (hb.with_eu_bu _ _ hsid) hpc hi hf
      hp.noWriter hbytes hp.bu hp.wbFree hok h
    exact ⟨{ s with eu := { eu with memory := none } }, rfl, rfl, rfl, rfl, rfl, rfl, rfl, hpe, rfl, rfl, this.1, this.2⟩
  | none =>
    simp only [hm] at h
    obtain ⟨a0, as, hea, hra, hnoq, hmiss⟩ := hp.memMiss (by rw [← hmem]; exact hm)
    have heua : eu.addrs = a0 :: as := by rw [haddrs]; exact hea
    simp only [heua] at h
    have hlok := stepOk_load hok hi'
    rw [hra] at hlok
    have hlspec := Proofs.Mmu.loadOk_spec hlok
    have h00 := (hlspec a0 (by simp)).1
    obtain ⟨F0, hcoh, hmemq⟩ := hb'.coh
    have hlen0 : a.ctx.Memory.length = F0.length := by rw [hmemq, applyMemQ_length]
    obtain ⟨line, u1, mem1, hfe, hpu, _, hd1, hc1, hres1, hsub1⟩ :=
      Proofs.Mmu.fill_ok hcfg hL hN hb'.dwf hcoh a0 h00 hmiss (hlspec a0 (by simp)).2.2.2
    obtain ⟨bytes, u2, hg, _, hd2, hc2, hperm, hbytes⟩ :=
      Proofs.Mmu.getFromL1D_hit hL hd1 hc1 a0 as (by rw [← hlen0]; exact hlok) hres1
    simp only [hfe, hpu, hg, bind, Except.bind] at h
    -- the machine right before `run`
    have hback : Back { s with eu := eu, mmu := u2, ctx := { s.ctx with Memory := mem1 } } a := by
      unfold Back; simp only
      rw [hsid]
      refine hb'.with_mem_l1d mem1 u2.l1d hd2
        (fun F hF => by have : F = F0 := coh_unique hF hcoh; subst this; exact hc2) ?_
      intro ec hec hs p hp' y hy
      have hy1 := hperm.mem_iff.mp hy
      rcases hsub1 y hy1 with hold | hnew
      · exact hb'.stUncached ec hec hs p hp' y hold
      · cases hcv : y.covers p.1.toInt with
        | false => rfl
        | true =>
          have hp0 := (storeOk_inb (hb'.stOk ec hec hs) p hp').1
          have := ((hd1.lines y hy1).covers_iff hL _ hp0).mp hcv
          exact absurd (by rw [lineOf_eq, lineOf_eq, ← this, hnew]) (hnoq ec hec hs p hp')
    have hbytes' : (r.instr.memoryRead a.ctx 0#32).mapM (readMem a.ctx.Memory) = some bytes := by
      rw [hra, ← hbytes, hmemq]
      apply mapM_congr
      intro ad had
      apply readMem_applyMemQ
      intro ec hec hs p hp' heq
      have hpad := hlspec ad had
      have hp0 := (storeOk_inb (hb'.stOk ec hec hs) p hp').1
      apply hnoq ec hec hs p hp'
      rw [lineOf_eq, lineOf_eq, ← hpad.2.2.1]
      have : p.1.toInt = ad.toInt := by have := hpad.1; omega
      rw [this]
    have := euRun_sim (s := { s with eu := eu, mmu := u2, ctx := { s.ctx with Memory := mem1 } }) hback hpc hi hf
      hp.noWriter hbytes' hp.bu hp.wbFree hok h
    exact ⟨{ s with eu := eu, mmu := u2, ctx := { s.ctx with Memory := mem1 } }, rfl, rfl, rfl, rfl, rfl, rfl, rfl, hpe, hm, rfl, this.1, this.2⟩


/-! ### the front end behind the execute unit -/

/-- execute bus, decode bus and fetch pc form a run of consecutive pcs starting at `x` -/
structure RestOk (app : App) (e : SimpleBus Runner) (d : SimpleBus Word) (fu : FetchUnit) (x : Word) : Prop where
  consec : Consec x (e.inside.map (·.pc) ++ (d.inside ++ [fu.pc]))
  complete : fu.complete = true → pastEnd app fu.pc = true
  busInstr : ∀ r ∈ e.inside, instrAt app r.pc = .ok r.instr

theorem NormalOk.rest_idle {app : App} {s : State} {a : Arch} (h : NormalOk app s a) (hp : s.eu.processing = false) :
    RestOk app s.executeBus s.decodeBus s.fu a.pc := by
  refine ⟨?_, h.complete, h.busInstr⟩
  have := h.consec
  unfold window euPcs at this
  simpa [hp] using this

theorem NormalOk.rest_busy {app : App} {s : State} {a : Arch} (h : NormalOk app s a) (hp : s.eu.processing = true) :
    ∃ r, s.eu.runner = some r ∧ r.pc = a.pc ∧ instrAt app r.pc = .ok r.instr ∧
      RestOk app s.executeBus s.decodeBus s.fu (a.pc + 4#32) := by
  obtain ⟨r, hr, hi⟩ := h.euRunner hp
  have := h.consec
  unfold window euPcs at this
  simp only [hp, if_true, hr, Option.map_some, Option.toList_some, List.singleton_append] at this
  exact ⟨r, hr, this.1, hi, ⟨this.2, h.complete, h.busInstr⟩⟩

theorem NormalOk.of_idle {app : App} {s : State} {a : Arch}
    (h : RestOk app s.executeBus s.decodeBus s.fu a.pc) (hp : s.eu.processing = false)
    (hpe : s.eu.pendingMemoryRead = false) (hm : s.eu.memory = none) : NormalOk app s a := by
  refine { consec := ?_, complete := h.complete, busInstr := h.busInstr, euRunner := ?_, idle := fun _ => hpe,
           pend := ?_, nomem := fun _ => hm }
  · unfold window euPcs; simpa [hp] using h.consec
  · intro hx; rw [hp] at hx; cases hx
  · intro hx; rw [hpe] at hx; cases hx

theorem NormalOk.of_busy {app : App} {s : State} {a : Arch} {r : Runner}
    (h : RestOk app s.executeBus s.decodeBus s.fu (a.pc + 4#32)) (hp : s.eu.processing = true)
    (hr : s.eu.runner = some r) (hpc : r.pc = a.pc) (hi : instrAt app r.pc = .ok r.instr)
    (hpend : s.eu.pendingMemoryRead = true → PendOk s a r)
    (hm : s.eu.pendingMemoryRead = false → s.eu.memory = none) : NormalOk app s a := by
  refine { consec := ?_, complete := h.complete, busInstr := h.busInstr, euRunner := fun _ => ⟨r, hr, hi⟩,
           idle := ?_, pend := fun hx => ⟨r, hr, hpend hx⟩, nomem := hm }
  · unfold window euPcs
    simp only [hp, if_true, hr, Option.map_some, Option.toList_some, List.singleton_append]
    exact ⟨hpc, h.consec⟩
  · intro hx; rw [hp] at hx; cases hx

/-- outcome of one cycle of the execute unit while the `Run` loop is in its normal mode -/
def ExecPost (app : App) (s : State) (a : Arch) (s2 : State) (P : Prop) : EuOut → Prop
  | .err => ∃ c, stepArch dc app a = .halt .err c
  | .ret => (∃ c, stepArch dc app a = .halt .ret c) ∧ Back s2 a ∧ s2.writeBus = s.writeBus
  | .none => (Back s2 a ∧ NormalOk app s2 a ∧ P ∧ s2.executed = s.executed) ∨
      (∃ a' c, stepArch dc app a = .next a' c ∧ Back s2 a' ∧ NormalOk app s2 a' ∧
        s2.eu.processing = false ∧ s2.eu.pendingMemoryRead = false ∧ s2.executed = s.executed + 1)
  | .flush pc => ∃ a' c, stepArch dc app a = .next a' c ∧ a'.pc = pc ∧ Back s2 a' ∧
      s2.eu.processing = false ∧ s2.eu.pendingMemoryRead = false ∧ s2.eu.memory = none

/-- (liveness) what a cycle of a busy execute unit that executes nothing does: a countdown step, a stall that
waits for the write side, or the issue of a memory read -/
def EuStut (s : State) (eu : ExecUnit) (s2 : State) : Prop :=
  s2.writeBus = s.writeBus ∧ s2.ctx = s.ctx ∧ s2.pwmi = s.pwmi ∧ s2.eu.processing = true ∧
  ((s2.eu.pendingMemoryRead = false ∧ s2.eu.remainingCycles = eu.remainingCycles - 1 ∧ 1 ≤ eu.remainingCycles - 1) ∨
   (s2.eu.pendingMemoryRead = false ∧ s2.eu.remainingCycles = 1 ∧ eu.remainingCycles = 1 ∧ s.writeBus.isEmpty = false) ∨
   (s2.eu.pendingMemoryRead = true ∧ 1 ≤ s2.eu.remainingCycles ∧ s2.eu.remainingCycles ≤ Gen.Latency.MemoryAccess))

/-- (liveness) a cycle of the execute unit that executes nothing: nothing on the write side or in the context
changes, the countdown invariants hold, and the execute unit's share of the measure decreases — or it stalls on the
write side — or the unit is idle and merely shifts the execute bus -/
structure StutterOk (app : App) (s s2 : State) : Prop where
  writeBus : s2.writeBus = s.writeBus
  ctx : s2.ctx = s.ctx
  pwmi : s2.pwmi = s.pwmi
  euRem : s2.eu.processing = true → 1 ≤ s2.eu.remainingCycles
  euRemP : s2.eu.pendingMemoryRead = true → 1 ≤ s2.eu.remainingCycles ∧ s2.eu.remainingCycles ≤ Gen.Latency.MemoryAccess
  meas : euPhi app s2 < euPhi app s ∨ (euPhi app s2 ≤ euPhi app s ∧ s.writeBus.isEmpty = false) ∨
    (s.eu.processing = false ∧ s.eu.pendingMemoryRead = false ∧ s2.eu = s.eu ∧ s.executeBus.current = none ∧
      s2.executeBus = s.executeBus.get.2)

/-! ### the count of executed instructions (for every state): it goes up exactly when `executeUnit.run` is called -/

theorem bind_ok_inv' {α β} {x : M α} {f : α → M β} {r : β} (h : (x >>= f) = .ok r) : ∃ a, x = .ok a ∧ f a = .ok r := by
  cases x with
  | error e => simp [bind, Except.bind] at h
  | ok a => exact ⟨a, rfl, h⟩

theorem ok_pair_inj' {α β} {a a' : α} {b b' : β} (h : (Except.ok (a, b) : M (α × β)) = .ok (a', b')) : a = a' ∧ b = b' := by
  injection h with h; simp only [Prod.mk.injEq] at h; exact h

theorem euQueue_executed (s : State) (r : Runner) (e : Gen.Execution) (eu : ExecUnit) (mmu : Model.Mmu.Mmu) :
    (euQueue s r e eu mmu).1.executed = s.executed ∧ (euQueue s r e eu mmu).1.eu.processing = eu.processing := by
  unfold euQueue; simp only; split <;> exact ⟨trivial, rfl⟩

theorem euRun_exec {app : App} {s s2 : State} {r : Runner} {b : List Byte} {out : EuOut}
    (h : euRun app s r b = .ok (s2, out)) :
    s2.executed = s.executed + 1 ∧ (out = .none → s2.eu.processing = false) := by
  unfold euRun at h
  simp only at h
  split at h
  · cases h
  · obtain ⟨rfl, rfl⟩ := ok_pair_inj' h
    exact ⟨rfl, fun hx => by cases hx⟩
  · rename_i e _
    split at h
    · obtain ⟨rfl, rfl⟩ := ok_pair_inj' h
      exact ⟨rfl, fun hx => by cases hx⟩
    · obtain ⟨⟨inL1D, mmu1⟩, h1, h2⟩ := bind_ok_inv' h
      simp only at h2
      split at h2
      · obtain ⟨mmu2, h3, h4⟩ := bind_ok_inv' h2
        obtain ⟨rfl, rfl⟩ := ok_pair_inj' h4
        exact ⟨rfl, fun _ => rfl⟩
      · simp only [pure, Except.pure] at h2
        injection h2 with h2
        have := congrArg Prod.fst h2
        simp only at this
        rw [← this]
        obtain ⟨q1, q2⟩ := euQueue_executed { s with executed := s.executed + 1 } r e
          { s.eu with processing := false, runner := none } mmu1
        exact ⟨q1, fun _ => q2⟩

theorem euIssue_exec {app : App} {s s2 : State} {eu : ExecUnit} {r : Runner} {out : EuOut}
    (h : euIssue app s eu r = .ok (s2, out)) :
    (s2.executed = s.executed ∧ s2.eu.processing = eu.processing ∧ out = .none) ∨
    (s2.executed = s.executed + 1 ∧ (out = .none → s2.eu.processing = false)) := by
  unfold euIssue at h
  simp only at h
  split at h
  · obtain ⟨rfl, rfl⟩ := ok_pair_inj' h; exact Or.inl ⟨rfl, rfl, rfl⟩
  · split at h
    · split at h
      · obtain ⟨rfl, rfl⟩ := ok_pair_inj' h; exact Or.inl ⟨rfl, rfl, rfl⟩
      · obtain ⟨⟨m, mmu1⟩, h1, h2⟩ := bind_ok_inv' h
        simp only at h2
        split at h2
        · obtain ⟨rfl, rfl⟩ := ok_pair_inj' h2; exact Or.inl ⟨rfl, rfl, rfl⟩
        · obtain ⟨rfl, rfl⟩ := ok_pair_inj' h2; exact Or.inl ⟨rfl, rfl, rfl⟩
    · exact Or.inr (euRun_exec (s := { s with eu := eu, bu := s.bu.assert r }) h)

theorem euMemDone_exec {app : App} {s s2 : State} {eu : ExecUnit} {r : Runner} {out : EuOut}
    (h : euMemDone app s eu r = .ok (s2, out)) : s2.executed = s.executed + 1 := by
  unfold euMemDone at h
  split at h
  · exact (euRun_exec (s := { s with eu := { eu with memory := none } }) h).1
  · split at h
    · cases h
    · obtain ⟨line, _, h2⟩ := bind_ok_inv' h
      obtain ⟨⟨mmu1, mem1⟩, h3, h4⟩ := bind_ok_inv' h2
      obtain ⟨⟨m, mmu2⟩, h5, h6⟩ := bind_ok_inv' h4
      simp only at h6
      split at h6
      · cases h6
      · exact (euRun_exec h6).1

theorem euStep_out_exec {app : App} {s s2 : State} {eu : ExecUnit} {out : EuOut}
    (h : euStep app s eu = .ok (s2, out)) (hne : out ≠ .none) : s2.executed = s.executed + 1 := by
  unfold euStep at h
  simp only at h
  split at h
  · obtain ⟨_, rfl⟩ := ok_pair_inj' h; exact absurd rfl hne
  · split at h
    · obtain ⟨_, rfl⟩ := ok_pair_inj' h; exact absurd rfl hne
    · split at h
      · cases h
      · rcases euIssue_exec h with ⟨_, _, e⟩ | ⟨e, _⟩
        · exact absurd e hne
        · exact e

/-- an execute-unit cycle that returns `ret`, a flush or an error has called `executeUnit.run` -/
theorem executeCycle_out_exec {app : App} {s s2 : State} {out : EuOut}
    (h : executeCycle app s = .ok (s2, out)) (hne : out ≠ .none) : s2.executed = s.executed + 1 := by
  unfold executeCycle at h
  split at h
  · simp only at h
    split at h
    · obtain ⟨_, rfl⟩ := ok_pair_inj' h; exact absurd rfl hne
    · split at h
      · cases h
      · exact euMemDone_exec h
  · obtain ⟨⟨s1, eu1, go⟩, h1, h2⟩ := bind_ok_inv' h
    have hs1 : s1.executed = s.executed := by
      unfold euTake at h1
      by_cases hp : s.eu.processing = true
      · simp only [hp, Bool.not_true, Bool.false_eq_true, if_false, pure, Except.pure] at h1
        injection h1 with h1; simp only [Prod.mk.injEq] at h1; obtain ⟨rfl, _⟩ := h1; rfl
      · have hp' : s.eu.processing = false := by simpa using hp
        simp only [hp', Bool.not_false, if_true] at h1
        cases hx : s.executeBus.get.1 with
        | none =>
          have hg : s.executeBus.get = (none, s.executeBus.get.2) := by rw [← hx]
          rw [hg] at h1
          simp only [pure, Except.pure] at h1
          injection h1 with h1; simp only [Prod.mk.injEq] at h1; obtain ⟨rfl, _⟩ := h1; rfl
        | some r =>
          have hg : s.executeBus.get = (some r, s.executeBus.get.2) := by rw [← hx]
          rw [hg] at h1
          simp only at h1
          cases hcy : Gen.InstructionType.Cycles r.instr.instructionType with
          | error f => simp [hcy, throw, throwThe, MonadExceptOf.throw] at h1
          | ok c =>
            simp only [hcy, pure, Except.pure] at h1
            injection h1 with h1; simp only [Prod.mk.injEq] at h1; obtain ⟨rfl, _⟩ := h1; rfl
    simp only at h2
    split at h2
    · obtain ⟨_, rfl⟩ := ok_pair_inj' h2; exact absurd rfl hne
    · rw [← hs1]; exact euStep_out_exec h2 hne

/-- from what `executeUnit.run` guarantees to the outcome of the cycle -/
theorem execPost_of_euPost {app : App} {s s1 s2 : State} {a : Arch} {out : EuOut} {P : Prop}
    (hrest : RestOk app s.executeBus s.decodeBus s.fu (a.pc + 4#32))
    (h1 : s1.fu = s.fu) (h2 : s1.decodeBus = s.decodeBus) (h3 : s1.executeBus = s.executeBus)
    (hpe : s1.eu.pendingMemoryRead = false) (hm : s1.eu.memory = none) (hwb : s1.writeBus = s.writeBus)
    (hfr : Frame s1 s2) (hpost : EuPost app s1 a s2 out) (hexe : s2.executed = s.executed + 1) :
    ExecPost app s a s2 P out := by
  cases out with
  | err => exact hpost
  | ret => exact ⟨hpost.1, hpost.2.1, by rw [hpost.2.2.2, hwb]⟩
  | none =>
    obtain ⟨a', c, hst, hpc, hb, hproc⟩ := hpost
    right
    refine ⟨a', c, hst, hb, NormalOk.of_idle ?_ hproc (by rw [hfr.pend]; exact hpe) (by rw [hfr.mem]; exact hm),
      hproc, by rw [hfr.pend]; exact hpe, hexe⟩
    rw [hfr.fu, hfr.decodeBus, hfr.executeBus, h1, h2, h3, hpc]
    exact hrest
  | flush pc =>
    obtain ⟨a', c, hst, hpc, hb, hproc⟩ := hpost
    exact ⟨a', c, hst, hpc, hb, hproc, by rw [hfr.pend]; exact hpe, by rw [hfr.mem]; exact hm⟩


/-! ### one cycle of the execute unit -/

theorem euStep_sim {app : App} {s : State} {a : Arch} {eu : ExecUnit} {r : Runner} {s2 : State} {out : EuOut}
    (hb : Back s a) (hrest : RestOk app s.executeBus s.decodeBus s.fu (a.pc + 4#32))
    (hproc : eu.processing = true) (hrun : eu.runner = some r) (hpe : eu.pendingMemoryRead = false)
    (hm : eu.memory = none) (hsid : eu.storeID = s.eu.storeID)
    (hpc : r.pc = a.pc) (hi : instrAt app r.pc = .ok r.instr) (hnf : NoFwd app) (hok : stepOk app a = true)
    (h : euStep app s eu = .ok (s2, out)) :
    s2.fu = s.fu ∧ s2.decodeBus = s.decodeBus ∧ s2.executeBus = s.executeBus ∧ s2.wu = s.wu ∧
      s2.mode = s.mode ∧ s2.cycles = s.cycles ∧ ExecPost app s a s2 (1 ≤ eu.remainingCycles → EuStut s eu s2) out := by
  unfold euStep at h
  simp only at h
  by_cases h0 : (eu.remainingCycles - 1 != 0) = true
  · simp only [h0, if_true, pure, Except.pure] at h
    injection h with h
    simp only [Prod.mk.injEq] at h
    obtain ⟨rfl, rfl⟩ := h
    have h0' : eu.remainingCycles - 1 ≠ 0 := by simpa using h0
    refine ⟨rfl, rfl, rfl, rfl, rfl, rfl, Or.inl ⟨hb.with_eu_bu _ _ hsid, ?_,
      fun hrem => ⟨rfl, rfl, rfl, hproc, Or.inl ⟨hpe, rfl, by omega⟩⟩, rfl⟩⟩
    exact NormalOk.of_busy hrest hproc hrun hpc hi (fun hx => by simp only [hpe] at hx; cases hx) (fun _ => hm)
  · have h0' : eu.remainingCycles = 1 := by
      have : eu.remainingCycles - 1 = 0 := by simpa using h0
      omega
    simp only [h0, Bool.false_eq_true, if_false] at h
    by_cases hca : s.writeBus.canAdd = true
    · simp only [hca, Bool.not_true, Bool.false_eq_true, if_false, hrun] at h
      have hexec := euIssue_exec h
      rcases euIssue_sim (eu := { eu with remainingCycles := eu.remainingCycles - 1, runner := some r })
        hb hsid hpe hm hpc hi hnf hca hok h with ⟨rfl, hst⟩ | ⟨hfr, hpost⟩
      · have hex0 : s2.executed = s.executed := by
          rcases hexec with ⟨e1, _⟩ | ⟨_, e2⟩
          · exact e1
          · have := e2 rfl; rw [hst.processing] at this
            have hp2 : ({ eu with remainingCycles := eu.remainingCycles - 1, runner := some r } : ExecUnit).processing = true := hproc
            rw [hp2] at this; cases this
        refine ⟨hst.fu, hst.decodeBus, hst.executeBus, hst.wu, hst.mode, hst.cycles, Or.inl ⟨hst.back, ?_, ?_, hex0⟩⟩
        · refine NormalOk.of_busy ?_ (by rw [hst.processing]; exact hproc) (by rw [hst.runner]) hpc hi
            hst.pend (fun hx => by rw [hst.nomem hx]; exact hm)
          rw [hst.fu, hst.decodeBus, hst.executeBus]; exact hrest
        · intro _
          refine ⟨hst.writeBus, hst.ctx, hst.pwmi, by rw [hst.processing]; exact hproc, ?_⟩
          rcases hst.meas with ⟨m1, m2, m3⟩ | m
          · exact Or.inr (Or.inl ⟨m1, m2, h0', m3⟩)
          · exact Or.inr (Or.inr m)
      · refine ⟨hfr.fu, hfr.decodeBus, hfr.executeBus, hfr.wu, hfr.mode, hfr.cycles, ?_⟩
        cases out with
        | none =>
          have hex1 : s2.executed = s.executed + 1 := by
            rcases hexec with ⟨_, e1, _⟩ | ⟨e2, _⟩
            · obtain ⟨_, _, _, _, _, hp0⟩ := hpost
              rw [hp0] at e1
              have hp2 : ({ eu with remainingCycles := eu.remainingCycles - 1, runner := some r } : ExecUnit).processing = true := hproc
              rw [hp2] at e1; cases e1
            · exact e2
          exact execPost_of_euPost (s1 := { s with eu := { eu with remainingCycles := eu.remainingCycles - 1, runner := some r }, bu := s.bu.assert r })
            hrest rfl rfl rfl hpe hm rfl hfr hpost hex1
        | flush pc =>
          obtain ⟨a', c, hst, hpc', hb', hproc'⟩ := hpost
          exact ⟨a', c, hst, hpc', hb', hproc', by rw [hfr.pend]; exact hpe, by rw [hfr.mem]; exact hm⟩
        | ret => exact ⟨hpost.1, hpost.2.1, by rw [hpost.2.2.2]⟩
        | err => exact hpost
    · have hca' : s.writeBus.canAdd = false := by simpa using hca
      simp only [hca', Bool.not_false, if_true, pure, Except.pure] at h
      injection h with h
      simp only [Prod.mk.injEq] at h
      obtain ⟨rfl, rfl⟩ := h
      have hne : s.writeBus.isEmpty = false := by
        cases he : s.writeBus.isEmpty with
        | false => rfl
        | true =>
          unfold SimpleBus.isEmpty at he
          unfold SimpleBus.canAdd at hca'
          simp only [Bool.and_eq_true] at he
          rw [he.1] at hca'; cases hca'
      refine ⟨rfl, rfl, rfl, rfl, rfl, rfl, Or.inl ⟨hb.with_eu_bu _ _ hsid, ?_,
        fun _ => ⟨rfl, rfl, rfl, hproc, Or.inr (Or.inl ⟨hpe, rfl, h0', hne⟩)⟩, rfl⟩⟩
      exact NormalOk.of_busy hrest hproc hrun hpc hi (fun hx => by simp only [hpe] at hx; cases hx) (fun _ => hm)


theorem memAccess_lt_400 : Gen.Latency.MemoryAccess < 400 := by decide

/-- (liveness) the countdown invariants of the execute unit -/
def LiveEu (s : State) : Prop :=
  (s.eu.processing = true → 1 ≤ s.eu.remainingCycles) ∧
  (s.eu.pendingMemoryRead = true → 1 ≤ s.eu.remainingCycles ∧ s.eu.remainingCycles ≤ Gen.Latency.MemoryAccess)

/-- (liveness) from the busy unit's stutter step to the measure -/
theorem stutterOk_of_euStut {app : App} {s s' s2 : State} {eu : ExecUnit} (hs : EuStut s' eu s2)
    (hwb : s'.writeBus = s.writeBus) (hctx : s'.ctx = s.ctx) (hpw : s'.pwmi = s.pwmi) (hrem : 1 ≤ eu.remainingCycles)
    (hphi : 400 + eu.remainingCycles.toNat ≤ euPhi app s) : StutterOk app s s2 := by
  obtain ⟨h1, h2, h3, h4, h5⟩ := hs
  have hlt := memAccess_lt_400
  refine { writeBus := by rw [h1, hwb], ctx := by rw [h2, hctx], pwmi := by rw [h3, hpw], euRem := ?_, euRemP := ?_, meas := ?_ }
  · intro _
    rcases h5 with ⟨_, e2, e3⟩ | ⟨_, e2, _, _⟩ | ⟨_, e2, _⟩
    · rw [e2]; exact e3
    · rw [e2]; decide
    · exact e2
  · intro hp
    rcases h5 with ⟨e1, _, _⟩ | ⟨e1, _, _, _⟩ | ⟨_, e2, e3⟩
    · rw [e1] at hp; cases hp
    · rw [e1] at hp; cases hp
    · exact ⟨e2, e3⟩
  · rcases h5 with ⟨e1, e2, e3⟩ | ⟨e1, e2, e3, e4⟩ | ⟨e1, e2, e3⟩
    · left
      have : euPhi app s2 = 400 + (eu.remainingCycles - 1).toNat := by
        unfold euPhi; simp only [e1, h4, Bool.false_eq_true, if_false, if_true, e2]
      rw [this]; omega
    · right; left
      refine ⟨?_, by rw [← hwb]; exact e4⟩
      have : euPhi app s2 = 400 + (1 : Int).toNat := by
        unfold euPhi; simp only [e1, h4, Bool.false_eq_true, if_false, if_true, e2]
      rw [this]; rw [e3] at hphi; exact hphi
    · left
      have : euPhi app s2 = s2.eu.remainingCycles.toNat := by
        unfold euPhi; simp only [e1, if_true]
      rw [this]; omega

/-- **one cycle of the execute unit** (lemmas (a)–(d) together): with the simulation relation in force, the
execute unit either executes nothing — the relation holds with the same architectural state, and the measure facts
`StutterOk` hold — or executes exactly the instruction at the architectural pc, with the sequential operand values
and the architectural bytes of its load addresses, and the relation holds with the next architectural state; `ret`
and errors are those of the unpipelined machine.  Nothing younger than the architectural pc is ever executed. -/
theorem executeCycle_sim {app : App} {s : State} {a : Arch} {s2 : State} {out : EuOut}
    (hb : Back s a) (hn : NormalOk app s a) (hnf : NoFwd app) (hok : stepOk app a = true)
    (h : executeCycle app s = .ok (s2, out)) :
    s2.fu = s.fu ∧ s2.decodeBus = s.decodeBus ∧ s2.wu = s.wu ∧ s2.mode = s.mode ∧ s2.cycles = s.cycles ∧
      ExecPost app s a s2 (LiveEu s → StutterOk app s s2) out := by
  unfold executeCycle at h
  by_cases hp : s.eu.pendingMemoryRead = true
  · -- a memory read is pending
    obtain ⟨r, hrun, hpo⟩ := hn.pend hp
    have hproc : s.eu.processing = true := by
      cases hx : s.eu.processing with
      | true => rfl
      | false => have := hn.idle hx; rw [hp] at this; cases this
    obtain ⟨r', hr', hpc, hi, hrest⟩ := hn.rest_busy hproc
    have : r' = r := by rw [hrun] at hr'; injection hr' with hr'; exact hr'.symm
    subst this
    simp only [hp, if_true] at h
    by_cases h0 : (s.eu.remainingCycles - 1 != 0) = true
    · have h0' : s.eu.remainingCycles - 1 ≠ 0 := by simpa using h0
      simp only [h0, if_true, pure, Except.pure] at h
      injection h with h
      simp only [Prod.mk.injEq] at h
      obtain ⟨rfl, rfl⟩ := h
      refine ⟨rfl, rfl, rfl, rfl, rfl, Or.inl ⟨hb.with_eu_bu _ _ rfl, ?_, ?_, rfl⟩⟩
      · exact NormalOk.of_busy hrest hproc hrun hpc hi
          (fun _ => ⟨hpo.wbFree, hpo.noWriter, hpo.bu, hpo.memHit, hpo.memMiss⟩)
          (fun hx => by simp at hx)
      · intro hlive
        obtain ⟨hl1, hl2⟩ := hlive.2 hp
        refine { writeBus := rfl, ctx := rfl, pwmi := rfl, euRem := fun _ => (by show 1 ≤ s.eu.remainingCycles - 1; omega),
                 euRemP := fun _ => ⟨(by show 1 ≤ s.eu.remainingCycles - 1; omega), (by show s.eu.remainingCycles - 1 ≤ _; omega)⟩,
                 meas := Or.inl ?_ }
        unfold euPhi
        simp only [hp, if_true]
        show (s.eu.remainingCycles - 1).toNat < s.eu.remainingCycles.toNat
        omega
    · simp only [h0, Bool.false_eq_true, if_false, hrun] at h
      obtain ⟨s1, hs1p, h1, h2, h3, h4, h5, h6, hpe1, hm1, hwb1, hfr, hpost⟩ :=
        euMemDone_sim (eu := { s.eu with remainingCycles := s.eu.remainingCycles - 1, pendingMemoryRead := false })
          hb rfl hpo rfl rfl rfl hpc hi hnf hok h
      refine ⟨by rw [hfr.fu, h1], by rw [hfr.decodeBus, h2], by rw [hfr.wu, h4], by rw [hfr.mode, h5],
        by rw [hfr.cycles, h6], ?_⟩
      exact execPost_of_euPost hrest h1 h2 h3 hpe1 hm1 hwb1 hfr hpost (euMemDone_exec h)
  · have hp' : s.eu.pendingMemoryRead = false := by simpa using hp
    simp only [hp', Bool.false_eq_true, if_false] at h
    have hnomem := hn.nomem hp'
    unfold euTake at h
    by_cases hproc : s.eu.processing = true
    · -- the unit holds an instruction
      obtain ⟨r, hrun, hpc, hi, hrest⟩ := hn.rest_busy hproc
      simp only [hproc, Bool.not_true, Bool.false_eq_true, if_false, pure, Except.pure, bind, Except.bind] at h
      obtain ⟨h1, h2, _, h4, h5, h6, hpost⟩ := euStep_sim hb hrest hproc hrun hp' hnomem rfl hpc hi hnf hok h
      refine ⟨h1, h2, h4, h5, h6, ?_⟩
      cases out with
      | none =>
        rcases hpost with ⟨e1, e2, e3, e4⟩ | hstep
        · refine Or.inl ⟨e1, e2, fun hlive => stutterOk_of_euStut (e3 (hlive.1 hproc)) rfl rfl rfl (hlive.1 hproc) ?_, e4⟩
          unfold euPhi; simp only [hp', hproc, Bool.false_eq_true, if_false, if_true]; exact Nat.le_refl _
        · exact Or.inr hstep
      | flush pc => exact hpost
      | ret => exact hpost
      | err => exact hpost
    · have hproc' : s.eu.processing = false := by simpa using hproc
      have hrest := hn.rest_idle hproc'
      simp only [hproc', Bool.not_false, if_true] at h
      cases hx : s.executeBus.get.1 with
      | none =>
        have hg : s.executeBus.get = (none, s.executeBus.get.2) := by rw [← hx]
        rw [hg] at h
        simp only [pure, Except.pure, bind, Except.bind, Bool.not_false, if_true] at h
        injection h with h
        simp only [Prod.mk.injEq] at h
        obtain ⟨rfl, rfl⟩ := h
        refine ⟨rfl, rfl, rfl, rfl, rfl, Or.inl ⟨hb, ?_, ?_, rfl⟩⟩
        · refine NormalOk.of_idle ⟨?_, hrest.complete, ?_⟩ hproc' hp' hnomem
          · show Consec a.pc (s.executeBus.get.2.inside.map (·.pc) ++ _)
            rw [bus_inside_of_get_none _ hx]; exact hrest.consec
          · show ∀ r ∈ s.executeBus.get.2.inside, _
            rw [bus_inside_of_get_none _ hx]; exact hrest.busInstr
        · intro _
          exact { writeBus := rfl, ctx := rfl, pwmi := rfl, euRem := fun hx' => (by rw [hproc'] at hx'; cases hx'),
                  euRemP := fun hx' => (by rw [hp'] at hx'; cases hx'),
                  meas := Or.inr (Or.inr ⟨hproc', hp', rfl, hx, rfl⟩) }
      | some r =>
        have hg : s.executeBus.get = (some r, s.executeBus.get.2) := by rw [← hx]
        have hins := bus_inside_of_get_some _ r hx
        rw [hg] at h
        simp only at h
        cases hcy : Gen.InstructionType.Cycles r.instr.instructionType with
        | error f => simp [hcy, throw, throwThe, MonadExceptOf.throw, bind, Except.bind] at h
        | ok c =>
          have hc1 : 1 ≤ c := by have := Proofs.Seq.cycles_pos _ _ hcy; omega
          have hc2 : c ≤ 50 := Proofs.Mvp3.cycles_le _ _ hcy
          simp only [hcy, pure, Except.pure, bind, Except.bind, Bool.not_true, Bool.false_eq_true, if_false] at h
          have hcons := hrest.consec
          rw [hins] at hcons
          simp only [List.map_cons, List.cons_append] at hcons
          have hi : instrAt app r.pc = .ok r.instr := hrest.busInstr r (by rw [hins]; simp)
          have hrest' : RestOk app s.executeBus.get.2 s.decodeBus s.fu (a.pc + 4#32) :=
            ⟨hcons.2, hrest.complete, fun r' hr' => hrest.busInstr r' (by rw [hins]; exact List.mem_cons_of_mem _ hr')⟩
          obtain ⟨h1, h2, _, h4, h5, h6, hpost⟩ :=
            euStep_sim (s := { s with executeBus := s.executeBus.get.2 })
              (eu := { s.eu with runner := some r, remainingCycles := c, processing := true })
              hb hrest' rfl rfl hp' hnomem rfl hcons.1 hi hnf hok h
          refine ⟨h1, h2, h4, h5, h6, ?_⟩
          cases out with
          | none =>
            rcases hpost with ⟨e1, e2, e3, e4⟩ | hstep
            · refine Or.inl ⟨e1, e2, fun _ => stutterOk_of_euStut (s := s) (e3 hc1) rfl rfl rfl hc1 ?_, e4⟩
              have : euPhi app s = 500 + frontW app s.executeBus s.decodeBus s.fu := by
                unfold euPhi; simp only [hp', hproc', Bool.false_eq_true, if_false]
              rw [this]
              show 400 + c.toNat ≤ _
              omega
            · exact Or.inr hstep
          | flush pc => exact hpost
          | ret => exact hpost
          | err => exact hpost

end Proofs.Mvp4

/-
  Proofs/Mvp60SlFront.lean — package R60: the fetch unit, the decode unit and the control unit keep the front of the
  pipeline in program order (`Front`), for straight-line programs.
-/
import MajoranaVerif.Proofs.Mvp60SlDefs
open GoInt

set_option linter.unusedSimpArgs false
set_option linter.unusedVariables false

namespace Proofs.Mvp60Sl
open Model Model.Mvp60
open Model.Seq (App Halt Arch stepArch)


/-! ### the fetch unit -/

theorem pastEnd_pcOf (app : App) (k : Nat) (hk : k < 2 ^ 20) : pastEnd app (pcOf k) = decide (app.instrs.length ≤ k) := by
  unfold pastEnd
  rw [pcOf_idx k hk]
  simp only [ge_iff_le, Int.ofNat_le]

/-- `Pcs` without the clauses about the coroutine -/
def PcsW (app : App) (want : Nat) (fu : FetchUnit) (D : List Word) (slack : Nat) : Prop :=
  ∃ h, PcChain h D ∧ fu.pc = pcOf (h + D.length) ∧
    (h = want ∨ (app.instrs.length ≤ h ∧ app.instrs.length ≤ want)) ∧
    h + D.length + slack ≤ app.instrs.length + 2 ∧
    (fu.complete = true → app.instrs.length ≤ h + D.length)

theorem Pcs.weak {app : App} {want : Nat} {fu : FetchUnit} {D : List Word} {slack : Nat} (h : Pcs app want fu D slack) :
    PcsW app want fu D slack := by
  obtain ⟨h0, a1, a2, a3, a4, _, _, a7⟩ := h
  exact ⟨h0, a1, a2, a3, a4, a7⟩

theorem fuEmit_pcs (app : App) (hsm : app.instrs.length < 250) (want : Nat) (fu : FetchUnit) (bus : BufferedBus Word) (c : Int)
    (slack : Nat) (hco : fu.co ≠ .wait) (h : PcsW app want fu bus.inside (slack + 1)) :
    Pcs app want (fuEmit app fu bus c).1 (fuEmit app fu bus c).2.inside slack ∧
    (fuEmit app fu bus c).1.toCleanPending = fu.toCleanPending ∧ (fuEmit app fu bus c).1.co ≠ .wait ∧
    (fuEmit app fu bus c).2.bufferLength = bus.bufferLength := by
  obtain ⟨h0, hch, hpc, hd, hb, hcm⟩ := h
  have hidx : h0 + bus.inside.length + 1 < 2 ^ 20 := by omega
  have hpe : pastEnd app (fu.pc + 4#32) = decide (app.instrs.length ≤ h0 + bus.inside.length + 1) := by
    rw [hpc, pcOf_succ, pastEnd_pcOf app _ hidx]
  unfold fuEmit
  simp only [hpe, inside_add]
  refine ⟨⟨h0, ?_, ?_, hd, ?_, ?_, ?_, ?_⟩, ?_, ?_, rfl⟩
  · rw [pcChain_append]; exact ⟨hch, ⟨hpc, trivial⟩⟩
  · split <;> simp only [List.length_append, List.length_cons, List.length_nil, hpc, pcOf_succ] <;> rfl
  · simp only [List.length_append, List.length_cons, List.length_nil]; omega
  · split
    · intro hc; cases hc
    · rename_i hlt
      simp only [decide_eq_true_eq, Nat.not_le] at hlt
      intro _; simp only [List.length_append, List.length_cons, List.length_nil]; omega
  · split
    · intro hc; cases hc
    · intro hc; exact absurd hc hco
  · split
    · rename_i hge
      simp only [decide_eq_true_eq] at hge
      intro _; simp only [List.length_append, List.length_cons, List.length_nil]; omega
    · rename_i hlt
      intro hc
      have := hcm hc
      simp only [List.length_append, List.length_cons, List.length_nil]; omega
  · split <;> rfl
  · split
    · intro hc; cases hc
    · exact hco

theorem coFetchLoop_pcs (app : App) (hsm : app.instrs.length < 250) (want : Nat) (c : Int) :
    ∀ (n : Nat) (fu fu' : FetchUnit) (mmu mmu' : Model.Mmu.Mmu) (bus bus' : BufferedBus Word),
    fu.co ≠ .wait → Pcs app want fu bus.inside n →
    coFetchLoop app c n fu mmu bus = .ok (fu', mmu', bus') →
    Pcs app want fu' bus'.inside 0 ∧ fu'.toCleanPending = fu.toCleanPending ∧ bus'.bufferLength = bus.bufferLength ∧
    mmu'.l1d = mmu.l1d := by
  intro n
  induction n with
  | zero =>
    intro fu fu' mmu mmu' bus bus' _ h hr
    simp only [coFetchLoop, pure, Except.pure, Except.ok.injEq, Prod.mk.injEq] at hr
    obtain ⟨rfl, rfl, rfl⟩ := hr
    exact ⟨h, rfl, rfl, rfl⟩
  | succ n ih =>
    intro fu fu' mmu mmu' bus bus' hco h hr
    simp only [coFetchLoop] at hr
    split at hr
    · simp only [pure, Except.pure, Except.ok.injEq, Prod.mk.injEq] at hr
      obtain ⟨rfl, rfl, rfl⟩ := hr
      obtain ⟨h0, a1, a2, a3, a4, a5, a6, a7⟩ := h
      exact ⟨⟨h0, a1, a2, a3, by omega, a5, a6, a7⟩, rfl, rfl, rfl⟩
    · simp only [bind, Except.bind] at hr
      split at hr
      · cases hr
      · rename_i v hv
        obtain ⟨hit, mmu1⟩ := v
        have hl1 : mmu1.l1d = mmu.l1d := Proofs.Mvp4.getFromL1I_l1d hv
        simp only at hr
        split at hr
        · simp only [pure, Except.pure, Except.ok.injEq, Prod.mk.injEq] at hr
          obtain ⟨rfl, rfl, rfl⟩ := hr
          obtain ⟨h0, a1, a2, a3, a4, a5, a6, a7⟩ := h
          exact ⟨⟨h0, a1, a2, a3, by omega, (fun hc => by cases hc), (fun _ => by omega), a7⟩, rfl, rfl, hl1⟩
        · obtain ⟨e1, e2, e3, e4⟩ := fuEmit_pcs app hsm want fu bus c n hco h.weak
          have := ih _ fu' mmu1 mmu' _ bus' e3 e1 hr
          exact ⟨this.1, this.2.1.trans e2, this.2.2.1.trans e4, this.2.2.2.trans hl1⟩

theorem fetchCore_pcs0 (app : App) (hsm : app.instrs.length < 250) (want : Nat) (c : Int)
    (fu fu' : FetchUnit) (mmu mmu' : Model.Mmu.Mmu) (bus bus' : BufferedBus Word)
    (hcl : fu.toCleanPending = false) (hbl : bus.bufferLength = 2) (h : Pcs app want fu bus.inside 0)
    (hr : fetchCore app c fu mmu bus = .ok (fu', mmu', bus')) :
    Pcs app want fu' bus'.inside 0 ∧ fu'.toCleanPending = false ∧ bus'.bufferLength = 2 ∧ mmu'.l1d = mmu.l1d := by
  obtain ⟨fpc, ftc, fcm, fco, frc⟩ := fu
  simp only at hcl
  subst hcl
  unfold fetchCore at hr
  simp only [Bool.false_eq_true, if_false] at hr
  cases hco : fco with
  | done =>
    simp only [hco, pure, Except.pure, Except.ok.injEq, Prod.mk.injEq] at hr
    obtain ⟨rfl, rfl, rfl⟩ := hr
    subst hco
    exact ⟨h, rfl, hbl, rfl⟩
  | wait =>
    simp only [hco] at hr
    split at hr
    · simp only [pure, Except.pure, Except.ok.injEq, Prod.mk.injEq] at hr
      obtain ⟨rfl, rfl, rfl⟩ := hr
      subst hco
      exact ⟨h, rfl, hbl, rfl⟩
    · split at hr
      · cases hr
      · simp only [pure, Except.pure, Except.ok.injEq, Prod.mk.injEq] at hr
        obtain ⟨rfl, rfl, rfl⟩ := hr
        obtain ⟨h0, a1, a2, a3, a4, a5, a6, a7⟩ := h
        have hw : PcsW app want ⟨fpc, false, fcm, .none, frc⟩ bus.inside (0 + 1) :=
          ⟨h0, a1, a2, a3, by have := a6 hco; omega, a7⟩
        obtain ⟨e1, e2, e3, e4⟩ := fuEmit_pcs app hsm want ⟨fpc, false, fcm, .none, frc⟩ bus c 0 (by intro hc; cases hc) hw
        exact ⟨e1, e2, e4.trans hbl, rfl⟩
  | none =>
    simp only [hco] at hr
    split at hr
    · simp only [pure, Except.pure, Except.ok.injEq, Prod.mk.injEq] at hr
      obtain ⟨rfl, rfl, rfl⟩ := hr
      subst hco
      exact ⟨h, rfl, hbl, rfl⟩
    · have hn : bus.outLength.toNat = 2 := by simp only [BufferedBus.outLength, hbl]; rfl
      rw [hn] at hr
      obtain ⟨h0, a1, a2, a3, a4, a5, a6, a7⟩ := h
      subst hco
      have h2 : Pcs app want ⟨fpc, false, fcm, .none, frc⟩ bus.inside 2 := ⟨h0, a1, a2, a3, by have := a5 rfl; omega, a5, a6, a7⟩
      obtain ⟨e1, e2, e3, e4⟩ := coFetchLoop_pcs app hsm want c 2 _ fu' mmu mmu' bus bus' (by intro hc; cases hc) h2 hr
      exact ⟨e1, e2, e3.trans hbl, e4⟩

theorem fetchCore_clean (app : App) (c : Int) (fu : FetchUnit) (mmu : Model.Mmu.Mmu) (bus : BufferedBus Word)
    (h : fu.toCleanPending = true) :
    fetchCore app c fu mmu bus = fetchCore app c { fu with toCleanPending := false } mmu bus.clean := by
  unfold fetchCore
  simp only [h, if_true, Bool.false_eq_true, if_false]

/-- the fetch unit, with a pending clean of the decode bus -/
theorem fetchCore_pcs (app : App) (hsm : app.instrs.length < 250) (want : Nat) (c : Int)
    (fu fu' : FetchUnit) (mmu mmu' : Model.Mmu.Mmu) (bus bus' : BufferedBus Word)
    (hbl : bus.bufferLength = 2) (h : Pcs app want fu (if fu.toCleanPending then [] else bus.inside) 0)
    (hr : fetchCore app c fu mmu bus = .ok (fu', mmu', bus')) :
    Pcs app want fu' bus'.inside 0 ∧ fu'.toCleanPending = false ∧ bus'.bufferLength = 2 ∧ mmu'.l1d = mmu.l1d := by
  cases hc : fu.toCleanPending with
  | false =>
    simp only [hc, Bool.false_eq_true, if_false] at h
    exact fetchCore_pcs0 app hsm want c fu fu' mmu mmu' bus bus' hc hbl h hr
  | true =>
    simp only [hc, if_true] at h
    rw [fetchCore_clean app c fu mmu bus hc] at hr
    exact fetchCore_pcs0 app hsm want c { fu with toCleanPending := false } fu' mmu mmu' bus.clean bus' rfl hbl h hr

theorem fuEmit_frame (app : App) (fu : FetchUnit) (bus : BufferedBus Word) (c : Int) :
    (fuEmit app fu bus c).2.bufferLength = bus.bufferLength ∧ (fuEmit app fu bus c).1.toCleanPending = fu.toCleanPending := by
  unfold fuEmit
  refine ⟨rfl, ?_⟩
  simp only
  split <;> rfl

/-- the fetch unit in any state keeps the shape of the decode bus and the data cache -/
theorem coFetchLoop_frame (app : App) (c : Int) :
    ∀ (n : Nat) (fu fu' : FetchUnit) (mmu mmu' : Model.Mmu.Mmu) (bus bus' : BufferedBus Word),
    coFetchLoop app c n fu mmu bus = .ok (fu', mmu', bus') →
    bus'.bufferLength = bus.bufferLength ∧ mmu'.l1d = mmu.l1d ∧ fu'.toCleanPending = fu.toCleanPending := by
  intro n
  induction n with
  | zero =>
    intro fu fu' mmu mmu' bus bus' hr
    simp only [coFetchLoop, pure, Except.pure, Except.ok.injEq, Prod.mk.injEq] at hr
    obtain ⟨rfl, rfl, rfl⟩ := hr
    exact ⟨rfl, rfl, rfl⟩
  | succ n ih =>
    intro fu fu' mmu mmu' bus bus' hr
    simp only [coFetchLoop] at hr
    split at hr
    · simp only [pure, Except.pure, Except.ok.injEq, Prod.mk.injEq] at hr
      obtain ⟨rfl, rfl, rfl⟩ := hr
      exact ⟨rfl, rfl, rfl⟩
    · simp only [bind, Except.bind] at hr
      split at hr
      · cases hr
      · rename_i v hv
        obtain ⟨hit, mmu1⟩ := v
        have hl1 : mmu1.l1d = mmu.l1d := Proofs.Mvp4.getFromL1I_l1d hv
        simp only at hr
        split at hr
        · simp only [pure, Except.pure, Except.ok.injEq, Prod.mk.injEq] at hr
          obtain ⟨rfl, rfl, rfl⟩ := hr
          exact ⟨rfl, hl1, rfl⟩
        · have := ih _ fu' mmu1 mmu' _ bus' hr
          have hf := fuEmit_frame app fu bus c
          exact ⟨this.1.trans hf.1, this.2.1.trans hl1, this.2.2.trans hf.2⟩

theorem fetchCore_frame (app : App) (c : Int)
    (fu fu' : FetchUnit) (mmu mmu' : Model.Mmu.Mmu) (bus bus' : BufferedBus Word)
    (hr : fetchCore app c fu mmu bus = .ok (fu', mmu', bus')) :
    bus'.bufferLength = bus.bufferLength ∧ mmu'.l1d = mmu.l1d ∧ fu'.toCleanPending = false := by
  have key : ∀ (fu : FetchUnit) (bus : BufferedBus Word), fu.toCleanPending = false →
      fetchCore app c fu mmu bus = .ok (fu', mmu', bus') →
      bus'.bufferLength = bus.bufferLength ∧ mmu'.l1d = mmu.l1d ∧ fu'.toCleanPending = false := by
    intro fu bus hcl hr
    obtain ⟨fpc, ftc, fcm, fco, frc⟩ := fu
    simp only at hcl
    subst hcl
    unfold fetchCore at hr
    simp only [Bool.false_eq_true, if_false] at hr
    cases hco : fco with
    | done =>
      simp only [hco, pure, Except.pure, Except.ok.injEq, Prod.mk.injEq] at hr
      obtain ⟨rfl, rfl, rfl⟩ := hr
      exact ⟨rfl, rfl, rfl⟩
    | wait =>
      simp only [hco] at hr
      split at hr
      · simp only [pure, Except.pure, Except.ok.injEq, Prod.mk.injEq] at hr
        obtain ⟨rfl, rfl, rfl⟩ := hr
        exact ⟨rfl, rfl, rfl⟩
      · split at hr
        · cases hr
        · simp only [pure, Except.pure, Except.ok.injEq, Prod.mk.injEq] at hr
          obtain ⟨rfl, rfl, rfl⟩ := hr
          have hf := fuEmit_frame app ⟨fpc, false, fcm, .none, frc⟩ bus c
          exact ⟨hf.1, rfl, hf.2⟩
    | none =>
      simp only [hco] at hr
      split at hr
      · simp only [pure, Except.pure, Except.ok.injEq, Prod.mk.injEq] at hr
        obtain ⟨rfl, rfl, rfl⟩ := hr
        exact ⟨rfl, rfl, rfl⟩
      · have := coFetchLoop_frame app c _ _ fu' mmu mmu' bus bus' hr
        exact ⟨this.1, this.2.1, this.2.2⟩
  cases hc : fu.toCleanPending with
  | false => exact key fu bus hc hr
  | true =>
    rw [fetchCore_clean app c fu mmu bus hc] at hr
    exact key { fu with toCleanPending := false } bus.clean rfl hr

/-! ### the decode unit -/

theorem sl_of_get (app : App) (hsl : StraightLineRet app = true) (k : Nat) (i : Gen.Instr) (h : app.instrs[k]? = some i) :
    slrInstr i = true := by
  simp only [StraightLineRet, List.all_eq_true] at hsl
  exact hsl i (List.mem_of_getElem? h)

theorem slr_of_sl (app : App) (h : StraightLine app = true) : StraightLineRet app = true := by
  simp only [StraightLine, StraightLineRet, List.all_eq_true] at h ⊢
  intro i hi
  have := h i hi
  simp only [slInstr, slrInstr, Bool.and_eq_true] at this ⊢
  exact this.1

theorem g_of_get (app : App) (hg : JClass app = true) (k : Nat) (i : Gen.Instr) (h : app.instrs[k]? = some i) :
    jInstr app i = true := by
  simp only [JClass, Bool.and_eq_true, List.all_eq_true] at hg
  exact hg.1 i (List.mem_of_getElem? h)

theorem labelOf_none_of_not_branch (i : Gen.Instr) (h : i.instructionType.IsBranch = false) : labelOf i = none := by
  cases i <;> first | rfl | (simp [Gen.Instr.instructionType, Gen.InstructionType.IsBranch, Gen.InstructionType.IsUnconditionalBranch,
    Gen.InstructionType.IsConditionalBranch, Gen.op_beq.InstructionType, Gen.op_beqz.InstructionType, Gen.op_bge.InstructionType,
    Gen.op_bgeu.InstructionType, Gen.op_ble.InstructionType, Gen.op_blt.InstructionType, Gen.op_bltu.InstructionType,
    Gen.op_bne.InstructionType, Gen.op_bnez.InstructionType, Gen.op_j.InstructionType, Gen.op_jal.InstructionType] at h)

theorem proved_of_slr (app : App) (h : StraightLineRet app = true) : ProvedClass app = true := by
  simp only [StraightLineRet, List.all_eq_true] at h
  simp only [ProvedClass, Bool.and_eq_true, Bool.or_eq_true, List.all_eq_true]
  refine ⟨fun i hi => ?_, Or.inr fun i hi => ?_⟩
  · have := h i hi
    simp only [slrInstr, Bool.and_eq_true, Bool.not_eq_true'] at this
    have hb := this.2
    simp only [Gen.InstructionType.IsBranch, Bool.or_eq_false_iff] at hb
    simp only [gInstr, labelOk, labelOf_none_of_not_branch i this.2, this.1, hb.1, Bool.not_false, Bool.and_self]
  · have := h i hi
    simp only [slrInstr, Bool.and_eq_true, Bool.not_eq_true', Gen.InstructionType.IsBranch, Bool.or_eq_false_iff] at this
    simp only [this.2.2, Bool.not_false]

theorem proved_of_branchOnly (app : App) (h : BranchOnly app = true) : ProvedClass app = true := by
  simp only [BranchOnly, List.all_eq_true] at h
  simp only [ProvedClass, Bool.and_eq_true, Bool.or_eq_true, List.all_eq_true]
  refine ⟨fun i hi => ?_, Or.inl fun i hi => ?_⟩
  · have := h i hi
    simp only [brInstr, Bool.and_eq_true] at this
    simp only [gInstr, this.1.1.1, this.1.2, this.2, Bool.and_self]
  · have := h i hi
    simp only [brInstr, Bool.and_eq_true] at this
    exact this.1.1.2

theorem jclass_of_proved (app : App) (h : ProvedClass app = true) : JClass app = true := by
  simp only [ProvedClass, Bool.and_eq_true, Bool.or_eq_true, List.all_eq_true] at h
  simp only [JClass, Bool.and_eq_true, Bool.or_eq_true, List.all_eq_true]
  refine ⟨fun i hi => ?_, ?_⟩
  · have := h.1 i hi
    simp only [gInstr, Bool.and_eq_true] at this
    simp only [jInstr, this.1.1, this.2, Bool.and_self]
  · rcases h.2 with h2 | h2
    · exact Or.inl h2
    · by_cases hd : ∀ i ∈ app.instrs, (!isDivRem i.instructionType) = true
      · exact Or.inl hd
      · right
        intro i hi
        have h1 := h.1 i hi
        simp only [gInstr, Bool.and_eq_true, Bool.not_eq_true'] at h1
        have h3 := h2 i hi
        simp only [Bool.not_eq_true'] at h3
        simp only [Gen.InstructionType.IsBranch, h1.1.2, h3, Bool.or_self, Bool.not_false]

theorem noJmp_of_proved (app : App) (h : ProvedClass app = true) : NoJmp app := by
  simp only [ProvedClass, Bool.and_eq_true, List.all_eq_true] at h
  simp only [NoJmp, List.all_eq_true]
  intro i hi
  have := h.1 i hi
  simp only [gInstr, Bool.and_eq_true] at this
  exact this.1.2

theorem jclass_of_regOnlyWf (app : App) (h : RegOnlyWf app = true) : JClass app = true := by
  simp only [RegOnlyWf, RegOnly, Bool.and_eq_true, List.all_eq_true] at h
  simp only [JClass, Bool.and_eq_true, Bool.or_eq_true, List.all_eq_true]
  refine ⟨fun i hi => ?_, Or.inl fun i hi => ?_⟩
  · have h1 := h.1 i hi
    simp only [jInstr, h1.1.1, h.2 i hi, Bool.and_self]
  · have h1 := h.1 i hi
    exact h1.1.2

theorem instrAt_pcOf (app : App) (k : Nat) (hk : k < 2 ^ 20) (i : Gen.Instr) (h : app.instrs[k]? = some i) :
    instrAt app (pcOf k) = .ok i := by
  unfold instrAt
  simp only [pcOf_idx k hk]
  have : ¬ ((k : Int) < 0) := by omega
  simp only [this, if_false, Int.toNat_natCast, h, pure, Except.pure]

/-- what the decode loop has added: no jump and the pcs still continue (and the unit is as open as before), or a jump as the
last one (and the unit is closed) -/
def Added (app : App) (fu : FetchUnit) (want : Nat) (du du' : DecodeUnit) (D' : List Word) (added : List Runner) : Prop :=
  (du'.pendingBranchResolution = du.pendingBranchResolution ∧ Pcs app want fu D' 0 ∧ ∀ r ∈ added, isJ r = false) ∨
  (du'.pendingBranchResolution = true ∧ ∃ pre j, added = pre ++ [j] ∧ isJ j = true ∧ ∀ r ∈ pre, isJ r = false)

theorem decodeLoop_front (app : App) (hsm : app.instrs.length < 250) (ctx : Model.Context)
    (c : Int) (fu : FetchUnit) (k : Nat) :
    ∀ (n : Nat) (du du' : DecodeUnit) (inBus inBus' : BufferedBus Word) (outBus outBus' : BufferedBus Runner),
    Chain app k outBus.inside → k + outBus.inside.length ≤ app.instrs.length →
    Pcs app (k + outBus.inside.length) fu inBus.inside 0 →
    decodeLoop app ctx c n du inBus outBus = .ok (du', inBus', outBus') →
    Chain app k outBus'.inside ∧ k + outBus'.inside.length ≤ app.instrs.length ∧
    inBus'.bufferLength = inBus.bufferLength ∧
    ∃ added, outBus'.inside = outBus.inside ++ added ∧
      Added app fu (k + outBus'.inside.length) du du' inBus'.inside added := by
  intro n
  induction n with
  | zero =>
    intro du du' inBus inBus' outBus outBus' h1 h2 h3 hr
    simp only [decodeLoop, pure, Except.pure, Except.ok.injEq, Prod.mk.injEq] at hr
    obtain ⟨rfl, rfl, rfl⟩ := hr
    exact ⟨h1, h2, rfl, [], by simp, Or.inl ⟨rfl, h3, fun r hr => by cases hr⟩⟩
  | succ n ih =>
    intro du du' inBus inBus' outBus outBus' h1 h2 h3 hr
    simp only [decodeLoop] at hr
    cases hq : inBus.queue with
    | nil =>
      simp only [get_none _ hq, pure, Except.pure, Except.ok.injEq, Prod.mk.injEq] at hr
      obtain ⟨rfl, rfl, rfl⟩ := hr
      exact ⟨h1, h2, rfl, [], by simp, Or.inl ⟨rfl, h3, fun r hr => by cases hr⟩⟩
    | cons p q =>
      simp only [get_some _ p q hq] at hr
      obtain ⟨h0, a1, a2, a3, a4, a5, a6, a7⟩ := h3
      have hin : inBus.inside = p :: (q ++ inBus.buffer.map (·.2)) := by simp only [BufferedBus.inside, hq, List.cons_append]
      rw [hin] at a1 a2 a4 a5 a6 a7
      obtain ⟨hp, a1'⟩ := a1
      simp only [List.length_cons] at a2 a4 a5 a6 a7
      have hh : h0 < 2 ^ 20 := by omega
      have hin' : ({ inBus with queue := q } : BufferedBus Word).inside = q ++ inBus.buffer.map (·.2) := rfl
      have hidx : Int.tdiv p.toInt 4 = h0 := by rw [hp]; exact pcOf_idx h0 hh
      simp only [hidx, ge_iff_le, Int.ofNat_le] at hr
      by_cases hge : app.instrs.length ≤ h0
      · simp only [hge, if_true, pure, Except.pure, Except.ok.injEq, Prod.mk.injEq] at hr
        obtain ⟨rfl, rfl, rfl⟩ := hr
        refine ⟨h1, h2, rfl, [], by simp, Or.inl ⟨rfl, ⟨h0 + 1, a1', ?_, ?_, ?_, ?_, ?_, ?_⟩, fun r hr => by cases hr⟩⟩
        · rw [hin', a2]; congr 1; omega
        · right
          rcases a3 with a3 | a3
          · exact ⟨by omega, by omega⟩
          · exact ⟨by omega, a3.2⟩
        · rw [hin']; omega
        · rw [hin']; intro hc; have := a5 hc; omega
        · rw [hin']; intro hc; have := a6 hc; omega
        · rw [hin']; intro hc; have := a7 hc; omega
      · simp only [hge, if_false, bind, Except.bind] at hr
        have hw : h0 = k + outBus.inside.length := by
          rcases a3 with a3 | a3
          · exact a3
          · omega
        obtain ⟨i, hi⟩ := get_lt app.instrs h0 (by omega)
        rw [hp, instrAt_pcOf app h0 hh i hi] at hr
        simp only at hr
        have hch : Chain app k (outBus.add ⟨i, pcOf h0, pcOf h0 + ctx.sequenceID * 1000#32⟩ c).inside := by
          rw [inside_add, chain_append]; exact ⟨h1, ⟨⟨by rw [← hw], by rw [← hw]; exact hi⟩, trivial⟩⟩
        have hlen : k + (outBus.add ⟨i, pcOf h0, pcOf h0 + ctx.sequenceID * 1000#32⟩ c).inside.length ≤ app.instrs.length := by
          rw [inside_add]; simp only [List.length_append, List.length_cons, List.length_nil]; omega
        cases hj : i.instructionType.IsUnconditionalBranch with
        | true =>
          simp only [hj, if_true, pure, Except.pure, Except.ok.injEq, Prod.mk.injEq] at hr
          obtain ⟨rfl, rfl, rfl⟩ := hr
          refine ⟨hch, hlen, rfl, [⟨i, pcOf h0, pcOf h0 + ctx.sequenceID * 1000#32⟩], inside_add _ _ _, Or.inr ⟨rfl, [], _, rfl, hj, fun r hr => by cases hr⟩⟩
        | false =>
          simp only [hj, Bool.false_eq_true, if_false] at hr
          have hpcs' : Pcs app (k + (outBus.add ⟨i, pcOf h0, pcOf h0 + ctx.sequenceID * 1000#32⟩ c).inside.length) fu
              ({ inBus with queue := q } : BufferedBus Word).inside 0 := by
            rw [inside_add]
            simp only [List.length_append, List.length_cons, List.length_nil]
            refine ⟨h0 + 1, a1', ?_, Or.inl (by omega), ?_, ?_, ?_, ?_⟩
            · rw [hin', a2]; congr 1; omega
            · rw [hin']; omega
            · rw [hin']; intro hc; have := a5 hc; omega
            · rw [hin']; intro hc; have := a6 hc; omega
            · rw [hin']; intro hc; have := a7 hc; omega
          split at hr
          · -- a `ret`: the decode unit stops here
            simp only [pure, Except.pure, Except.ok.injEq, Prod.mk.injEq] at hr
            obtain ⟨rfl, rfl, rfl⟩ := hr
            refine ⟨hch, hlen, rfl, [⟨i, pcOf h0, pcOf h0 + ctx.sequenceID * 1000#32⟩], inside_add _ _ _, Or.inl ⟨rfl, hpcs', ?_⟩⟩
            intro r hr
            simp only [List.mem_singleton] at hr
            subst hr; exact hj
          · obtain ⟨t1, t2, t3, added, t4, t5⟩ := ih _ du' _ inBus' _ outBus' hch hlen hpcs' hr
            refine ⟨t1, t2, t3, ⟨i, pcOf h0, pcOf h0 + ctx.sequenceID * 1000#32⟩ :: added, ?_, ?_⟩
            · rw [t4, inside_add, List.append_assoc]; rfl
            · rcases t5 with ⟨u1, u2, u3⟩ | ⟨u1, pre, j, u2, u3, u4⟩
              · refine Or.inl ⟨u1, u2, ?_⟩
                intro r hr
                rcases List.mem_cons.mp hr with rfl | hr
                · exact hj
                · exact u3 r hr
              · refine Or.inr ⟨u1, _ :: pre, j, by rw [u2]; rfl, u3, ?_⟩
                intro r hr
                rcases List.mem_cons.mp hr with rfl | hr
                · exact hj
                · exact u4 r hr

/-- every runner the decode unit adds carries the sequence id `pc + ctx.sequenceID * 1000` -/
theorem decodeLoop_seq (app : App) (ctx : Model.Context) (c : Int) :
    ∀ (n : Nat) (du du' : DecodeUnit) (inBus inBus' : BufferedBus Word) (outBus outBus' : BufferedBus Runner),
    decodeLoop app ctx c n du inBus outBus = .ok (du', inBus', outBus') →
    ∀ r ∈ outBus'.inside, r ∈ outBus.inside ∨ r.seq = r.pc + ctx.sequenceID * 1000#32 := by
  intro n
  induction n with
  | zero =>
    intro du du' inBus inBus' outBus outBus' hr r hmem
    simp only [decodeLoop, pure, Except.pure, Except.ok.injEq, Prod.mk.injEq] at hr
    obtain ⟨_, _, rfl⟩ := hr
    exact Or.inl hmem
  | succ n ih =>
    intro du du' inBus inBus' outBus outBus' hr r hmem
    simp only [decodeLoop] at hr
    cases hq : inBus.queue with
    | nil =>
      simp only [get_none _ hq, pure, Except.pure, Except.ok.injEq, Prod.mk.injEq] at hr
      obtain ⟨_, _, rfl⟩ := hr
      exact Or.inl hmem
    | cons p q =>
      simp only [get_some _ p q hq] at hr
      split at hr
      · simp only [pure, Except.pure, Except.ok.injEq, Prod.mk.injEq] at hr
        obtain ⟨_, _, rfl⟩ := hr
        exact Or.inl hmem
      · simp only [bind, Except.bind] at hr
        split at hr
        · cases hr
        · rename_i i hi
          split at hr
          · simp only [pure, Except.pure, Except.ok.injEq, Prod.mk.injEq] at hr
            obtain ⟨_, _, rfl⟩ := hr
            rw [inside_add] at hmem
            rcases List.mem_append.mp hmem with h | h
            · exact Or.inl h
            · simp only [List.mem_singleton] at h; subst h; exact Or.inr rfl
          · split at hr
            · simp only [pure, Except.pure, Except.ok.injEq, Prod.mk.injEq] at hr
              obtain ⟨_, _, rfl⟩ := hr
              rw [inside_add] at hmem
              rcases List.mem_append.mp hmem with h | h
              · exact Or.inl h
              · simp only [List.mem_singleton] at h; subst h; exact Or.inr rfl
            · rcases ih _ du' _ inBus' _ outBus' hr r hmem with h | h
              · rw [inside_add] at h
                rcases List.mem_append.mp h with h | h
                · exact Or.inl h
                · simp only [List.mem_singleton] at h; subst h; exact Or.inr rfl
              · exact Or.inr h

/-- the decode unit only appends to the buffer of the control bus -/
theorem decodeLoop_queue (app : App) (ctx : Model.Context) (c : Int) :
    ∀ (n : Nat) (du du' : DecodeUnit) (inBus inBus' : BufferedBus Word) (outBus outBus' : BufferedBus Runner),
    decodeLoop app ctx c n du inBus outBus = .ok (du', inBus', outBus') → outBus'.queue = outBus.queue := by
  intro n
  induction n with
  | zero =>
    intro du du' inBus inBus' outBus outBus' hr
    simp only [decodeLoop, pure, Except.pure, Except.ok.injEq, Prod.mk.injEq] at hr
    obtain ⟨_, _, rfl⟩ := hr
    rfl
  | succ n ih =>
    intro du du' inBus inBus' outBus outBus' hr
    simp only [decodeLoop] at hr
    cases hq : inBus.queue with
    | nil =>
      simp only [get_none _ hq, pure, Except.pure, Except.ok.injEq, Prod.mk.injEq] at hr
      obtain ⟨_, _, rfl⟩ := hr
      rfl
    | cons p q =>
      simp only [get_some _ p q hq] at hr
      split at hr
      · simp only [pure, Except.pure, Except.ok.injEq, Prod.mk.injEq] at hr
        obtain ⟨_, _, rfl⟩ := hr
        rfl
      · simp only [bind, Except.bind] at hr
        split at hr
        · cases hr
        · rename_i i hi
          split at hr
          · simp only [pure, Except.pure, Except.ok.injEq, Prod.mk.injEq] at hr
            obtain ⟨_, _, rfl⟩ := hr
            rfl
          · split at hr
            · simp only [pure, Except.pure, Except.ok.injEq, Prod.mk.injEq] at hr
              obtain ⟨_, _, rfl⟩ := hr
              rfl
            · exact (ih _ du' _ inBus' _ outBus' hr).trans rfl

/-! ### the control unit -/

/-- the runners `rs` were issued in this order in cycle `c`, each free of hazards against the scoreboards at its turn; a `ret`
only onto an empty execute bus, and nothing behind it; a branch only as the first of the cycle (`p` = number issued before) -/
inductive Issued (c : Int) : Int → List Runner → Model.Context × BufferedBus Runner → Model.Context × BufferedBus Runner → Prop
  | nil (p x) : Issued c p [] x x
  | cons (p r rs ctx bus y) : isDataHazard3 ctx r.instr = false →
      ((r.instr.instructionType == Gen.InstructionType.Ret) = true → bus.isEmpty = true ∧ rs = []) →
      (r.instr.instructionType.IsBranch = true → p ≤ 0) →
      Issued c (p + 1) rs (addPendingRegisters ctx r.instr, bus.add r c) y → Issued c p (r :: rs) (ctx, bus) y

theorem handleRunner_cases (ctx : Model.Context) (bus : BufferedBus Runner) (c p : Int) (r : Runner) :
    (handleRunner ctx bus c p r = ((false, true), ctx, bus)) ∨
    (isDataHazard3 ctx r.instr = false ∧
      ((r.instr.instructionType == Gen.InstructionType.Ret) = true → bus.isEmpty = true) ∧
      (r.instr.instructionType.IsBranch = true → p ≤ 0) ∧
      handleRunner ctx bus c p r = ((true, r.instr.instructionType == Gen.InstructionType.Ret), addPendingRegisters ctx r.instr, bus.add r c)) := by
  unfold handleRunner
  simp only
  split
  · left; rfl
  · rename_i h1
    split
    · left; rfl
    · rename_i h2
      split
      · left; rfl
      · rename_i h3
        right
        refine ⟨by simpa using h3, ?_, ?_, rfl⟩
        · intro hret
          simp only [hret, Bool.true_and, Bool.not_eq_true', Bool.not_eq_false'] at h1
          simpa using h1
        · intro hb
          simp only [hb, Bool.and_true, decide_eq_true_eq] at h2
          omega

theorem cuBusLoop_spec (c : Int) : ∀ (n : Nat) (st : CuSt), st.pendings.items = [] →
    ∃ pushed, Issued c st.pushed pushed (st.ctx, st.outBus) ((cuBusLoop c n st).ctx, (cuBusLoop c n st).outBus) ∧
      pushed ++ (cuBusLoop c n st).pendings.items.map (·.2) ++ (cuBusLoop c n st).inBus.inside = st.inBus.inside ∧
      (cuBusLoop c n st).pendings.items.length ≤ 1 ∧ (pushed.length : Int) ≤ max st.remaining 0 := by
  intro n
  induction n with
  | zero => intro st hp; exact ⟨[], Issued.nil _ _, by simp [cuBusLoop, hp], by simp [cuBusLoop, hp], by simp only [List.length_nil, Int.natCast_zero]; omega⟩
  | succ n ih =>
    intro st hp
    simp only [cuBusLoop]
    split
    · exact ⟨[], Issued.nil _ _, by simp [hp], by simp [hp], by simp only [List.length_nil, Int.natCast_zero]; omega⟩
    · rename_i hcond
      have hrem : st.remaining > 0 := by
        have hb : (decide (st.remaining > 0) && !st.pendings.isFull) = true := by simpa using hcond
        simp only [Bool.and_eq_true, decide_eq_true_eq] at hb
        exact hb.1
      cases hq : st.inBus.queue with
      | nil =>
        simp only [get_none _ hq]
        exact ⟨[], Issued.nil _ _, by simp [hp], by simp [hp], by simp only [List.length_nil, Int.natCast_zero]; omega⟩
      | cons r q =>
        simp only [get_some _ r q hq]
        have hin : st.inBus.inside = r :: ({ st.inBus with queue := q } : BufferedBus Runner).inside := by
          simp only [BufferedBus.inside, hq, List.cons_append]
        rcases handleRunner_cases st.ctx st.outBus c st.pushed r with hh | ⟨hz, hre, hbr, hh⟩
        · simp only [hh, Bool.false_eq_true, if_false, if_true]
          refine ⟨[], Issued.nil _ _, ?_, ?_, by simp only [List.length_nil, Int.natCast_zero]; omega⟩
          · simp only [Queue.push, hp, List.nil_append, List.map_cons, List.map_nil, hin, List.cons_append]
          · simp only [Queue.push, hp, List.nil_append, List.length_cons, List.length_nil]; omega
        · simp only [hh, if_true]
          split
          · refine ⟨[r], Issued.cons _ r [] _ _ _ hz (fun h => ⟨hre h, rfl⟩) hbr (Issued.nil _ _), ?_, ?_, ?_⟩
            · simp only [hp, List.map_nil, List.append_nil, hin, List.cons_append, List.nil_append]
            · simp only [hp, List.length_nil]; omega
            · simp only [List.length_cons, List.length_nil]; omega
          · rename_i hnr
            obtain ⟨pushed, i1, i2, i3, i4⟩ := ih
              { st with inBus := { st.inBus with queue := q }, ctx := addPendingRegisters st.ctx r.instr,
                        outBus := st.outBus.add r c, remaining := st.remaining - 1, pushed := st.pushed + 1 } hp
            refine ⟨r :: pushed, Issued.cons _ r pushed _ _ _ hz (fun h => absurd h hnr) hbr i1, ?_, i3, ?_⟩
            · rw [hin, List.cons_append, List.cons_append, i2]
            · simp only [List.length_cons, Int.natCast_add, Int.natCast_one] at i4 ⊢; omega

theorem issued_sid {c p : Int} {rs : List Runner} {x y : Model.Context × BufferedBus Runner} (h : Issued c p rs x y) :
    y.1.sequenceID = x.1.sequenceID ∧ y.1.Registers = x.1.Registers ∧ y.1.Memory = x.1.Memory := by
  induction h with
  | nil p x => exact ⟨rfl, rfl, rfl⟩
  | cons p r rs ctx bus y _ _ _ _ ih => exact ih

theorem issued_buffer {c p : Int} {rs : List Runner} {x y : Model.Context × BufferedBus Runner} (h : Issued c p rs x y) :
    y.2.buffer = x.2.buffer ++ rs.map (fun r => (c + 1, r)) := by
  induction h with
  | nil p x => simp
  | cons p r rs ctx bus y _ _ _ _ ih =>
    rw [ih]; simp only [BufferedBus.add, List.append_assoc, List.singleton_append, List.map_cons]

/-- a branch among the runners issued in one cycle is the first of them -/
theorem issued_branch_head {c p : Int} {rs : List Runner} {x y : Model.Context × BufferedBus Runner} (h : Issued c p rs x y) :
    ∀ pre b post, rs = pre ++ b :: post → b.instr.instructionType.IsBranch = true → (pre.length : Int) + p ≤ 0 := by
  induction h with
  | nil p x => intro pre b post h; cases pre <;> cases h
  | cons p r rs ctx bus y _ _ hbr _ ih =>
    intro pre b post h hb
    cases pre with
    | nil =>
      simp only [List.nil_append, List.cons.injEq] at h
      obtain ⟨rfl, _⟩ := h
      have := hbr hb
      simp only [List.length_nil, Int.natCast_zero, Int.zero_add]; exact this
    | cons q pre' =>
      simp only [List.cons_append, List.cons.injEq] at h
      have := ih pre' b post h.2 hb
      simp only [List.length_cons, Int.natCast_add, Int.natCast_one]; omega

/-- everything `controlCycle` leaves alone -/
structure CuFrame (s s' : State) : Prop where
  fu : s'.fu = s.fu
  decodeBus : s'.decodeBus = s.decodeBus
  du : s'.du = s.du
  eus : s'.eus = s.eus
  writeBus : s'.writeBus = s.writeBus
  wus : s'.wus = s.wus
  bu : s'.bu = s.bu
  mmu : s'.mmu = s.mmu
  pendings : s'.pendings = s.pendings
  cycles : s'.cycles = s.cycles
  mode : s'.mode = s.mode
  executed : s'.executed = s.executed

/-- the two loops of `controlUnit.cycle` -/
def cuLoops (c : Int) (items : List (Nat × Runner)) (st0 : CuSt) : CuSt :=
  let r := cuPendingLoop c items st0
  if r.2 then r.1 else cuBusLoop c (r.1.inBus.pendingRead.toNat + 1) r.1

theorem cuLoops_spec (c : Int) (st0 : CuSt) : ∀ (items : List (Nat × Runner)), st0.pendings.items = items → items.length ≤ 1 →
    ∃ pushed, Issued c st0.pushed pushed (st0.ctx, st0.outBus) ((cuLoops c items st0).ctx, (cuLoops c items st0).outBus) ∧
      pushed ++ (cuLoops c items st0).pendings.items.map (·.2) ++ (cuLoops c items st0).inBus.inside =
        items.map (·.2) ++ st0.inBus.inside ∧
      (cuLoops c items st0).pendings.items.length ≤ 1 ∧ (pushed.length : Int) ≤ 1 + max (st0.remaining - 1) 0
  | [], hit, _ => by
    simp only [cuLoops, cuPendingLoop, Bool.false_eq_true, if_false]
    obtain ⟨pushed, i1, i2, i3, i4⟩ := cuBusLoop_spec c (st0.inBus.pendingRead.toNat + 1) st0 hit
    exact ⟨pushed, i1, by simpa using i2, i3, by omega⟩
  | [(hd, r)], hit, _ => by
    simp only [cuLoops, cuPendingLoop]
    rcases handleRunner_cases st0.ctx st0.outBus c st0.pushed r with hh | ⟨hz, hre, hbr, hh⟩
    · simp only [hh, Bool.false_eq_true, if_false, if_true]
      exact ⟨[], Issued.nil _ _, by simp [hit], by simp [hit], by simp only [List.length_nil, Int.natCast_zero]; omega⟩
    · simp only [hh, if_true]
      have hrem : (st0.pendings.remove hd).items = [] := by
        simp only [Queue.remove, hit, List.filter_cons, bne_self_eq_false, Bool.false_eq_true, if_false, List.filter_nil]
      split
      · simp only [if_true]
        exact ⟨[r], Issued.cons _ r [] _ _ _ hz (fun h => ⟨hre h, rfl⟩) hbr (Issued.nil _ _), by simp [hrem], by simp [hrem],
          by simp only [List.length_cons, List.length_nil]; omega⟩
      · rename_i hnr
        simp only [cuPendingLoop, Bool.false_eq_true, if_false]
        obtain ⟨pushed, i1, i2, i3, i4⟩ := cuBusLoop_spec c
          (({ st0 with ctx := addPendingRegisters st0.ctx r.instr, outBus := st0.outBus.add r c,
                       pendings := st0.pendings.remove hd, remaining := st0.remaining - 1, pushed := st0.pushed + 1 } : CuSt).inBus.pendingRead.toNat + 1)
          { st0 with ctx := addPendingRegisters st0.ctx r.instr, outBus := st0.outBus.add r c,
                     pendings := st0.pendings.remove hd, remaining := st0.remaining - 1, pushed := st0.pushed + 1 } hrem
        exact ⟨r :: pushed, Issued.cons _ r pushed _ _ _ hz (fun h => absurd h hnr) hbr i1,
          by simp only [List.map_cons, List.map_nil, List.cons_append, List.nil_append] at i2 ⊢; rw [i2], i3,
          by simp only [List.length_cons, Int.natCast_add, Int.natCast_one] at i4 ⊢; omega⟩
  | _ :: _ :: _, _, hl => by simp only [List.length_cons] at hl; omega

theorem controlCycle_eq (s : State) : controlCycle s =
    if !s.executeBus.canAdd then s
    else
      let st := cuLoops s.cycles s.cuPendings.items
        { ctx := s.ctx, inBus := s.controlBus, outBus := s.executeBus, pendings := s.cuPendings,
          remaining := s.executeBus.remainingToAdd, pushed := 0 }
      { s with ctx := st.ctx, controlBus := st.inBus, executeBus := st.outBus, cuPendings := st.pendings } := rfl

theorem controlCycle_spec (s : State) (hp : s.cuPendings.items.length ≤ 1) :
    ∃ pushed, Issued s.cycles 0 pushed (s.ctx, s.executeBus) ((controlCycle s).ctx, (controlCycle s).executeBus) ∧
      pushed ++ (controlCycle s).cuPendings.items.map (·.2) ++ (controlCycle s).controlBus.inside =
        s.cuPendings.items.map (·.2) ++ s.controlBus.inside ∧
      (controlCycle s).cuPendings.items.length ≤ 1 ∧ CuFrame s (controlCycle s) ∧
      (pushed.length : Int) ≤ 1 + max (s.executeBus.remainingToAdd - 1) 0 := by
  rw [controlCycle_eq]
  split
  · exact ⟨[], Issued.nil _ _, by simp, hp, ⟨rfl, rfl, rfl, rfl, rfl, rfl, rfl, rfl, rfl, rfl, rfl, rfl⟩,
      by simp only [List.length_nil, Int.natCast_zero]; omega⟩
  · obtain ⟨pushed, i1, i2, i3, i4⟩ := cuLoops_spec s.cycles
      { ctx := s.ctx, inBus := s.controlBus, outBus := s.executeBus, pendings := s.cuPendings,
        remaining := s.executeBus.remainingToAdd, pushed := 0 } s.cuPendings.items rfl hp
    exact ⟨pushed, i1, i2, i3, ⟨rfl, rfl, rfl, rfl, rfl, rfl, rfl, rfl, rfl, rfl, rfl, rfl⟩, i4⟩

/-- with nothing waiting in its queue and nothing readable on the control bus, the control unit does nothing -/
theorem controlCycle_quiet (s : State) (h1 : s.cuPendings.items = []) (h2 : s.controlBus.queue = []) :
    (controlCycle s).executeBus = s.executeBus ∧ (controlCycle s).cuPendings = s.cuPendings ∧
    (controlCycle s).controlBus.queue = [] := by
  rw [controlCycle_eq]
  split
  · exact ⟨rfl, rfl, h2⟩
  · simp only [h1, cuLoops, cuPendingLoop, Bool.false_eq_true, if_false, cuBusLoop]
    split
    · exact ⟨rfl, rfl, h2⟩
    · simp only [get_none _ h2]
      exact ⟨trivial, trivial, h2⟩

theorem chain_mem (app : App) : ∀ (l : List Runner) (k : Nat), Chain app k l → ∀ r ∈ l, r.instr ∈ app.instrs := by
  intro l
  induction l with
  | nil => intro k _ r hr; cases hr
  | cons x xs ih =>
    intro k h r hr
    rcases List.mem_cons.mp hr with rfl | hr
    · exact List.mem_of_getElem? h.1.2
    · exact ih (k + 1) h.2 r hr

end Proofs.Mvp60Sl

/-
  Proofs/Mvp62.lean — facts about the cycle-accurate model of MVP-6.2 (`Model.Mvp62` = `Model.Mvp61` with the
  configuration flag `v62`).  The frame lemmas of `Proofs.Mvp61` are about every state of `Model.Mvp61.State`, whatever
  the flag says, so the lower bound of property C12 carries over.
-/
import MajoranaVerif.Model.Mvp62
import MajoranaVerif.Proofs.Mvp61
open GoInt

namespace Proofs.Mvp62
open Model.Mvp62
open Model.Seq (App Halt)

/-- **lower bound (C12) for MVP-6.2.**  At most `eu` instructions are executed per tick, and the cycle counter is at
least `executed / eu` — for every run (halted, out of fuel, Go panic). -/
theorem run_executed_le (app : App) (ctx : Model.Context) (eu wu fuel : Nat) :
    (run app ctx eu wu fuel).final.executed ≤ eu * (run app ctx eu wu fuel).ticks ∧
    ((run app ctx eu wu fuel).final.executed : Int) ≤ eu * (run app ctx eu wu fuel).final.cycles := by
  unfold run
  split
  · rename_i s hs
    unfold init at hs
    split at hs
    · cases hs
    · simp only [bind, Except.bind, pure, Except.pure] at hs
      split at hs
      · cases hs
      · rename_i s0 h0
        simp only [Except.ok.injEq] at hs
        subst hs
        unfold Model.Mvp61.init at h0
        split at h0
        · cases h0
        · simp only [bind, Except.bind, pure, Except.pure] at h0
          split at h0
          · cases h0
          · rename_i mmu _
            simp only [Except.ok.injEq] at h0
            subst h0
            have h := Proofs.Mvp61.runFrom_bound app fuel
              { ctx := ctx, mmu := mmu, eus := List.replicate eu {}, wus := List.replicate wu {}, v62 := true } 0
            simp only [List.length_replicate, Nat.mul_zero, Nat.add_zero, Nat.zero_add, Int.natCast_zero, Int.mul_zero,
              Int.le_refl, true_implies] at h
            exact ⟨h.2.2.1, h.2.2.2⟩
  · exact ⟨Nat.zero_le _, by simp only [Int.natCast_zero, Int.mul_zero, Int.le_refl]⟩

/-- the initial state of MVP-6.2 has the flag set -/
theorem init_v62 {ctx : Model.Context} {eu wu : Nat} {s : Model.Mvp61.State} (h : init ctx eu wu = .ok s) : s.v62 = true := by
  unfold init at h
  split at h
  · cases h
  · simp only [bind, Except.bind, pure, Except.pure] at h
    split at h
    · cases h
    · cases h; rfl

end Proofs.Mvp62

/-
  Proofs/CycleTraceMvp3.lean — MVP-3: the cycle count of `Model.Mvp3.run` is the function
  `Model.Timing.tcostRun` of the run's timing trace and of the memory SIZE.

  Key fact (*erasure*): every operation of the line cache (`Model/LineCache.lean`) and of
  the memory-management unit (`Model/Mmu.lean`) commutes with replacing every data byte —
  in the cache lines, in memory, in the bytes being written — by zero: which line is hit,
  the LRU order, which line is evicted, where a write-back goes, and every panic depend on
  addresses, bounds and lengths only.  So the timing machine `tstep`, which runs the real
  unit on zeroed data along the recorded addresses, charges exactly the cycles of the real
  run.  Core Lean only.
-/
import MajoranaVerif.Model.TimingTrace
import MajoranaVerif.Proofs.Mvp3
open GoInt LineCache

namespace Proofs.CycleTraceMvp3
open Model.Seq Model.Mmu Model.Mvp3 Model.Timing

/-! ### erasure -/

def z : Byte → Byte := fun _ => 0#8
def eB (d : List Byte) : List Byte := d.map z
def eL (l : Line) : Line := { l with data := eB l.data }
def eC (c : Cache) : Cache := { c with lines := c.lines.map eL }
def eU (u : Mmu) : Mmu := { l1i := eC u.l1i, l1d := eC u.l1d }

theorem eB_length (d : List Byte) : (eB d).length = d.length := by simp [eB]

theorem eB_replicate (n : Nat) : eB (List.replicate n 0#8) = List.replicate n 0#8 := by
  simp [eB, z]

theorem eB_eq_replicate (d : List Byte) : eB d = List.replicate d.length 0#8 := by
  induction d with
  | nil => rfl
  | cons x xs ih => simp only [eB, List.map_cons, List.length_cons, List.replicate_succ] at ih ⊢; rw [ih]; rfl

theorem splitAt_map (a : Int) : ∀ ls : List Line,
    splitAt a (ls.map eL) = (splitAt a ls).map (fun r => (r.1.map eL, eL r.2.1, r.2.2.map eL))
  | [] => rfl
  | l :: ls => by
    simp only [List.map_cons, splitAt]
    have hc : (eL l).covers a = l.covers a := rfl
    rw [hc]
    by_cases h : l.covers a = true
    · simp [h]
    · simp only [h, Bool.false_eq_true, if_false, splitAt_map a ls]
      cases splitAt a ls with
      | none => rfl
      | some r => rfl

theorem at_eL (l : Line) (a : Int) : (eL l).at a = Except.map z (l.at a) := by
  unfold Line.at eL eB
  simp only [List.getElem?_map]
  cases l.data[(a - l.lo).toNat]? <;> rfl

theorem get_eC (c : Cache) (a : Int) :
    LineCache.get (eC c) a = Except.map (fun r => (r.1.map z, eC r.2)) (LineCache.get c a) := by
  unfold LineCache.get
  simp only [eC, splitAt_map]
  cases hs : splitAt a c.lines with
  | none => rfl
  | some r =>
    obtain ⟨pre, l, post⟩ := r
    simp only [Option.map_some, at_eL, bind, Except.bind]
    cases l.at a with
    | error f => rfl
    | ok v => simp [Except.map, pure, Except.pure, eC]

theorem evict_eC (c : Cache) (a : Int) :
    evictCacheLine (eC c) a = Except.map (fun r => (r.1.map eB, eC r.2)) (evictCacheLine c a) := by
  unfold evictCacheLine
  simp only [eC, splitAt_map]
  cases hs : splitAt a c.lines with
  | none => rfl
  | some r =>
    obtain ⟨pre, l, post⟩ := r
    simp only [Option.map_some, at_eL, bind, Except.bind]
    cases l.at a with
    | error f => rfl
    | ok v => simp [Except.map, pure, Except.pure, eC, eL]

theorem setFrom_eB : ∀ (vs d : List Byte) (off : Nat),
    setFrom (eB d) off (eB vs) = (eB (setFrom d off vs).1, (setFrom d off vs).2)
  | [], d, off => rfl
  | v :: vs, d, off => by
    simp only [eB, List.map_cons, setFrom, List.length_map]
    by_cases h : off < d.length
    · simp only [h, if_true]
      have := setFrom_eB vs (d.set off v) (off + 1)
      simp only [eB, List.map_set] at this
      exact this
    · simp only [h, if_false]

theorem write_eC (c : Cache) (a : Int) (d : List Byte) :
    LineCache.write (eC c) a (eB d) = Except.map eC (LineCache.write c a d) := by
  unfold LineCache.write writeState writeRaw
  simp only [eC, splitAt_map]
  cases hs : splitAt a c.lines with
  | none => rfl
  | some r =>
    obtain ⟨pre, l, post⟩ := r
    simp only [Option.map_some]
    have hd : (eL l).data[(a - (eL l).lo).toNat]? = (l.data[(a - l.lo).toNat]?).map z := by
      simp [eL, eB]
    rw [hd]
    cases hl : l.data[(a - l.lo).toNat]? with
    | none => rfl
    | some b =>
      simp only [Option.map_some]
      have hsf : setFrom (eL l).data (a - (eL l).lo).toNat (eB d) = (eB (setFrom l.data (a - l.lo).toNat d).1, (setFrom l.data (a - l.lo).toNat d).2) :=
        setFrom_eB d l.data (a - l.lo).toNat
      rw [hsf]
      cases (setFrom l.data (a - l.lo).toNat d).2 <;> simp [Except.map, pure, Except.pure, eC, eL, throw, throwThe, MonadExceptOf.throw]

theorem newLine_eC (c : Cache) (lo : Int) (d : List Byte) : LineCache.newLine (eC c) lo (eB d) = eL (LineCache.newLine c lo d) := rfl

theorem pushLine_eC (c : Cache) (lo : Int) (d : List Byte) :
    LineCache.pushLine (eC c) lo (eB d) =
      ((LineCache.pushLine c lo d).1.map eB, eC (LineCache.pushLine c lo d).2) := by
  unfold LineCache.pushLine
  simp only [newLine_eC]
  have hlen : (eL (LineCache.newLine c lo d) :: (eC c).lines).length = (LineCache.newLine c lo d :: c.lines).length := by
    simp [eC]
  have hn : (eC c).numberOfLines = c.numberOfLines := rfl
  by_cases h : (LineCache.newLine c lo d :: c.lines).length > c.numberOfLines
  · have h' : (eL (LineCache.newLine c lo d) :: (eC c).lines).length > (eC c).numberOfLines := by rw [hlen, hn]; exact h
    simp only [h, h', if_true]
    simp only [eC, ← List.map_cons, List.getLast?_map, List.map_take, Option.map_map]
    rfl
  · have h' : ¬ (eL (LineCache.newLine c lo d) :: (eC c).lines).length > (eC c).numberOfLines := by rw [hlen, hn]; exact h
    simp only [h, h', if_false]
    simp only [eC, Option.map_none, List.map_cons]

theorem pushWarn_eC (c : Cache) (lo : Int) (d : List Byte) :
    LineCache.pushLineWithEvictionWarning (eC c) lo (eB d) =
      ((LineCache.pushLineWithEvictionWarning c lo d).1.map eL, eC (LineCache.pushLineWithEvictionWarning c lo d).2) := by
  unfold LineCache.pushLineWithEvictionWarning
  simp only [newLine_eC]
  have hlen : (eL (LineCache.newLine c lo d) :: (eC c).lines).length = (LineCache.newLine c lo d :: c.lines).length := by
    simp [eC]
  have hn : (eC c).numberOfLines = c.numberOfLines := rfl
  by_cases h : (LineCache.newLine c lo d :: c.lines).length > c.numberOfLines
  · have h' : (eL (LineCache.newLine c lo d) :: (eC c).lines).length > (eC c).numberOfLines := by rw [hlen, hn]; exact h
    simp only [h, h', if_true]
    simp only [eC, ← List.map_cons, List.getLast?_map]
  · have h' : ¬ (eL (LineCache.newLine c lo d) :: (eC c).lines).length > (eC c).numberOfLines := by rw [hlen, hn]; exact h
    simp only [h, h', if_false]
    simp only [eC, Option.map_none, List.map_cons]

theorem fixHead_eC (c : Cache) : fixHead (eC c) = eC (fixHead c) := by
  unfold fixHead
  cases hl : c.lines with
  | nil => simp [eC, hl]
  | cons l ls => simp [eC, hl, eL]

theorem getAll_eC : ∀ (addrs : List Word) (c : Cache),
    getAll (eC c) addrs = Except.map (fun r => (r.1.map eB, eC r.2)) (getAll c addrs)
  | [], c => rfl
  | a :: as, c => by
    unfold getAll
    rw [get_eC]
    cases hg : LineCache.get c a.toInt with
    | error f => rfl
    | ok p =>
      obtain ⟨v, c1⟩ := p
      simp only [Except.map, bind, Except.bind]
      cases v with
      | none => rfl
      | some b =>
        simp only [Option.map_some, getAll_eC as c1]
        cases getAll c1 as with
        | error f => rfl
        | ok q =>
          obtain ⟨r, c2⟩ := q
          cases r <;> simp [Except.map, pure, Except.pure, eB, z]

/-! ### the unit's operations commute with erasure -/

theorem padTake_eB : ∀ (r : List Byte) (n : Nat), padTake (r.map z) n = (padTake r n).map z
  | _, 0 => by simp [padTake]
  | [], n + 1 => by
    have ih := padTake_eB [] n
    simp only [List.map_nil] at ih
    simp only [List.map_nil, padTake, List.map_cons]
    rw [← ih]
    rfl
  | v :: r, n + 1 => by
    have ih := padTake_eB r n
    simp only [List.map_cons, padTake, ih]

theorem fetchCacheLine_eB (cfg : Config) (mem : List Byte) (a : Word) :
    fetchCacheLine cfg (eB mem) a = Except.map eB (fetchCacheLine cfg mem a) := by
  unfold fetchCacheLine
  cases LineCache.alignDown a.toInt cfg.l1DLineSize with
  | error f => rfl
  | ok lo =>
    simp only [bind, Except.bind]
    split
    · rfl
    · split
      · rfl
      · split
        · rfl
        · simp only [pure, Except.pure, Except.map, eB]
          rw [← padTake_eB, List.map_drop]

theorem overlay_eB : ∀ (m d : List Byte), overlay (m.map z) (d.map z) = (overlay m d).map z
  | m, [] => by simp [overlay]
  | [], _ :: _ => by simp [overlay]
  | x :: ms, y :: ds => by
    have ih := overlay_eB ms ds
    simp only [List.map_cons, overlay, ih]

theorem writeToMemory_eB (mem : List Byte) (lo : Int) (d : List Byte) :
    writeToMemory (eB mem) lo (eB d) = Except.map eB (writeToMemory mem lo d) := by
  cases d with
  | nil => rfl
  | cons v vs =>
    simp only [eB, List.map_cons, writeToMemory, List.length_map]
    split
    · rfl
    · split
      · rfl
      · simp only [pure, Except.pure, Except.map]
        have := overlay_eB (mem.drop lo.toNat) (v :: vs)
        simp only [List.map_cons, List.map_drop] at this
        simp only [eB, List.map_append, List.map_take, this]

theorem pushLineToL1D_eU (cfg : Config) (u : Mmu) (mem : List Byte) (a : Word) (line : List Byte) :
    pushLineToL1D cfg (eU u) (eB mem) a (eB line) =
      Except.map (fun r => (eU r.1, eB r.2)) (pushLineToL1D cfg u mem a line) := by
  unfold pushLineToL1D
  cases LineCache.alignDown a.toInt cfg.l1DLineSize with
  | error f => rfl
  | ok lo =>
    simp only [bind, Except.bind]
    have h1 : (eU u).l1d = eC u.l1d := rfl
    rw [h1, pushWarn_eC, fixHead_eC]
    cases hev : (LineCache.pushLineWithEvictionWarning u.l1d lo line).1 with
    | none => rfl
    | some ev =>
      simp only [Option.map_some, evict_eC]
      have h2 : (eL ev).lo = ev.lo := rfl
      have h3 : (eL ev).data = eB ev.data := rfl
      rw [h2, h3, writeToMemory_eB]
      cases evictCacheLine (fixHead (LineCache.pushLineWithEvictionWarning u.l1d lo line).2) ev.lo with
      | error f => rfl
      | ok p =>
        simp only [Except.map]
        cases writeToMemory mem ev.lo ev.data with
        | error f => rfl
        | ok m2 => rfl

theorem getFromL1D_eU (u : Mmu) (addrs : List Word) :
    getFromL1D (eU u) addrs = Except.map (fun r => (r.1.map eB, eU r.2)) (getFromL1D u addrs) := by
  unfold getFromL1D
  have h1 : (eU u).l1d = eC u.l1d := rfl
  rw [h1, getAll_eC]
  cases getAll u.l1d addrs with
  | error f => rfl
  | ok p => rfl

theorem fetch_eU (cfg : Config) (u : Mmu) (pc : Word) :
    Model.Mvp3.fetch cfg (eU u) pc = Except.map (fun r => (eU r.1, r.2)) (Model.Mvp3.fetch cfg u pc) := by
  unfold Model.Mvp3.fetch getFromL1I
  have h1 : (eU u).l1i = eC u.l1i := rfl
  rw [h1, getAll_eC]
  cases getAll u.l1i [pc] with
  | error f => rfl
  | ok p =>
    obtain ⟨r, c⟩ := p
    simp only [Except.map, bind, Except.bind, pure, Except.pure]
    cases r with
    | some b => rfl
    | none =>
      simp only [Option.map_none]
      split
      · rfl
      · simp only [pure, Except.pure, pushLineToL1I]
        have hp := pushLine_eC c pc.toInt (List.replicate cfg.l1ILineSize.toNat 0#8)
        rw [eB_replicate] at hp
        rw [hp, fixHead_eC]
        rfl

theorem load_eU (cfg : Config) (u : Mmu) (mem : List Byte) (addrs : List Word) :
    Model.Mvp3.load cfg (eU u) (eB mem) addrs =
      Except.map (fun r => (eB r.1, eU r.2.1, eB r.2.2.1, r.2.2.2)) (Model.Mvp3.load cfg u mem addrs) := by
  unfold Model.Mvp3.load
  cases addrs with
  | nil => rfl
  | cons a0 as =>
    simp only [bind, Except.bind, getFromL1D_eU]
    cases getFromL1D u (a0 :: as) with
    | error f => rfl
    | ok p =>
      obtain ⟨r, u1⟩ := p
      simp only [Except.map]
      cases r with
      | some bs => rfl
      | none =>
        simp only [Option.map_none, fetchCacheLine_eB]
        cases fetchCacheLine cfg mem a0 with
        | error f => rfl
        | ok line =>
          simp only [Except.map, pushLineToL1D_eU]
          cases pushLineToL1D cfg u1 mem a0 line with
          | error f => rfl
          | ok q =>
            obtain ⟨u2, mem2⟩ := q
            simp only [Except.map, getFromL1D_eU]
            cases getFromL1D u2 (a0 :: as) with
            | error f => rfl
            | ok q2 =>
              obtain ⟨r2, u3⟩ := q2
              simp only [Except.map]
              cases r2 <;> rfl

/-! ### stores and the flush -/

/-- a change with its byte zeroed -/
def g (p : Word × Byte) : Word × Byte := (p.1, 0#8)

theorem zeroStore_changes (chs : List (Word × Byte)) : (zeroStore (chs.map (·.1))).MemoryChanges = chs.map g := by
  simp [zeroStore, g]

theorem insertChange_g (p : Word × Byte) : ∀ qs : List (Word × Byte),
    insertChange (g p) (qs.map g) = (insertChange p qs).map g
  | [] => rfl
  | q :: qs => by
    simp only [List.map_cons, insertChange]
    have h : (g q).1.slt (g p).1 = q.1.slt p.1 := rfl
    rw [h]
    split
    · simp only [List.map_cons, insertChange_g p qs]
    · rfl

theorem sortChanges_g : ∀ chs : List (Word × Byte), sortChanges (chs.map g) = (sortChanges chs).map g
  | [] => rfl
  | p :: ps => by
    simp only [List.map_cons, sortChanges, sortChanges_g ps, insertChange_g]

theorem doesExist_eU (u : Mmu) (e e' : Gen.Execution) (h : e'.MemoryChanges = e.MemoryChanges.map g) :
    doesExecutionMemoryChangesExistsInL1D (eU u) e' =
      Except.map (fun r => (r.1, eU r.2)) (doesExecutionMemoryChangesExistsInL1D u e) := by
  unfold doesExecutionMemoryChangesExistsInL1D
  have h1 : e'.MemoryChanges.map (·.1) = e.MemoryChanges.map (·.1) := by
    rw [h, List.map_map]; rfl
  rw [h1, getFromL1D_eU]
  cases getFromL1D u (e.MemoryChanges.map (·.1)) with
  | error f => rfl
  | ok p =>
    obtain ⟨r, u1⟩ := p
    cases r <;> rfl

theorem writeExec_eU (u : Mmu) (e e' : Gen.Execution) (h : e'.MemoryChanges = e.MemoryChanges.map g) :
    writeExecutionMemoryChangesToL1D (eU u) e' = Except.map eU (writeExecutionMemoryChangesToL1D u e) := by
  unfold writeExecutionMemoryChangesToL1D
  rw [h, sortChanges_g]
  cases sortChanges e.MemoryChanges with
  | nil => rfl
  | cons q qs =>
    show writeToL1D (eU u) (g q).1 ((g q :: qs.map g).map (·.2)) = Except.map eU (writeToL1D u q.1 ((q :: qs).map (·.2)))
    have h1 : (g q :: qs.map g).map (·.2) = eB ((q :: qs).map (·.2)) := by
      simp [eB, g, z]
    rw [h1]
    unfold writeToL1D
    show (do let c ← LineCache.write (eC u.l1d) q.1.toInt (eB ((q :: qs).map (fun (p : Word × Byte) => p.2))); pure ({ eU u with l1d := c } : Mmu)) = _
    rw [write_eC]
    cases LineCache.write u.l1d q.1.toInt ((q :: qs).map (·.2)) <;> rfl

theorem writeMemory_e (chs : List (Word × Byte)) : ∀ ctx : Model.Context,
    (chs.map g).foldlM (init := ({ Memory := eB ctx.Memory } : Model.Context)) (fun c (p : Word × Byte) =>
        if p.1.toInt < 0 ∨ c.Memory.length ≤ p.1.toInt.toNat then none
        else some { c with Memory := c.Memory.set p.1.toInt.toNat p.2 }) =
      (chs.foldlM (init := ctx) (fun c (p : Word × Byte) =>
        if p.1.toInt < 0 ∨ c.Memory.length ≤ p.1.toInt.toNat then none
        else some { c with Memory := c.Memory.set p.1.toInt.toNat p.2 })).map
        (fun c => ({ Memory := eB c.Memory } : Model.Context)) := by
  induction chs with
  | nil => intro ctx; rfl
  | cons p ps ih =>
    intro ctx
    simp only [List.map_cons, List.foldlM_cons, eB_length]
    have hp : (g p).1 = p.1 := rfl
    rw [hp]
    by_cases hb : p.1.toInt < 0 ∨ ctx.Memory.length ≤ p.1.toInt.toNat
    · simp only [hb, if_true]; rfl
    · simp only [hb, if_false]
      have := ih { ctx with Memory := ctx.Memory.set p.1.toInt.toNat p.2 }
      simp only [eB, List.map_set] at this ⊢
      exact this

/-- **stores**: the timing machine's store (zero bytes at the recorded addresses, into the zeroed unit and memory)
takes the same branch, charges the same cycles and leaves the erasure of the real store's result -/
theorem store_timing (u : Mmu) (ctx : Model.Context) (e : Gen.Execution) :
    Model.Mvp3.store (eU u) { Memory := eB ctx.Memory } (zeroStore (e.MemoryChanges.map (·.1))) =
      Except.map (fun r => (eU r.1, ({ Memory := eB r.2.1.Memory } : Model.Context), r.2.2)) (Model.Mvp3.store u ctx e) := by
  have hz := zeroStore_changes e.MemoryChanges
  unfold Model.Mvp3.store
  simp only [bind, Except.bind]
  rw [doesExist_eU u e _ hz]
  cases doesExecutionMemoryChangesExistsInL1D u e with
  | error f => rfl
  | ok p =>
    obtain ⟨ex, u1⟩ := p
    simp only [Except.map]
    cases ex with
    | true =>
      simp only [if_true]
      rw [writeExec_eU u1 e _ hz]
      cases writeExecutionMemoryChangesToL1D u1 e with
      | error f => rfl
      | ok u2 => rfl
    | false =>
      simp only [Bool.false_eq_true, if_false]
      have hw : writeMemory ({ Memory := eB ctx.Memory } : Model.Context) (zeroStore (e.MemoryChanges.map (·.1))) =
          (writeMemory ctx e).map (fun c => ({ Memory := eB c.Memory } : Model.Context)) := by
        unfold writeMemory
        rw [hz]
        exact writeMemory_e e.MemoryChanges ctx
      rw [hw]
      cases writeMemory ctx e with
      | none => rfl
      | some c => rfl

theorem flushLines_e (cfg : Config) : ∀ (ls : List Line) (mem : List Byte) (cyc : Int),
    flushLines cfg (ls.map eL) (eB mem) cyc = Except.map (fun r => (eB r.1, r.2)) (flushLines cfg ls mem cyc)
  | [], mem, cyc => rfl
  | l :: ls, mem, cyc => by
    simp only [List.map_cons, flushLines, flushLine, bind, Except.bind]
    by_cases hL : cfg.l1DLineSize ≤ 0
    · simp only [hL, if_true, pure, Except.pure]
      exact flushLines_e cfg ls mem _
    · simp only [hL, if_false]
      have h2 : (eL l).lo = l.lo := rfl
      have h3 : (eL l).data = eB l.data := rfl
      rw [h2, h3, writeToMemory_eB]
      cases writeToMemory mem l.lo l.data with
      | error f => rfl
      | ok m1 =>
        simp only [Except.map]
        exact flushLines_e cfg ls m1 _

theorem flush_e (cfg : Config) (u : Mmu) (mem : List Byte) :
    flush cfg (eU u) (eB mem) = Except.map (fun r => (eB r.1, r.2)) (flush cfg u mem) := by
  unfold flush LineCache.lines
  exact flushLines_e cfg u.l1d.lines mem 0

/-! ### one iteration of MVP-3 against the timing machine -/

def TRel (cfg : Config) (dc : Int) (app : App) (s : State) : Model.Mvp3.StepResult → Prop
  | .next s' f c => ∃ ev, event3 cfg app s = some ev ∧
      tstep cfg dc (eU s.mmu) (eB s.arch.ctx.Memory) ev = (f, c, eU s'.mmu, eB s'.arch.ctx.Memory)
  | .halt h s' f c => (h = .offEnd ∧ event3 cfg app s = none ∧ s' = s) ∨
      (h ≠ .offEnd ∧ ∃ ev, event3 cfg app s = some ev ∧
        tstep cfg dc (eU s.mmu) (eB s.arch.ctx.Memory) ev = (f, c, eU s'.mmu, eB s'.arch.ctx.Memory))

theorem faultHalt_ne (f : Fault) : faultHalt f ≠ .offEnd := by cases f <;> simp [faultHalt]

theorem step_timing (cfg : Config) (dc : Int) (app : App) (s : State) :
    TRel cfg dc app s (Model.Mvp3.step cfg dc app s) := by
  obtain ⟨⟨ctx, pc⟩, u⟩ := s
  unfold Model.Mvp3.step
  simp only
  by_cases h1 : Int.tdiv pc.toInt 4 < app.instrs.length
  · simp only [h1, not_true_eq_false, if_false]
    have hfe := fetch_eU cfg u pc
    cases hf : Model.Mvp3.fetch cfg u pc with
    | error fl =>
      rw [hf] at hfe
      simp only [TRel, event3, h1, not_true_eq_false, if_false, hf]
      exact Or.inr ⟨faultHalt_ne fl, _, rfl, by simp only [tstep, hfe, Except.map]⟩
    | ok p =>
      obtain ⟨u1, fc⟩ := p
      rw [hf] at hfe
      simp only
      by_cases h2 : Int.tdiv pc.toInt 4 < 0
      · simp only [h2, if_true, TRel, event3, h1, not_true_eq_false, if_false, hf]
        exact Or.inr ⟨by simp, _, rfl, by simp only [tstep, hfe, Except.map]⟩
      · simp only [h2, if_false]
        cases h3 : app.instrs[(Int.tdiv pc.toInt 4).toNat]? with
        | none =>
          simp only [TRel, event3, h1, not_true_eq_false, if_false, hf, h2, h3]
          exact Or.inr ⟨by simp, _, rfl, by simp only [tstep, hfe, Except.map]⟩
        | some i =>
          simp only
          have hle := load_eU cfg u1 ctx.Memory (i.memoryRead ctx 0#32)
          cases hld : Model.Mvp3.load cfg u1 ctx.Memory (i.memoryRead ctx 0#32) with
          | error fl =>
            rw [hld] at hle
            simp only [TRel, event3, h1, not_true_eq_false, if_false, hf, h2, h3, hld]
            exact Or.inr ⟨faultHalt_ne fl, _, rfl, by simp only [tstep, hfe, Except.map, hle]⟩
          | ok q =>
            obtain ⟨bytes, u2, mem2, mr⟩ := q
            rw [hld] at hle
            simp only
            cases h5 : i.run { ctx with Memory := mem2 } app.labels pc bytes 0#32 with
            | error fl =>
              simp only [TRel, event3, h1, not_true_eq_false, if_false, hf, h2, h3, hld, execPhase, h5]
              exact Or.inr ⟨faultHalt_ne fl, _, rfl, by simp only [tstep, hfe, Except.map, hle]⟩
            | ok e =>
              simp only
              cases h6 : Gen.InstructionType.Cycles i.instructionType with
              | error fl =>
                simp only [TRel, event3, h1, not_true_eq_false, if_false, hf, h2, h3, hld, execPhase, h5, h6]
                exact Or.inr ⟨by simp, _, rfl, by simp only [tstep, hfe, Except.map, hle]⟩
              | ok ex =>
                simp only
                by_cases h7 : e.Return = true
                · simp only [h7, if_true, TRel, event3, h1, not_true_eq_false, if_false, hf, h2, h3, hld, execPhase, h5, h6, classify]
                  exact Or.inr ⟨by simp, _, rfl, by simp only [tstep, hfe, Except.map, hle, h6]⟩
                · rw [if_neg h7]
                  by_cases h8 : e.RegisterChange = true
                  · simp only [h8, if_true, TRel, event3, h1, not_true_eq_false, if_false, hf, h2, h3, hld, execPhase, h5, h6, classify, h7, Bool.false_eq_true]
                    exact ⟨_, rfl, by simp only [tstep, hfe, Except.map, hle, h6]; rfl⟩
                  · rw [if_neg h8]
                    by_cases h9 : e.MemoryChange = true
                    · simp only [h9, if_true]
                      have hst := store_timing u2 { ctx with Memory := mem2 } e
                      cases hs : Model.Mvp3.store u2 { ctx with Memory := mem2 } e with
                      | error fl =>
                        rw [hs] at hst
                        simp only [TRel, event3, h1, not_true_eq_false, if_false, hf, h2, h3, hld, execPhase, h5, h6, classify, h7, h8, h9, Bool.false_eq_true, if_true]
                        exact Or.inr ⟨faultHalt_ne fl, _, rfl, by simp only [tstep, hfe, Except.map, hle, h6, hst]⟩
                      | ok r =>
                        obtain ⟨u3, ctx3, wb⟩ := r
                        rw [hs] at hst
                        simp only [TRel, event3, h1, not_true_eq_false, if_false, hf, h2, h3, hld, execPhase, h5, h6, classify, h7, h8, h9, Bool.false_eq_true, if_true]
                        exact ⟨_, rfl, by simp only [tstep, hfe, Except.map, hle, h6, hst]⟩
                    · simp only [h9, Bool.false_eq_true, if_false, TRel, event3, h1, not_true_eq_false, hf, h2, h3, hld, execPhase, h5, h6, classify, h7, h8]
                      exact ⟨_, rfl, by simp only [tstep, hfe, Except.map, hle, h6]⟩
  · simp [h1, TRel, event3]

/-! ### whole runs -/

theorem finish_cycles (cfg : Config) (h : Halt) (hh : h = .ret ∨ h = .offEnd) (s : State) (cyc : Int) (n : Nat) :
    (finish cfg h s cyc n).cycles = cyc + tflush cfg (some h) (eU s.mmu) (eB s.arch.ctx.Memory) := by
  unfold finish tflush
  have hc : (some h = some Halt.ret ∨ some h = some Halt.offEnd) := by
    rcases hh with rfl | rfl
    · exact Or.inl rfl
    · exact Or.inr rfl
  simp only [hc, if_true, flush_e]
  cases flush cfg s.mmu s.arch.ctx.Memory with
  | error f => simp [Except.map]
  | ok p => rfl

theorem tflush_other (cfg : Config) (h : Option Halt) (hh : ¬ (h = some .ret ∨ h = some .offEnd)) (u : Mmu) (mem : List Byte) :
    tflush cfg h u mem = 0 := by
  unfold tflush; simp only [hh, if_false]

/-- **the cycle count of MVP-3 is a function of the timing trace and the zeroed unit / memory** -/
theorem go_tcost (cfg : Config) (dc : Int) (app : App) :
    ∀ (fuel : Nat) (s : State) (cyc : Int) (n : Nat),
      (Model.Mvp3.go cfg dc app fuel s cyc n).cycles =
        cyc + tcost cfg dc (trace3 cfg dc app fuel s).2 (trace3 cfg dc app fuel s).1 (eU s.mmu) (eB s.arch.ctx.Memory) := by
  intro fuel
  induction fuel with
  | zero =>
    intro s cyc n
    simp only [Model.Mvp3.go, trace3, tcost]
    rw [tflush_other cfg none (by simp)]; omega
  | succ k ih =>
    intro s cyc n
    have hrel := step_timing cfg dc app s
    unfold Model.Mvp3.go trace3
    cases hs : Model.Mvp3.step cfg dc app s with
    | next s' f c =>
      rw [hs] at hrel
      simp only [TRel] at hrel
      obtain ⟨ev, hev, hts⟩ := hrel
      simp only [hev, Option.toList_some, List.singleton_append, tcost, hts]
      rw [ih s' _ _]
      omega
    | halt h s' f c =>
      rw [hs] at hrel
      simp only [TRel] at hrel
      rcases hrel with ⟨rfl, hev, rfl⟩ | ⟨hne, ev, hev, hts⟩
      · simp only [hev, Option.toList_none, tcost]
        exact finish_cycles cfg .offEnd (Or.inr rfl) _ cyc n
      · cases h with
        | offEnd => exact absurd rfl hne
        | ret =>
          simp only [hev, Option.toList_some, tcost, hts]
          rw [finish_cycles cfg .ret (Or.inl rfl)]
          omega
        | err =>
          simp only [hev, Option.toList_some, tcost, hts]
          rw [tflush_other cfg (some .err) (by simp)]; omega
        | panic w =>
          simp only [hev, Option.toList_some, tcost, hts]
          rw [tflush_other cfg (some (.panic w)) (by simp)]; omega

theorem eC_nil (c : Cache) (h : c.lines = []) : eC c = c := by
  cases c; simp only at h; subst h; rfl

theorem new_lines (cfg : Config) (u : Mmu) (h : Model.Mmu.new cfg = .ok u) : u.l1i.lines = [] ∧ u.l1d.lines = [] := by
  unfold Model.Mmu.new at h
  have hc : ∀ (a b : Int) (c : Cache), newCache a b = .ok c → c.lines = [] := by
    intro a b c hc
    unfold newCache LineCache.new at hc
    repeat' split at hc
    all_goals first
      | (simp [throw, throwThe, MonadExceptOf.throw] at hc; done)
      | (simp only [pure, Except.pure] at hc; injection hc with hc; rw [← hc])
  cases h1 : newCache cfg.l1ILineSize cfg.l1ISize with
  | error f => simp [h1, bind, Except.bind] at h
  | ok c1 =>
    cases h2 : newCache cfg.l1DLineSize cfg.l1DSize with
    | error f => simp [h1, h2, bind, Except.bind] at h
    | ok c2 =>
      simp only [h1, h2, bind, Except.bind, pure, Except.pure] at h
      injection h with h
      rw [← h]
      exact ⟨hc _ _ _ h1, hc _ _ _ h2⟩

/-- **MVP-3: the cycle count is `tcostRun` of the timing trace and the memory size** -/
theorem run_tcost (cfg : Config) (dc : Int) (app : App) (a : Arch) (fuel : Nat) :
    (Model.Mvp3.run cfg dc app a fuel).cycles = tcostRun cfg dc a.ctx.Memory.length (traceRun3 cfg dc app a fuel) := by
  unfold Model.Mvp3.run tcostRun traceRun3
  cases hn : Model.Mmu.new cfg with
  | error f => rfl
  | ok u =>
    simp only
    obtain ⟨h1, h2⟩ := new_lines cfg u hn
    have hu : eU u = u := by
      unfold eU; rw [eC_nil _ h1, eC_nil _ h2]
    rw [go_tcost, hu, eB_eq_replicate]
    simp

/-- **value independence, MVP-3**: equal timing traces on memories of equal size give equal cycle counts -/
theorem run3_value_independent (cfg : Config) (dc : Int) (app : App) (a1 a2 : Arch) (fuel : Nat)
    (hlen : a1.ctx.Memory.length = a2.ctx.Memory.length)
    (htr : traceRun3 cfg dc app a1 fuel = traceRun3 cfg dc app a2 fuel) :
    (Model.Mvp3.run cfg dc app a1 fuel).cycles = (Model.Mvp3.run cfg dc app a2 fuel).cycles := by
  rw [run_tcost, run_tcost, hlen, htr]

end Proofs.CycleTraceMvp3

/-
  Proofs/Mvp5Run.lean — whole runs of MVP-5 against the unpipelined machine `Model.Seq.runMvp1`
  (the analogue of Proofs/Mvp4Run.lean; the facts about the unpipelined run are re-used from there).
-/
import MajoranaVerif.Proofs.Mvp5Sim
import MajoranaVerif.Proofs.Mvp4Terminates
open GoInt Model Model.Seq
open Proofs.Mvp4

set_option linter.unusedSimpArgs false
set_option linter.unusedVariables false

namespace Proofs.Mvp5
open Model.Mvp5
open Model.Mvp4 (Event)

/-- `NewCPU` of MVP-5 is related to the unpipelined machine at pc 0 -/
theorem init5_rel (app : App) (ctx : Model.Context) (hc : CtxOk ctx) :
    ∃ s0, Model.Mvp5.init ctx = .ok s0 ∧ Rel5 app s0 ⟨ctx, 0#32⟩ ∧ s0.toCleanPending = false ∧ s0.duPending = false := by
  obtain ⟨b0, hinit, hR⟩ := init_rel app ctx hc
  have hmode : b0.mode = .normal := by
    unfold Model.Mvp4.init at hinit
    obtain ⟨u, hu, _⟩ := new_ok
    simp only [hu, bind, Except.bind, pure, Except.pure] at hinit
    injection hinit with hinit
    rw [← hinit]
  have hn0 : NormalOk app b0 ⟨ctx, 0#32⟩ := by have := hR.front; rw [hmode] at this; exact this
  have hproc : b0.eu.processing = false := by
    unfold Model.Mvp4.init at hinit
    obtain ⟨u, hu, _⟩ := new_ok
    simp only [hu, bind, Except.bind, pure, Except.pure] at hinit
    injection hinit with hinit
    rw [← hinit]
  refine ⟨{ base := b0 }, ?_, ⟨hR.back, ?_⟩, rfl, rfl⟩
  · unfold Model.Mvp5.init
    simp only [constsAgree_true, Bool.not_true, Bool.false_eq_true, if_false, hinit, bind, Except.bind, pure, Except.pure]
  · show FrontRel5 app { base := b0 } ⟨ctx, 0#32⟩ b0.mode
    rw [hmode]
    have hrest := hn0.rest_idle hproc
    have hpe := hn0.idle hproc
    exact { consec := (by
              rw [runners_idle hproc]
              unfold tailW dEff
              simp only [Bool.false_eq_true, if_false]
              exact hrest.consec),
            jumpLast := (by
              intro l x l' hsplit hj
              rw [runners_idle hproc] at hsplit
              -- the execute bus of a fresh machine is empty
              have : b0.executeBus.inside = [] := by
                unfold Model.Mvp4.init at hinit
                obtain ⟨u, hu, _⟩ := new_ok
                simp only [hu, bind, Except.bind, pure, Except.pure] at hinit
                injection hinit with hinit
                rw [← hinit]; rfl
              rw [this] at hsplit
              cases l <;> cases hsplit),
            pendJump := fun hx => (by cases hx),
            complete := hn0.complete,
            instrs := (by intro r hr; rw [runners_idle hproc] at hr; exact hn0.busInstr r hr),
            euRunner := fun hx => (by rw [hproc] at hx; cases hx), idle := fun _ => hpe,
            pend := fun hx => (by rw [hpe] at hx; cases hx), nomem := hn0.nomem }

/-- what a finished MVP-5 run has to do with the unpipelined run from `a0` -/
def RunPost5 (app : App) (a0 : Arch) (r : Model.Mvp5.Result) : Prop :=
  match r.halt with
  | some .ret => ∃ k a, seqIter app k a0 = some a ∧ (∃ c, stepArch dc app a = .halt .ret c) ∧ Final r.final.base a
  | some .offEnd => ∃ k a, seqIter app k a0 = some a ∧ (∃ c, stepArch dc app a = .halt .offEnd c) ∧ Final r.final.base a
  | some .err => ∃ k a, seqIter app k a0 = some a ∧ ∃ c, stepArch dc app a = .halt .err c
  | _ => True

theorem runFrom5_sim {app : App} (hnf : NoFwd app) (a0 : Arch) (T : Nat) (hok : Model.Mvp4.seqOk app T a0 = true) :
    ∀ (fuel : Nat) (s : State) (n k : Nat) (a : Arch), n + fuel = T → k ≤ n → seqIter app k a0 = some a →
      Rel5 app s a → RunPost5 app a0 (Model.Mvp5.runFrom app fuel s n)
  | 0, s, n, k, a, _, _, _, _ => by simp [Model.Mvp5.runFrom, RunPost5]
  | fuel + 1, s, n, k, a, hT, hkn, hit, hR => by
    have hso : Model.Mvp4.stepOk app a = true := stepOk_of_seqOk k T a0 a hok (by omega) hit
    unfold Model.Mvp5.runFrom
    cases hc : Model.Mvp5.cycle app s with
    | mk s' ev =>
      have hpost := cycle5_sim hR hnf hso hc
      cases ev with
      | running =>
        simp only
        obtain ⟨a1, hs01, hR'⟩ := hpost
        rcases hs01 with rfl | ⟨c, hst⟩
        · exact runFrom5_sim hnf a0 T hok fuel s' (n + 1) k a1 (by omega) (by omega) hit hR'
        · exact runFrom5_sim hnf a0 T hok fuel s' (n + 1) (k + 1) a1 (by omega) (by omega) (seqIter_succ hit hst) hR'
      | done hk =>
        simp only
        cases hk with
        | ret =>
          obtain ⟨a1, hs01, hh, hfin⟩ := hpost
          rcases hs01 with rfl | ⟨c, hst⟩
          · exact ⟨k, a1, hit, hh, hfin⟩
          · exact ⟨k + 1, a1, seqIter_succ hit hst, hh, hfin⟩
        | offEnd =>
          obtain ⟨a1, hs01, hh, hfin⟩ := hpost
          rcases hs01 with rfl | ⟨c, hst⟩
          · exact ⟨k, a1, hit, hh, hfin⟩
          · exact ⟨k + 1, a1, seqIter_succ hit hst, hh, hfin⟩
        | err => exact ⟨k, a, hit, hpost⟩
        | panic w => trivial

/-- **MVP-5 refines the unpipelined machine** (end-to-end): as `mvp4_refines_mvp1`, for the machine with the branch
target buffer and the decode stall. -/
theorem mvp5_refines_mvp1 (app : App) (hnf : NoFwd app) (ctx : Model.Context) (hc : CtxOk ctx) (fuel : Nat)
    (hok : Model.Mvp4.seqOk app fuel ⟨ctx, 0#32⟩ = true) (hk : Halt)
    (hh : (Model.Mvp5.run app ctx fuel).halt = some hk) (hnp : ∀ w, hk ≠ .panic w) :
    ∃ n, (runMvp1 app ⟨ctx, 0#32⟩ n).halt = some hk ∧
      (hk ≠ .err →
        (Model.Mvp5.run app ctx fuel).final.base.ctx.Registers = (runMvp1 app ⟨ctx, 0#32⟩ n).final.ctx.Registers ∧
        (Model.Mvp5.run app ctx fuel).final.base.ctx.Memory = (runMvp1 app ⟨ctx, 0#32⟩ n).final.ctx.Memory) := by
  obtain ⟨s0, hinit, hR, _, _⟩ := init5_rel app ctx hc
  have hrun : Model.Mvp5.run app ctx fuel = Model.Mvp5.runFrom app fuel s0 0 := by
    unfold Model.Mvp5.run; rw [hinit]
  rw [hrun] at hh ⊢
  have hpost := runFrom5_sim hnf ⟨ctx, 0#32⟩ fuel hok fuel s0 0 0 ⟨ctx, 0#32⟩ (by omega) (Nat.le_refl _) rfl hR
  unfold RunPost5 at hpost
  rw [hh] at hpost
  cases hk with
  | ret =>
    obtain ⟨k, a, hit, ⟨c, hs⟩, hf1, hf2⟩ := hpost
    obtain ⟨h1, h2⟩ := run_halts mvp1Fetch app hit hs 0
    exact ⟨k + (0 + 1), h1, fun _ => by unfold runMvp1; rw [h2]; exact ⟨hf1, hf2⟩⟩
  | offEnd =>
    obtain ⟨k, a, hit, ⟨c, hs⟩, hf1, hf2⟩ := hpost
    obtain ⟨h1, h2⟩ := run_halts mvp1Fetch app hit hs 0
    exact ⟨k + (0 + 1), h1, fun _ => by unfold runMvp1; rw [h2]; exact ⟨hf1, hf2⟩⟩
  | err =>
    obtain ⟨k, a, hit, c, hs⟩ := hpost
    obtain ⟨h1, _⟩ := run_halts mvp1Fetch app hit hs 0
    exact ⟨k + (0 + 1), h1, fun hne => absurd rfl hne⟩
  | panic w => exact absurd rfl (hnp w)

end Proofs.Mvp5

/-
  Spec/Run.lean — the sequential machine: one instruction at a time in program
  order; `ret`, or running past the last instruction, ends the run (C01, C09).
  TRUSTED (DESIGN §6).  Also decides well-formedness *along the run* (C01's
  quantifier): fewer than 250 instructions, naturally aligned in-bounds accesses,
  control transfers to instruction boundaries inside `[0, 4·len]`, termination
  within the fuel; division by zero and undefined labels are the defined errors.
-/
import MajoranaVerif.Spec.Exec
import MajoranaVerif.Spec.Asm

namespace Spec

structure Machine where
  regs : Array Word    -- 32 entries; entry 0 stays 0
  mem : Array Byte
  deriving Repr, DecidableEq, Inhabited

def Machine.rf (m : Machine) : RegFile := fun r => m.regs.getD r 0

inductive Stop where
  | ret                       -- executed `ret`
  | offEnd                    -- pc reached 4·len
  | error (e : Error)         -- defined error: the run must report an error value
  | notWf (why : String)      -- the program left the well-formed subset: no claim is made
  deriving Repr, DecidableEq, Inhabited

/-- one executed instruction, as the known-finding triggers and C12 need it -/
structure Event where
  pc : Word
  loads : List Word := []
  stores : List Word := []
  deriving Repr, DecidableEq, Inhabited

structure Result where
  stop : Stop
  final : Machine
  steps : Nat
  trace : Array Event
  deriving Repr, Inhabited

def aligned (w : Width) (a : Word) : Bool := a.toNat % w.bytes == 0

def applyOutcome (m : Machine) (o : Outcome) : Machine :=
  let regs := match o.reg with
    | some (r, v) => if r < m.regs.size then m.regs.set! r v else m.regs
    | none => m.regs
  let mem := o.mem.foldl (fun mem (a, b) => mem.set! a.toNat b) m.mem
  { regs := regs, mem := mem }

/-- access check: width-aligned and entirely inside memory -/
def accessOk (m : Machine) (w : Width) (a : Word) : Bool :=
  aligned w a && a.toNat + w.bytes ≤ m.mem.size

def targetOk (p : Asm.Program) (t : Word) : Bool :=
  t.toNat % 4 == 0 && t.toNat ≤ 4 * p.instrs.size

/-- the access check of a load / store before it executes -/
def memCheck (m : Machine) (i : Instr) : Option String :=
  match i with
  | .load w _ base off => if accessOk m w (rd0 m.rf base + off) then none else some "load out of range or unaligned"
  | .store w _ base off => if accessOk m w (rd0 m.rf base + off) then none else some "store out of range or unaligned"
  | _ => none

/-- the bytes a load reads -/
def loadBytes (m : Machine) (i : Instr) : List Byte :=
  (loadAddrs i m.rf).map (fun a => m.mem.getD a.toNat 0)

def nextPc (pc : Word) (o : Outcome) : Word :=
  match o.next with
  | some t => t
  | none => pc + 4

/-- one instruction: `.inl stop` ends the run, `.inr (pc', m', ev)` continues -/
def stepInstr (p : Asm.Program) (pc : Word) (m : Machine) (i : Instr) : Stop ⊕ (Word × Machine × Event) :=
  match memCheck m i with
  | some why => .inl (.notWf why)
  | none =>
    match exec i pc m.rf p.label (loadBytes m i) with
    | .error e => .inl (.error e)
    | .ok o =>
      if o.ret then .inl .ret
      else if !targetOk p (nextPc pc o) then .inl (.notWf "control transfer outside the program or unaligned")
      else .inr (nextPc pc o, applyOutcome m o, { pc := pc, loads := loadAddrs i m.rf, stores := o.mem.map (·.1) })

/-- `step`: fetch the instruction at `pc`; running past the last instruction ends the run -/
def step (p : Asm.Program) (pc : Word) (m : Machine) : Stop ⊕ (Word × Machine × Event) :=
  match p.instrs[pc.toNat / 4]? with
  | none => .inl .offEnd
  | some i => stepInstr p pc m i

def run (p : Asm.Program) (m : Machine) (fuel : Nat) : Result :=
  if p.instrs.size ≥ 250 then { stop := .notWf "250 instructions or more", final := m, steps := 0, trace := #[] }
  else go fuel 0 m 0 #[]
where
  go : Nat → Word → Machine → Nat → Array Event → Result
  | 0, _, m, n, tr => { stop := .notWf "fuel exhausted", final := m, steps := n, trace := tr }
  | fuel + 1, pc, m, n, tr =>
    match step p pc m with
    | .inl s =>
      -- the instruction that stops the run (`ret`, or the faulting one) counts as executed unless we ran off the end
      let n' := match s with | .offEnd => n | _ => n + 1
      { stop := s, final := m, steps := n', trace := tr }
    | .inr (pc', m', ev) => go fuel pc' m' (n + 1) (tr.push ev)

end Spec

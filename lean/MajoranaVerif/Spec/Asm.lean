/-
  Spec/Asm.lean — a small reference assembler for *canonical* program text
  (lower-case mnemonic, one space, operands separated by commas, `off(reg)` for
  memory operands, `name:` label lines, `#` comment lines).  TRUSTED as part of
  the differential oracle: it fixes the ISA role of every operand position
  (e.g. `sb src, off(base)`).  It is deliberately NOT a model of risc.Parse — that
  is Model/Parser.lean (C11); on canonical text the two must agree, which the
  C02/C11 streams check on every run.
-/
import MajoranaVerif.Spec.Isa

namespace Spec.Asm

def parseReg (s : String) : Option Reg :=
  let s := if s.startsWith "$" then (s.drop 1).toString else s
  regNames.idxOf? s

def parseImm (s : String) : Option Word :=
  match s.toInt? with
  | some v => if -2147483648 ≤ v ∧ v ≤ 2147483647 then some (BitVec.ofInt 32 v) else none
  | none => none

/-- `off(reg)` -/
def parseOffReg (s : String) : Option (Word × Reg) :=
  match s.splitOn "(" with
  | [off, rest] =>
    if rest.endsWith ")" then do
      let o ← parseImm off.trimAscii.toString
      let r ← parseReg (rest.dropEnd 1).toString.trimAscii.toString
      pure (o, r)
    else none
  | _ => none

def rops : List (String × ROp) :=
  [("add", .add), ("sub", .sub), ("and", .and), ("or", .or), ("xor", .xor), ("sll", .sll),
   ("srl", .srl), ("sra", .sra), ("slt", .slt), ("sltu", .sltu), ("mul", .mul), ("div", .div),
   ("rem", .rem)]
def iops : List (String × IOp) :=
  [("addi", .addi), ("andi", .andi), ("ori", .ori), ("xori", .xori), ("slti", .slti),
   ("slli", .slli), ("srli", .srli), ("srai", .srai)]
def conds : List (String × Cond) :=
  [("beq", .beq), ("bne", .bne), ("blt", .blt), ("bge", .bge), ("bltu", .bltu), ("bgeu", .bgeu),
   ("ble", .ble)]
def loads : List (String × Width) := [("lb", .b), ("lh", .h), ("lw", .w)]
def stores : List (String × Width) := [("sb", .b), ("sw", .w)]

/-- one instruction line (already trimmed, no comment) -/
def line (s : String) : Option Instr :=
  let (mn, rest) := match s.splitOn " " with
    | [] => ("", "")
    | m :: r => (m, " ".intercalate r)
  let args := if rest.trimAscii.toString.isEmpty then [] else (rest.splitOn ",").map (·.trimAscii.toString)
  match rops.lookup mn, iops.lookup mn, conds.lookup mn, loads.lookup mn, stores.lookup mn, mn, args with
  | some op, _, _, _, _, _, [a, b, c] => do pure (.r op (← parseReg a) (← parseReg b) (← parseReg c))
  | _, some op, _, _, _, _, [a, b, c] => do pure (.i op (← parseReg a) (← parseReg b) (← parseImm c))
  | _, _, some c, _, _, _, [a, b, l] => do pure (.br c (← parseReg a) (← parseReg b) l)
  | _, _, _, some w, _, _, [a, m] => do let (o, r) ← parseOffReg m; pure (.load w (← parseReg a) r o)
  | _, _, _, _, some w, _, [a, m] => do let (o, r) ← parseOffReg m; pure (.store w (← parseReg a) r o)
  -- this simulator's assembler writes `sh src, off, base` (three operands) where `sb`/`sw` use `off(base)`
  | _, _, _, _, _, "sh", [a, o, b] => do pure (.store .h (← parseReg a) (← parseReg b) (← parseImm o))
  | _, _, _, _, _, "lui", [a, b] => do pure (.lui (← parseReg a) (← parseImm b))
  | _, _, _, _, _, "auipc", [a, b] => do pure (.auipc (← parseReg a) (← parseImm b))
  | _, _, _, _, _, "beqz", [a, l] => do pure (.beqz (← parseReg a) l)
  | _, _, _, _, _, "bnez", [a, l] => do pure (.bnez (← parseReg a) l)
  | _, _, _, _, _, "j", [l] => some (.j l)
  | _, _, _, _, _, "jal", [a, l] => do pure (.jal (← parseReg a) l)
  | _, _, _, _, _, "jalr", [a, b, c] => do pure (.jalr (← parseReg a) (← parseReg b) (← parseImm c))
  | _, _, _, _, _, "li", [a, b] => do pure (.li (← parseReg a) (← parseImm b))
  | _, _, _, _, _, "mv", [a, b] => do pure (.mv (← parseReg a) (← parseReg b))
  | _, _, _, _, _, "nop", [] => some .nop
  | _, _, _, _, _, "ret", [] => some .ret
  | _, _, _, _, _, _, _ => none

structure Program where
  instrs : Array Instr := #[]
  labels : List (String × Word) := []   -- later definitions first (the last definition wins, as in a Go map)
  deriving Repr, Inhabited

def Program.label (p : Program) (l : String) : Option Word := p.labels.lookup l

/-- whole canonical program: `none` if any line is not canonical -/
def program (text : String) : Option Program :=
  (text.splitOn "\n").foldlM (init := ({} : Program)) fun p raw =>
    let l := raw.trimAscii.toString
    if l.isEmpty || l.startsWith "#" then some p
    else if l.endsWith ":" && !(l.contains ' ') then
      some { p with labels := ((l.dropEnd 1).toString, BitVec.ofNat 32 (4 * p.instrs.size)) :: p.labels }
    else
      let code := ((l.splitOn "#").headD "").trimAscii.toString
      (line code).map fun i => { p with instrs := p.instrs.push i }

end Spec.Asm

/-
  Spec/Exec.lean — RV32IM semantics of one instruction (TRUSTED, DESIGN §6).

  Conventions fixed by the properties (C02, C07): two's-complement wrap-around;
  shifts use the low five bits of the count, logical or arithmetic as named;
  `sltu/bltu/bgeu` compare unsigned; `lb/lh` sign-extend; words are little-endian;
  `x0` reads 0 and ignores writes; `div/rem` follow RV32M on overflow
  (`min / -1 = min`, `min % -1 = 0`), and a ZERO DIVISOR IS THIS SIMULATOR'S
  DEFINED ERROR (C07), as is a branch/jump to an undefined label; `ret` ends the
  program (it is a halt here, not `jalr x0, ra, 0`).
-/
import MajoranaVerif.Spec.Isa

namespace Spec

inductive Error | divByZero | undefinedLabel
  deriving Repr, DecidableEq, Inhabited

/-- Architectural effect of one instruction. -/
structure Outcome where
  reg : Option (Reg × Word) := none      -- destination write (never to x0)
  mem : List (Word × Byte) := []         -- byte stores, ascending address
  next : Option Word := none             -- `some t`: control transfers to t; `none`: pc + 4
  ret : Bool := false                    -- the program ends here
  deriving Repr, DecidableEq, Inhabited

abbrev RegFile := Reg → Word
abbrev Labels := String → Option Word

/-- reading `x0` gives 0 -/
def rd0 (rf : RegFile) (r : Reg) : Word := if r = 0 then 0 else rf r

/-- a write to `x0` is dropped -/
def wr (r : Reg) (v : Word) : Outcome := if r = 0 then {} else { reg := some (r, v) }

def shamt (x : Word) : Nat := x.toNat % 32

def ROp.eval (op : ROp) (a b : Word) : Except Error Word :=
  match op with
  | .add => pure (a + b)
  | .sub => pure (a - b)
  | .and => pure (a &&& b)
  | .or => pure (a ||| b)
  | .xor => pure (a ^^^ b)
  | .sll => pure (a <<< shamt b)
  | .srl => pure (a >>> shamt b)
  | .sra => pure (a.sshiftRight (shamt b))
  | .slt => pure (if a.slt b then 1 else 0)
  | .sltu => pure (if a.ult b then 1 else 0)
  | .mul => pure (a * b)
  | .div => if b = 0 then throw .divByZero else pure (a.sdiv b)
  | .rem => if b = 0 then throw .divByZero else pure (a.srem b)

def IOp.eval (op : IOp) (a imm : Word) : Word :=
  match op with
  | .addi => a + imm
  | .andi => a &&& imm
  | .ori => a ||| imm
  | .xori => a ^^^ imm
  | .slti => if a.slt imm then 1 else 0
  | .slli => a <<< shamt imm
  | .srli => a >>> shamt imm
  | .srai => a.sshiftRight (shamt imm)

def Cond.eval (c : Cond) (a b : Word) : Bool :=
  match c with
  | .beq => a == b
  | .bne => a != b
  | .blt => a.slt b
  | .bge => !(a.slt b)
  | .bltu => a.ult b
  | .bgeu => !(a.ult b)
  | .ble => !(b.slt a)

def jump (labels : Labels) (l : String) : Except Error Outcome :=
  match labels l with
  | some t => pure { next := some t }
  | none => throw .undefinedLabel

def branch (labels : Labels) (taken : Bool) (l : String) : Except Error Outcome :=
  if taken then jump labels l else pure {}

/-- little-endian value of the loaded bytes, sign-extended to 32 bits -/
def loadValue (w : Width) (bytes : List Byte) : Word :=
  match w, bytes with
  | .b, [b0] => b0.signExtend 32
  | .h, [b0, b1] => (b1 ++ b0).signExtend 32
  | .w, [b0, b1, b2, b3] => b3 ++ b2 ++ b1 ++ b0
  | _, _ => 0

def storeBytes (w : Width) (addr v : Word) : List (Word × Byte) :=
  match w with
  | .b => [(addr, v.extractLsb' 0 8)]
  | .h => [(addr, v.extractLsb' 0 8), (addr + 1, v.extractLsb' 8 8)]
  | .w => [(addr, v.extractLsb' 0 8), (addr + 1, v.extractLsb' 8 8),
           (addr + 2, v.extractLsb' 16 8), (addr + 3, v.extractLsb' 24 8)]

/-- addresses a load reads, ascending -/
def loadAddrs (i : Instr) (rf : RegFile) : List Word :=
  match i with
  | .load wd _ base off => (List.range wd.bytes).map (fun k => rd0 rf base + off + BitVec.ofNat 32 k)
  | _ => []

/-- addresses a store writes, ascending -/
def storeAddrs (i : Instr) (rf : RegFile) : List Word :=
  match i with
  | .store wd _ base off => (List.range wd.bytes).map (fun k => rd0 rf base + off + BitVec.ofNat 32 k)
  | _ => []

/-- `exec i pc rf labels bytes`: `bytes` are the contents of `loadAddrs i rf` (for loads). -/
def exec (i : Instr) (pc : Word) (rf : RegFile) (labels : Labels) (bytes : List Byte) :
    Except Error Outcome :=
  match i with
  | .r op rd rs1 rs2 => do let v ← op.eval (rd0 rf rs1) (rd0 rf rs2); pure (wr rd v)
  | .i op rd rs1 imm => pure (wr rd (op.eval (rd0 rf rs1) imm))
  | .lui rd imm => pure (wr rd (imm <<< 12))
  | .auipc rd imm => pure (wr rd (pc + (imm <<< 12)))
  | .load wd rd _ _ => pure (wr rd (loadValue wd bytes))
  | .store wd src base off => pure { mem := storeBytes wd (rd0 rf base + off) (rd0 rf src) }
  | .br c rs1 rs2 l => branch labels (c.eval (rd0 rf rs1) (rd0 rf rs2)) l
  | .beqz rs l => branch labels (rd0 rf rs == 0) l
  | .bnez rs l => branch labels (rd0 rf rs != 0) l
  | .j l => jump labels l
  | .jal rd l => do let o ← jump labels l; pure { o with reg := (wr rd (pc + 4)).reg }
  | .jalr rd rs imm => pure { (wr rd (pc + 4)) with next := some (rd0 rf rs + imm) }
  | .li rd imm => pure (wr rd imm)
  | .mv rd rs => pure (wr rd (rd0 rf rs))
  | .nop => pure {}
  | .ret => pure { ret := true }

/-- registers an instruction reads / writes (x0 included when named; callers ignore x0) -/
def reads : Instr → List Reg
  | .r _ _ rs1 rs2 => [rs1, rs2]
  | .i _ _ rs1 _ => [rs1]
  | .load _ _ base _ => [base]
  | .store _ src base _ => [base, src]
  | .br _ rs1 rs2 _ => [rs1, rs2]
  | .beqz rs _ | .bnez rs _ => [rs]
  | .jalr _ rs _ => [rs]
  | .mv _ rs => [rs]
  | _ => []

def writes : Instr → List Reg
  | .r _ rd _ _ | .i _ rd _ _ | .lui rd _ | .auipc rd _ | .load _ rd _ _ | .jal rd _
  | .jalr rd _ _ | .li rd _ | .mv rd _ => [rd]
  | _ => []

end Spec

/-
  Spec/Isa.lean — the instruction set of the simulator's assembly subset, by ISA
  role (not by Go struct field).  HAND-WRITTEN, TRUSTED: this file, Exec.lean and
  Run.lean are what "RV32IM semantics" and "the sequential architectural result"
  are taken to mean (DESIGN §6).  Keep it short enough to read in minutes.
-/
abbrev Spec.Word := BitVec 32
abbrev Spec.Byte := BitVec 8
/-- register number 0..31 (`x0` = `zero`). Numbers ≥ 32 never come out of the assembler. -/
abbrev Spec.Reg := Nat

namespace Spec

inductive ROp | add | sub | and | or | xor | sll | srl | sra | slt | sltu | mul | div | rem
  deriving Repr, DecidableEq, Inhabited
inductive IOp | addi | andi | ori | xori | slti | slli | srli | srai
  deriving Repr, DecidableEq, Inhabited
inductive Width | b | h | w
  deriving Repr, DecidableEq, Inhabited
/-- two-register conditional branches; `ble` is the usual pseudo-instruction (`bge` with swapped operands) -/
inductive Cond | beq | bne | blt | bge | bltu | bgeu | ble
  deriving Repr, DecidableEq, Inhabited

inductive Instr where
  | r (op : ROp) (rd rs1 rs2 : Reg)
  | i (op : IOp) (rd rs1 : Reg) (imm : Word)
  | lui (rd : Reg) (imm : Word)
  | auipc (rd : Reg) (imm : Word)
  | load (w : Width) (rd base : Reg) (off : Word)
  | store (w : Width) (src base : Reg) (off : Word)
  | br (c : Cond) (rs1 rs2 : Reg) (label : String)
  | beqz (rs : Reg) (label : String)
  | bnez (rs : Reg) (label : String)
  | j (label : String)
  | jal (rd : Reg) (label : String)
  | jalr (rd rs : Reg) (imm : Word)
  | li (rd : Reg) (imm : Word)
  | mv (rd rs : Reg)
  | nop
  | ret
  deriving Repr, DecidableEq, Inhabited

def Width.bytes : Width → Nat
  | .b => 1 | .h => 2 | .w => 4

/-- ABI register names in numbering order (index = register number). -/
def regNames : List String :=
  ["zero", "ra", "sp", "gp", "tp", "t0", "t1", "t2", "s0", "s1", "a0", "a1", "a2", "a3", "a4", "a5",
   "a6", "a7", "s2", "s3", "s4", "s5", "s6", "s7", "s8", "s9", "s10", "s11", "t3", "t4", "t5", "t6"]

end Spec

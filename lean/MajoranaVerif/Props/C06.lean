/-
  Props/C06.lean — C06: MSI coherence invariants hold at every cycle on the multi-core
  variants (MVP-7.0, 7.1, 8).

  WHAT IS PROVED HERE is about the abstract protocol model `Model.Msi.State/step`
  (Model/Msi.lean part (b): directory + per-core cache controllers as a transition system whose
  actions are the checkpoints of the Go coroutines, latencies abstracted to any number of
  cycles), for ANY number of cores and lines and EVERY interleaving of its actions:

    * `inv_init`, `C06_step_partial`, `inv_reachable` — the inductive invariant
      `Proofs.Msi.Inv` holds initially and is preserved by every action except a `flush` of a
      core that has a request in progress;
    * the clauses of the property for every reachable state: `single_writer`,
      `no_sharer_beside_writer`, `shared_equals_next_level`, `holds_iff_not_invalid`,
      `counters_nonneg`, `sem_sane`, `no_panic`; `no_duplicate_lines` and `aligned` hold by
      construction of the model (L1 is a function of the line, addresses inside a line are not
      modelled) and are stated on the snapshot;
    * `msiInv_of_reachable` — the decidable predicate `Model.Msi.MsiInv` that the monitor
      evaluates on the snapshots of the REAL machine holds of the snapshot of every reachable
      model state (the same predicate, not a paraphrase).

  WHAT IS FALSE of the code and of the model: with `flush` (pipeline flush after a branch
  misprediction resets the cache-controller coroutines) the invariant is not inductive:
    * `not_Full_C06_step`, `flush_window_violates_holds` — a flush between the L1 push and
      `post()` leaves the line in L1 with state Invalid and no transfer in progress;
    * `flush_read_of_modified_negative_counter` — a flush during a read of a line the core
      holds Modified releases the WRITE lock with `RUnlock`: the read counter goes to −1
      (Go: `panic("read is negative")`) and the write lock is never released.
  Both are reproduced on the real code by the rig (see /verif/.work/reports/C06-defect-*.md).

  WHAT IS ONLY MONITORED (tests, labelled so in the evidence): that the real Go code behaves
  like the model — every consecutive pair of per-cycle snapshots of real runs (whole CPU and
  rig) is replayed through `step` by the driver (refinement check), and `MsiInv` is evaluated
  on every snapshot.  MVP-8's shared L3 layer (L3 fills, L3 evictions, the l3Lock) is not in
  the model; on MVP-8 the model's next level is "L3 sub-line if present, else memory".
-/
import MajoranaVerif.Model.Msi
import MajoranaVerif.Proofs.Msi
import MajoranaVerif.Proofs.MsiSnapshot
import MajoranaVerif.Proofs.L3
open Model.Msi Proofs.Msi

namespace Props.C06

variable {D : Type}

/-- the actions the invariant is claimed for: everything except a flush of a busy core -/
def Safe (σ : State D) (a : Action D) : Prop := a.isFlush = false ∨ FlushIdle σ a

/-- states reachable by safe actions -/
inductive ReachableSafe (n : Nat) (mem : Line → D) : State D → Prop
  | init : ReachableSafe n mem (init n mem)
  | step {σ} (a : Action D) : ReachableSafe n mem σ → Safe σ a → ReachableSafe n mem (step σ a)

/-- **initial state.** -/
theorem inv_init (n : Nat) (mem : Line → D) : Inv (init n mem) := Proofs.Msi.inv_init n mem

example : Inv (init 4 (fun l => l + 100 : Line → Nat)) := inv_init _ _

/-- the full statement: EVERY action preserves the invariant -/
def Full_C06_step : Prop := ∀ (σ : State Nat) (a : Action Nat), Inv σ → Inv (step σ a)

/-- **inductive step, partial.** Every action other than a flush of a core with a request in
progress preserves the invariant. -/
theorem C06_step_partial (σ : State D) (a : Action D) (h : Inv σ) (ha : Safe σ a) : Inv (step σ a) :=
  Proofs.Msi.inv_step σ a h ha

/-- hence every state reachable by safe actions — any number of cores and lines, any interleaving,
any length — satisfies the invariant -/
theorem inv_reachable {n : Nat} {mem : Line → D} {σ : State D} (h : ReachableSafe n mem σ) : Inv σ := by
  induction h with
  | init => exact inv_init n mem
  | step a _ ha ih => exact C06_step_partial _ a ih ha

/-! ### a non-trivial reachable state (two cores, a write then a read of the same line by the other
core: write-back command, snoop, refill) -/

def demoActions : List (Action Nat) :=
  [.start 0 7 true, .proceed 0, .push 0 none, .complete 0 55,
   .start 1 7 false, .snoop 0 7 .writeBack, .proceed 1, .push 1 none, .complete 1 0]

def demo : State Nat := run (init 2 (fun l => l + 100)) demoActions

example : (demo.st 0 7, demo.st 1 7, demo.l1 1 7, demo.mem 7, (demo.sem 7).read, demo.panic)
    = (.I, .S, some 55, 55, 0, false) := by decide

theorem demo_reachable : ReachableSafe 2 (fun l => l + 100) demo := by
  unfold demo demoActions run
  simp only [List.foldl]
  repeat (first
    | exact ReachableSafe.init
    | refine ReachableSafe.step _ ?_ (Or.inl rfl))

example : Inv demo := inv_reachable demo_reachable

/-! ### the clauses, for every state with the invariant (hence every reachable one) -/

/-- **single writer.** At most one core holds a line Modified … -/
theorem single_writer {σ : State D} (h : Inv σ) (c c' : Core) (l : Line)
    (hc : σ.st c l = .M) (hc' : σ.st c' l = .M) : c = c' := by
  by_cases e : c' = c
  · exact e.symm
  · have := h.single c c' l hc e
    rw [this] at hc'
    cases hc'

/-- … and then no other core holds it Shared (nor Modified). -/
theorem no_sharer_beside_writer {σ : State D} (h : Inv σ) (c c' : Core) (l : Line)
    (hc : σ.st c l = .M) (hne : c' ≠ c) : σ.st c' l = .I := h.single c c' l hc hne

/-- **shared = next level.** A Shared line is in L1 and identical to the next level. -/
theorem shared_equals_next_level {σ : State D} (h : Inv σ) (c : Core) (l : Line)
    (hs : σ.st c l = .S) : σ.l1 c l = some (σ.mem l) := h.sharedData c l hs

/-- **holds ↔ not Invalid, outside a transfer.** (i) a non-Invalid line is in L1 — never excused;
(ii) a line in L1 is non-Invalid unless a fill of that core on that line has pushed it and its
`post()` has not run. -/
theorem holds_iff_not_invalid {σ : State D} (h : Inv σ) (c : Core) (l : Line) :
    (σ.st c l ≠ .I → σ.l1 c l ≠ none) ∧ (σ.l1 c l ≠ none → σ.st c l ≠ .I ∨ inTransfer σ c l) := by
  refine ⟨h.holdsOfState c l, fun hl => ?_⟩
  by_cases hi : σ.st c l = .I
  · exact Or.inr (h.stateOfHolds c l hl hi)
  · exact Or.inl hi

/-- **counters never negative** (they count the requests in progress) -/
theorem counters_nonneg {σ : State D} (h : Inv σ) (l : Line) :
    0 ≤ (σ.sem l).read ∧ 0 ≤ (σ.sem l).write := by
  rw [h.semRead l, h.semWrite l]
  exact ⟨Int.natCast_nonneg _, Int.natCast_nonneg _⟩

/-- **semaphore sanity**: at most one writer, never readers and a writer together -/
theorem sem_sane {σ : State D} (h : Inv σ) (l : Line) :
    (σ.sem l).write ≤ 1 ∧ ¬ (0 < (σ.sem l).read ∧ 0 < (σ.sem l).write) := by
  refine ⟨(h.semExcl l).1, fun ⟨hr, hw⟩ => ?_⟩
  have := (h.semExcl l).2 hr
  omega

/-- **no Go panic** is reachable: no `RUnlock`/`Unlock` below zero, no hit on a missing line, no
fill of a resident line, no write-back of a missing line -/
theorem no_panic {σ : State D} (h : Inv σ) (a : Action D) (ha : Safe σ a) : (step σ a).panic = false :=
  (C06_step_partial σ a h ha).noPanic

/-- **the monitor's predicate holds of the model.** `MsiInv` — the decidable predicate evaluated
by the driver on every snapshot of the real machine — is true of the snapshot (over any finite
set of lines) of every state with the invariant; in particular `no_duplicate_lines` and `aligned`. -/
theorem msiInv_of_inv [DecidableEq D] {σ : State D} (h : Inv σ) (ls : List Line) (hls : ls.Nodup) :
    MsiInv (σ.snapshot ls) = true := Proofs.Msi.msiInv_snapshot σ ls h hls

theorem msiInv_of_reachable [DecidableEq D] {n : Nat} {mem : Line → D} {σ : State D}
    (h : ReachableSafe n mem σ) (ls : List Line) (hls : ls.Nodup) : MsiInv (σ.snapshot ls) = true :=
  msiInv_of_inv (inv_reachable h) ls hls

example : MsiInv (demo.snapshot [7, 8]) = true := by decide

/-! ### with `flush` the invariant fails (witnesses; both reproduce on the real code) -/

/-- a read fill that has pushed its line, flushed before `post()` -/
def flushWindow : State Nat :=
  run (init 1 (fun l => l + 100)) [.start 0 7 false, .proceed 0, .push 0 none]

theorem flushWindow_reachable : ReachableSafe 1 (fun l => l + 100) flushWindow := by
  unfold flushWindow run
  simp only [List.foldl]
  repeat (first
    | exact ReachableSafe.init
    | refine ReachableSafe.step _ ?_ (Or.inl rfl))

/-- the monitor's clause on the state after the flush: the line is resident, its state Invalid, no
request in progress -/
theorem flush_window_violates_holds :
    violated ((step flushWindow (.flush 0)).snapshot [7]) = ["holds_iff_not_invalid"] := by decide

/-- **the full step statement is false** -/
theorem not_Full_C06_step : ¬ Full_C06_step := by
  intro hfull
  have hinv : Inv (step flushWindow (.flush 0)) := hfull _ _ (inv_reachable flushWindow_reachable)
  have hl : (step flushWindow (.flush 0)).l1 0 7 ≠ none := by decide
  have hs : (step flushWindow (.flush 0)).st 0 7 = .I := by decide
  obtain ⟨r, hr, _⟩ := hinv.stateOfHolds 0 7 hl hs
  have : (step flushWindow (.flush 0)).req 0 = none := by decide
  rw [this] at hr
  cases hr

/-- a read of a line the core holds Modified takes the WRITE lock but is recorded in the read-lock
table; `flush` releases it with `RUnlock` -/
def readOfModified : State Nat :=
  run (init 1 (fun l => l + 100))
    [.start 0 7 true, .proceed 0, .push 0 none, .complete 0 55, .start 0 7 false]

theorem readOfModified_reachable : ReachableSafe 1 (fun l => l + 100) readOfModified := by
  unfold readOfModified run
  simp only [List.foldl]
  repeat (first
    | exact ReachableSafe.init
    | refine ReachableSafe.step _ ?_ (Or.inl rfl))

theorem flush_read_of_modified_negative_counter :
    ((step readOfModified (.flush 0)).sem 7).read = -1 ∧
    ((step readOfModified (.flush 0)).sem 7).write = 1 ∧
    (step readOfModified (.flush 0)).panic = true ∧
    violated ((step readOfModified (.flush 0)).snapshot [7]) = ["counters_nonneg"] := by decide

/-! ### the next level of MVP-8: memory + shared L3 + dirty flags (work package L3)

`Model/L3.lean` models proc/mvp8-0's L3 layer operation by operation (L1 fill: L3 hit / miss → fetch the 128-byte line,
push, eviction of the extra line; write-back of a Modified L1 line into the L3 line — flagging it in `l3Write` under its
128-ALIGNED address — or straight to memory; L3 eviction: `l3WriteBack` when flagged, else `l3Evict`; end-of-run
`l3WriteBack()`), on `Model/LineCache.lean`, constants from the regenerated `Gen.Consts.mvp8_0`.  `Proofs/L3.lean`:

* the flat next-level view `nl a` = byte of the L3 line covering `a`, else the memory byte (`Proofs.Mmu.view`;
  `Proofs.L3.NL s flat` = "the view of `s` is `flat`", `Proofs.L3.nlOf s` = the view as a list);
* the invariant `Proofs.L3.Inv`: lines are full aligned distinct blocks; every resident line NOT flagged dirty equals
  memory on its range (the harness's auxiliary observation `l3stale`, negated); every flag sits on the base of a resident
  line.  `Model.L3.cleanB` is its decidable snapshot form — evaluated on the real snapshots of the C06 streams.

The operations are the atomic steps of the Go code run back to back; `l3_fetch_push_race` / `l3_evict_decision_race`
show what the model says about the two windows between them (window 1 was a real defect, fixed since; window 2 is not
reachable in the code's timing). -/

/-- the geometry of proc/mvp8-0 as the proofs need it (128-byte L3 lines, 64-byte L1 lines; re-opened when the
regenerated constants change) -/
theorem l3_consts : Proofs.L3.CfgOk Model.L3.mvp8Config 128 64 := Proofs.L3.mvp8Config_ok

/-- the initial state (empty L3, no flag) satisfies the invariant, and its next-level view is the memory -/
theorem l3_init (mem : List Byte) (s0 : Model.L3.State) (h : Model.L3.new Model.L3.mvp8Config mem = .ok s0) :
    Proofs.L3.Inv 128 s0 ∧ Proofs.L3.NL s0 mem :=
  Proofs.L3.init_ok l3_consts mem s0 h

/-- **every operation preserves `Clean`** (and the structural part of the invariant), whatever the state, and moves
the next-level view exactly as `Model.L3.flatStep` says: a fill, an L3 eviction and the final write-back do not change
it; a write-back of an L1 line changes exactly the written bytes -/
theorem l3_step_preserves (s s' : Model.L3.State) (op : Model.L3.Op) (flat : List Byte) (hi : Proofs.L3.Inv 128 s)
    (hnl : Proofs.L3.NL s flat) (hop : Model.L3.okOp Model.L3.mvp8Config op = true)
    (h : Model.L3.step Model.L3.mvp8Config s op = .ok s') :
    Proofs.L3.Inv 128 s' ∧ Proofs.L3.NL s' (Model.L3.flatStep flat op) :=
  let r := Proofs.L3.step_ok l3_consts hi op hop h hnl
  ⟨r.1, r.2.1⟩

/-- **a fill never changes what the next level holds** — whether it hits the L3, or fetches the line from memory, pushes
it and evicts (writes back, if dirty) the extra line -/
theorem l3_fill_keeps_next_level (s s' : Model.L3.State) (a0 : Word) (as : List Word) (r : Int × List Byte) (flat : List Byte)
    (hi : Proofs.L3.Inv 128 s) (hnl : Proofs.L3.NL s flat) (h0 : 0 ≤ a0.toInt)
    (hend : Proofs.Mmu.base 128 a0.toInt + 128 < 2 ^ 31)
    (h : Model.L3.fill Model.L3.mvp8Config s (a0 :: as) = .ok (r, s')) :
    Proofs.L3.Inv 128 s' ∧ Proofs.L3.NL s' flat :=
  let x := Proofs.L3.fill_ok l3_consts.l3 l3_consts.Lpos hi a0 as h0 hend h
  ⟨x.1, x.2.1 flat hnl⟩

/-- **a Shared line stays byte-identical to the next level across L3 evictions**: evicting an L3 line — written back
when its flag (under the line's own 128-aligned address) is set, dropped otherwise — does not change the view -/
theorem l3_evict_keeps_next_level (s s' : Model.L3.State) (lo : Int) (flat : List Byte) (hi : Proofs.L3.Inv 128 s)
    (hnl : Proofs.L3.NL s flat) (h0 : 0 ≤ lo) (hal : lo % 128 = 0) (h : Model.L3.evictExtra s lo = .ok s') :
    Proofs.L3.Inv 128 s' ∧ Proofs.L3.NL s' flat :=
  let x := Proofs.L3.evict_ok l3_consts.Lpos hi lo h0 hal h
  ⟨x.1, x.2.1 flat hnl⟩

/-- **an L1 write-back changes the next level exactly on the written 64 bytes**: the new view is the old one written at
the same address (`writeToMemory` on the flat list), whether the bytes go into the L3 line or to memory -/
theorem l3_writeback_changes_64 (s s' : Model.L3.State) (a : Word) (d : List Byte) (flat flat' : List Byte)
    (hi : Proofs.L3.Inv 128 s) (hnl : Proofs.L3.NL s flat) (h0 : 0 ≤ a.toInt) (hal : a.toInt % 64 = 0) (hd : d.length = 64)
    (hf : Model.Mmu.writeToMemory flat a.toInt d = .ok flat')
    (h : Model.L3.l1WriteBack Model.L3.mvp8Config s a d = .ok s') :
    Proofs.L3.Inv 128 s' ∧ Proofs.L3.NL s' flat' :=
  let x := Proofs.L3.wb_ok l3_consts.l3 l3_consts.Lpos l3_consts.L1pos l3_consts.div hi a d h0 hal hd h
  ⟨x.1, x.2.1 flat flat' hnl hf⟩

/-- **after the final write-back memory = `nl`** (and `l3WriteBack()` does not panic) -/
theorem l3_final_memory_is_next_level (s : Model.L3.State) (flat : List Byte) (hi : Proofs.L3.Inv 128 s)
    (hnl : Proofs.L3.NL s flat) :
    ∃ s', Model.L3.finalWriteBack s = .ok s' ∧ s'.mem = flat ∧ Proofs.L3.Inv 128 s' ∧ Proofs.L3.NL s' flat :=
  Proofs.L3.final_ok hi hnl

/-- **all histories**: from the initial state, along every history of well-formed operations that does not panic, the
invariant holds, the next-level view is the initial memory with the write-backs applied in order, and the monitor's
decidable predicate `cleanB` is true -/
theorem l3_all_histories (mem : List Byte) (s0 s : Model.L3.State) (ops : List Model.L3.Op)
    (h0 : Model.L3.new Model.L3.mvp8Config mem = .ok s0)
    (hops : ∀ op ∈ ops, Model.L3.okOp Model.L3.mvp8Config op = true)
    (h : Model.L3.run Model.L3.mvp8Config s0 ops = .ok s) :
    Proofs.L3.Inv 128 s ∧ Proofs.L3.NL s (ops.foldl Model.L3.flatStep mem) ∧ Model.L3.cleanB Model.L3.mvp8Config s = true := by
  obtain ⟨hi0, hnl0⟩ := l3_init mem s0 h0
  obtain ⟨hi, hnl⟩ := Proofs.L3.run_ok l3_consts ops s0 s mem hi0 hnl0 hops h
  exact ⟨hi, hnl, Proofs.L3.cleanB_of_inv l3_consts.l3 hi⟩

/-- the view is determined by the state: `NL s flat` pins `flat` down (it is `nlOf s`) -/
theorem l3_next_level_unique (s : Model.L3.State) (hi : Proofs.L3.Inv 128 s) (flat : List Byte) (hnl : Proofs.L3.NL s flat) :
    flat = Proofs.L3.nlOf s :=
  Proofs.L3.NL.unique hnl (Proofs.L3.nl_coh l3_consts.Lpos hi.lwf)

/-! #### witnesses (all by kernel evaluation of the model) -/

/-- 256 bytes of zeros; read address 0 (the L3 line [0,128) is fetched and is clean) -/
def l3Demo : GoInt.M Model.L3.State := show GoInt.M Model.L3.State from do
  let s0 ← Model.L3.new Model.L3.mvp8Config (List.replicate 256 0#8)
  let (_, s) ← Model.L3.fill Model.L3.mvp8Config s0 [0#32]
  pure s

/-- what a state shows at byte 64: the next-level view, the memory byte, and the monitor's verdict -/
def l3Look (s : Model.L3.State) : Option Byte × Option Byte × Bool :=
  (Proofs.Mmu.view s.l3.lines s.mem 64, s.mem[64]?, Model.L3.cleanB Model.L3.mvp8Config s)

/-- Non-vacuity of the positive theorems: write the L1 line [64,128) back (into the resident L3 line, flagged under
address 0), then evict L3 line 0: the line is written back, the view still shows the written byte, `cleanB` holds -/
theorem l3_demo_good :
    (do let s ← l3Demo
        let s1 ← Model.L3.l1WriteBack Model.L3.mvp8Config s 64#32 (List.replicate 64 1#8)
        let s2 ← Model.L3.evictExtra s1 0
        pure (s1.dirty, l3Look s1, l3Look s2)).toOption = some ([0], (some 1#8, some 0#8, true), (some 1#8, some 1#8, true)) := by
  decide +kernel

/-- **the seeded mutation** (flag recorded under the un-aligned 64-byte L1 address): the same history LOSES the write —
the eviction of line 0 finds no flag under 0, drops the line, and the next level shows the old byte -/
theorem l3_bad_flag_loses_write :
    (do let s ← l3Demo
        let s1 ← Model.L3.l1WriteBackBad s 64#32 (List.replicate 64 1#8)
        let s2 ← Model.L3.evictExtra s1 0
        pure (s1.dirty, l3Look s1, l3Look s2)).toOption = some ([64], (some 1#8, some 0#8, false), (some 0#8, some 0#8, false)) := by
  decide +kernel

/-- hence, for the mutant, the eviction theorem is FALSE (and the monitor's `cleanB` already fails before the eviction:
a flag on a non-128-aligned address) -/
theorem l3_not_evict_keeps_next_level_bad :
    ¬ (∀ (s s1 s2 : Model.L3.State) (a : Word) (d : List Byte) (lo : Int), Proofs.L3.Inv 128 s →
        0 ≤ a.toInt → a.toInt % 64 = 0 → d.length = 64 → 0 ≤ lo → lo % 128 = 0 →
        Model.L3.l1WriteBackBad s a d = .ok s1 → Model.L3.evictExtra s1 lo = .ok s2 →
        Proofs.Mmu.view s2.l3.lines s2.mem 64 = Proofs.Mmu.view s1.l3.lines s1.mem 64) := by
  intro hall
  have hw := l3_bad_flag_loses_write
  cases hs : l3Demo with
  | error f => rw [hs] at hw; cases hw
  | ok s =>
    have hinv : Proofs.L3.Inv 128 s := by
      unfold l3Demo at hs
      cases h0 : Model.L3.new Model.L3.mvp8Config (List.replicate 256 0#8) with
      | error f => rw [h0] at hs; cases hs
      | ok s0 =>
        rw [h0] at hs
        simp only [bind, Except.bind] at hs
        cases hf : Model.L3.fill Model.L3.mvp8Config s0 [0#32] with
        | error f => rw [hf] at hs; cases hs
        | ok p =>
          rw [hf] at hs
          simp only [pure, Except.pure] at hs
          injection hs with hs
          subst hs
          exact (l3_fill_keeps_next_level s0 p.2 0#32 [] p.1 _ (l3_init _ s0 h0).1 (l3_init _ s0 h0).2 (by decide) (by decide) hf).1
    rw [hs] at hw
    simp only [bind, Except.bind] at hw
    cases h1 : Model.L3.l1WriteBackBad s 64#32 (List.replicate 64 1#8) with
    | error f => rw [h1] at hw; cases hw
    | ok s1 =>
      rw [h1] at hw
      simp only at hw
      cases h2 : Model.L3.evictExtra s1 0 with
      | error f => rw [h2] at hw; cases hw
      | ok s2 =>
        rw [h2] at hw
        simp only [pure, Except.pure] at hw
        injection hw with hw
        simp only [Prod.mk.injEq, l3Look] at hw
        have := hall s s1 s2 64#32 (List.replicate 64 1#8) 0 hinv (by decide) (by decide) (by simp) (by decide) (by decide) h1 h2
        rw [hw.2.1.1, hw.2.2.1] at this
        cases this

/-- **window 1** (`fetchCacheLine` … `pushLineToL3`, ≈ 360 cycles in Go): if a Modified L1 line of the same L3 block is
written back to memory between the fetch and the push, the pushed line is stale — resident, not flagged, different from
memory (`cleanB` false), and the FILL has changed the next-level view (byte 64: 1 → 0).  This WAS the behaviour of the
real code (rig schedule, reports/C06-defect-3.md: the store was lost); fixed in /repo (commit 2747746: the block is copied
when it enters L3), so that `Model.L3.fill` — fetch and push as one step — now describes the code exactly and this history
is no longer one of the code's. -/
theorem l3_fetch_push_race :
    (do let s0 ← Model.L3.new Model.L3.mvp8Config (List.replicate 256 0#8)
        let (lo, line) ← Model.L3.fetchLine Model.L3.mvp8Config s0.mem 0#32
        let s1 ← Model.L3.l1WriteBack Model.L3.mvp8Config s0 64#32 (List.replicate 64 1#8)
        let (_, s2) ← Model.L3.pushLineToL3 Model.L3.mvp8Config s1 lo line
        pure (l3Look s1, l3Look s2)).toOption = some ((some 1#8, some 1#8, true), (some 0#8, some 1#8, false)) := by
  decide +kernel

/-- **window 2** (the request `l3Evict` / `l3WriteBack` is chosen at push time, the snoop runs later): if an L1 line is
written back INTO the victim between decision and execution, the plain `l3Evict` drops the dirty line (byte 64: 1 → 0).
Not reached on the real code: the write-back polls `isAddressInL3` (an LRU refresh) on each of its last 50 cycles, so its
line is never the victim (.work/reports/C06-defect-3.md, last section). -/
theorem l3_evict_decision_race :
    (do let s ← l3Demo
        let k := Model.L3.evictDecision s 0
        let s1 ← Model.L3.l1WriteBack Model.L3.mvp8Config s 64#32 (List.replicate 64 1#8)
        let s2 ← Model.L3.execEvict s1 k 0
        pure (k, l3Look s1, l3Look s2)).toOption =
      some (Model.L3.EvictKind.evict, (some 1#8, some 0#8, true), (some 0#8, some 0#8, true)) := by
  decide +kernel

end Props.C06

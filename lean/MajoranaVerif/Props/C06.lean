/-
  Props/C06.lean — C06: MSI coherence invariants hold at every cycle on the multi-core
  variants (MVP-7.0, 7.1, 8).

  WHAT IS PROVED HERE is about the abstract protocol model `Model.Msi.State/step`
  (Model/Msi.lean part (b): directory + per-core cache controllers as a transition system whose
  actions are the checkpoints of the Go coroutines, latencies abstracted to any number of
  cycles), for ANY number of cores and lines and EVERY interleaving of its actions:

    * `inv_init`, `C06_step_partial`, `inv_reachable` — the inductive invariant
      `Proofs.Msi.Inv` holds initially and is preserved by every action except a `flush` of a
      core that has a request in progress;
    * the clauses of the property for every reachable state: `single_writer`,
      `no_sharer_beside_writer`, `shared_equals_next_level`, `holds_iff_not_invalid`,
      `counters_nonneg`, `sem_sane`, `no_panic`; `no_duplicate_lines` and `aligned` hold by
      construction of the model (L1 is a function of the line, addresses inside a line are not
      modelled) and are stated on the snapshot;
    * `msiInv_of_reachable` — the decidable predicate `Model.Msi.MsiInv` that the monitor
      evaluates on the snapshots of the REAL machine holds of the snapshot of every reachable
      model state (the same predicate, not a paraphrase).

  WHAT IS FALSE of the code and of the model: with `flush` (pipeline flush after a branch
  misprediction resets the cache-controller coroutines) the invariant is not inductive:
    * `not_Full_C06_step`, `flush_window_violates_holds` — a flush between the L1 push and
      `post()` leaves the line in L1 with state Invalid and no transfer in progress;
    * `flush_read_of_modified_negative_counter` — a flush during a read of a line the core
      holds Modified releases the WRITE lock with `RUnlock`: the read counter goes to −1
      (Go: `panic("read is negative")`) and the write lock is never released.
  Both are reproduced on the real code by the rig (see /verif/.work/reports/C06-defect-*.md).

  WHAT IS ONLY MONITORED (tests, labelled so in the evidence): that the real Go code behaves
  like the model — every consecutive pair of per-cycle snapshots of real runs (whole CPU and
  rig) is replayed through `step` by the driver (refinement check), and `MsiInv` is evaluated
  on every snapshot.  MVP-8's shared L3 layer (L3 fills, L3 evictions, the l3Lock) is not in
  the model; on MVP-8 the model's next level is "L3 sub-line if present, else memory".
-/
import MajoranaVerif.Model.Msi
import MajoranaVerif.Proofs.Msi
import MajoranaVerif.Proofs.MsiSnapshot
open Model.Msi Proofs.Msi

namespace Props.C06

variable {D : Type}

/-- the actions the invariant is claimed for: everything except a flush of a busy core -/
def Safe (σ : State D) (a : Action D) : Prop := a.isFlush = false ∨ FlushIdle σ a

/-- states reachable by safe actions -/
inductive ReachableSafe (n : Nat) (mem : Line → D) : State D → Prop
  | init : ReachableSafe n mem (init n mem)
  | step {σ} (a : Action D) : ReachableSafe n mem σ → Safe σ a → ReachableSafe n mem (step σ a)

/-- **initial state.** -/
theorem inv_init (n : Nat) (mem : Line → D) : Inv (init n mem) := Proofs.Msi.inv_init n mem

example : Inv (init 4 (fun l => l + 100 : Line → Nat)) := inv_init _ _

/-- the full statement: EVERY action preserves the invariant -/
def Full_C06_step : Prop := ∀ (σ : State Nat) (a : Action Nat), Inv σ → Inv (step σ a)

/-- **inductive step, partial.** Every action other than a flush of a core with a request in
progress preserves the invariant. -/
theorem C06_step_partial (σ : State D) (a : Action D) (h : Inv σ) (ha : Safe σ a) : Inv (step σ a) :=
  Proofs.Msi.inv_step σ a h ha

/-- hence every state reachable by safe actions — any number of cores and lines, any interleaving,
any length — satisfies the invariant -/
theorem inv_reachable {n : Nat} {mem : Line → D} {σ : State D} (h : ReachableSafe n mem σ) : Inv σ := by
  induction h with
  | init => exact inv_init n mem
  | step a _ ha ih => exact C06_step_partial _ a ih ha

/-! ### a non-trivial reachable state (two cores, a write then a read of the same line by the other
core: write-back command, snoop, refill) -/

def demoActions : List (Action Nat) :=
  [.start 0 7 true, .proceed 0, .push 0 none, .complete 0 55,
   .start 1 7 false, .snoop 0 7 .writeBack, .proceed 1, .push 1 none, .complete 1 0]

def demo : State Nat := run (init 2 (fun l => l + 100)) demoActions

example : (demo.st 0 7, demo.st 1 7, demo.l1 1 7, demo.mem 7, (demo.sem 7).read, demo.panic)
    = (.I, .S, some 55, 55, 0, false) := by decide

theorem demo_reachable : ReachableSafe 2 (fun l => l + 100) demo := by
  unfold demo demoActions run
  simp only [List.foldl]
  repeat (first
    | exact ReachableSafe.init
    | refine ReachableSafe.step _ ?_ (Or.inl rfl))

example : Inv demo := inv_reachable demo_reachable

/-! ### the clauses, for every state with the invariant (hence every reachable one) -/

/-- **single writer.** At most one core holds a line Modified … -/
theorem single_writer {σ : State D} (h : Inv σ) (c c' : Core) (l : Line)
    (hc : σ.st c l = .M) (hc' : σ.st c' l = .M) : c = c' := by
  by_cases e : c' = c
  · exact e.symm
  · have := h.single c c' l hc e
    rw [this] at hc'
    cases hc'

/-- … and then no other core holds it Shared (nor Modified). -/
theorem no_sharer_beside_writer {σ : State D} (h : Inv σ) (c c' : Core) (l : Line)
    (hc : σ.st c l = .M) (hne : c' ≠ c) : σ.st c' l = .I := h.single c c' l hc hne

/-- **shared = next level.** A Shared line is in L1 and identical to the next level. -/
theorem shared_equals_next_level {σ : State D} (h : Inv σ) (c : Core) (l : Line)
    (hs : σ.st c l = .S) : σ.l1 c l = some (σ.mem l) := h.sharedData c l hs

/-- **holds ↔ not Invalid, outside a transfer.** (i) a non-Invalid line is in L1 — never excused;
(ii) a line in L1 is non-Invalid unless a fill of that core on that line has pushed it and its
`post()` has not run. -/
theorem holds_iff_not_invalid {σ : State D} (h : Inv σ) (c : Core) (l : Line) :
    (σ.st c l ≠ .I → σ.l1 c l ≠ none) ∧ (σ.l1 c l ≠ none → σ.st c l ≠ .I ∨ inTransfer σ c l) := by
  refine ⟨h.holdsOfState c l, fun hl => ?_⟩
  by_cases hi : σ.st c l = .I
  · exact Or.inr (h.stateOfHolds c l hl hi)
  · exact Or.inl hi

/-- **counters never negative** (they count the requests in progress) -/
theorem counters_nonneg {σ : State D} (h : Inv σ) (l : Line) :
    0 ≤ (σ.sem l).read ∧ 0 ≤ (σ.sem l).write := by
  rw [h.semRead l, h.semWrite l]
  exact ⟨Int.natCast_nonneg _, Int.natCast_nonneg _⟩

/-- **semaphore sanity**: at most one writer, never readers and a writer together -/
theorem sem_sane {σ : State D} (h : Inv σ) (l : Line) :
    (σ.sem l).write ≤ 1 ∧ ¬ (0 < (σ.sem l).read ∧ 0 < (σ.sem l).write) := by
  refine ⟨(h.semExcl l).1, fun ⟨hr, hw⟩ => ?_⟩
  have := (h.semExcl l).2 hr
  omega

/-- **no Go panic** is reachable: no `RUnlock`/`Unlock` below zero, no hit on a missing line, no
fill of a resident line, no write-back of a missing line -/
theorem no_panic {σ : State D} (h : Inv σ) (a : Action D) (ha : Safe σ a) : (step σ a).panic = false :=
  (C06_step_partial σ a h ha).noPanic

/-- **the monitor's predicate holds of the model.** `MsiInv` — the decidable predicate evaluated
by the driver on every snapshot of the real machine — is true of the snapshot (over any finite
set of lines) of every state with the invariant; in particular `no_duplicate_lines` and `aligned`. -/
theorem msiInv_of_inv [DecidableEq D] {σ : State D} (h : Inv σ) (ls : List Line) (hls : ls.Nodup) :
    MsiInv (σ.snapshot ls) = true := Proofs.Msi.msiInv_snapshot σ ls h hls

theorem msiInv_of_reachable [DecidableEq D] {n : Nat} {mem : Line → D} {σ : State D}
    (h : ReachableSafe n mem σ) (ls : List Line) (hls : ls.Nodup) : MsiInv (σ.snapshot ls) = true :=
  msiInv_of_inv (inv_reachable h) ls hls

example : MsiInv (demo.snapshot [7, 8]) = true := by decide

/-! ### with `flush` the invariant fails (witnesses; both reproduce on the real code) -/

/-- a read fill that has pushed its line, flushed before `post()` -/
def flushWindow : State Nat :=
  run (init 1 (fun l => l + 100)) [.start 0 7 false, .proceed 0, .push 0 none]

theorem flushWindow_reachable : ReachableSafe 1 (fun l => l + 100) flushWindow := by
  unfold flushWindow run
  simp only [List.foldl]
  repeat (first
    | exact ReachableSafe.init
    | refine ReachableSafe.step _ ?_ (Or.inl rfl))

/-- the monitor's clause on the state after the flush: the line is resident, its state Invalid, no
request in progress -/
theorem flush_window_violates_holds :
    violated ((step flushWindow (.flush 0)).snapshot [7]) = ["holds_iff_not_invalid"] := by decide

/-- **the full step statement is false** -/
theorem not_Full_C06_step : ¬ Full_C06_step := by
  intro hfull
  have hinv : Inv (step flushWindow (.flush 0)) := hfull _ _ (inv_reachable flushWindow_reachable)
  have hl : (step flushWindow (.flush 0)).l1 0 7 ≠ none := by decide
  have hs : (step flushWindow (.flush 0)).st 0 7 = .I := by decide
  obtain ⟨r, hr, _⟩ := hinv.stateOfHolds 0 7 hl hs
  have : (step flushWindow (.flush 0)).req 0 = none := by decide
  rw [this] at hr
  cases hr

/-- a read of a line the core holds Modified takes the WRITE lock but is recorded in the read-lock
table; `flush` releases it with `RUnlock` -/
def readOfModified : State Nat :=
  run (init 1 (fun l => l + 100))
    [.start 0 7 true, .proceed 0, .push 0 none, .complete 0 55, .start 0 7 false]

theorem readOfModified_reachable : ReachableSafe 1 (fun l => l + 100) readOfModified := by
  unfold readOfModified run
  simp only [List.foldl]
  repeat (first
    | exact ReachableSafe.init
    | refine ReachableSafe.step _ ?_ (Or.inl rfl))

theorem flush_read_of_modified_negative_counter :
    ((step readOfModified (.flush 0)).sem 7).read = -1 ∧
    ((step readOfModified (.flush 0)).sem 7).write = 1 ∧
    (step readOfModified (.flush 0)).panic = true ∧
    violated ((step readOfModified (.flush 0)).snapshot [7]) = ["counters_nonneg"] := by decide

end Props.C06

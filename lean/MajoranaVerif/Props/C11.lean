/-
  Props/C11.lean — C11: the assembler front end is total and resolves labels to
  the right instruction.

  The theorems are about `Model.Parser.parse` (Model/Parser.lean), the hand-written
  model of `risc.Parse`, tied to the Go code by the c11 correspondence stream (tie
  T2a) on every run.  Every quantifier ranges over ALL byte strings (`List UInt8`,
  valid UTF-8 or not) and, for clause (e), over all layout edits.

  The reference notions the statements use (`lines`, `isInstrLine`, `labelName`,
  `LayoutEdit`, `pretty`, …) live in Model/ParserRef.lean and are independent of the
  parser model: a three-way line classifier, six inductive text edits, a printer.

  (a) no_panic          parsing never panics (totality itself is definitional)
  (b) count             #instructions = #instruction lines
  (c) labels_*          a label ↦ 4 × (number of instruction lines before its LAST definition)
  (d) operands_*        instruction j is decoded from instruction line j alone; registers by
                        name (both spellings), immediates by decimal value; round trip
                        through the canonical printer
  (e) layout_partial    blank lines, comment lines, indentation, trailing blanks, trailing
                        comments and mnemonic case do not change the result —
      not_Full_layout   — except that a line consisting of `j` alone takes its OWN SPELLING
                        as the jump target (`j` ↦ label "j", `J` ↦ label "J"): the full
                        statement is false of the current code (C11-defect-1).
-/
import MajoranaVerif.Model.Parser
import MajoranaVerif.Model.ParserRef
import MajoranaVerif.Proofs.Parser
open GoInt Model.Parser

namespace Props.C11

/-! ### (a) totality -/

/-- Parsing never panics: for every byte string the result is a program or an error. -/
theorem no_panic (s : Bytes) : ∀ msg, parse s ≠ .error (.panic msg) :=
  Proofs.Parser.noPanic_parse s

/-- … so it is one of the two. -/
theorem total (s : Bytes) : (∃ app, parse s = .ok app) ∨ (∃ kind, parse s = .error (.err kind)) := by
  cases h : parse s with
  | ok app => exact Or.inl ⟨app, rfl⟩
  | error e =>
    cases e with
    | err k => exact Or.inr ⟨k, rfl⟩
    | panic m => exact absurd h (no_panic s m)

-- garbage, unbalanced parentheses (the former slice panic of `parseOffsetReg`), invalid UTF-8
example : parse (ascii "lw t0, 0(") = .error (.err "offset") := by rfl
example : parse [0xFF, 0xC2, 0x28, 0x29, 0x0A, 0xE2, 0x80] = .error (.err "unknown") := by rfl

/-! ### (b) count -/

/-- The number of instructions of an accepted text is the number of its instruction lines
(lines that are not blank, not a comment and not a label). -/
theorem count {s : Bytes} {app : App} (h : parse s = .ok app) :
    app.instrs.length = (instrLines s).length := by
  obtain ⟨items, hok, hi, _⟩ := Proofs.Parser.parse_ok h
  rw [hi, Proofs.Parser.filterMap_instrOf_length, Proofs.Parser.allOk_count hok]
  rfl

example : ∃ app, parse (ascii "# c\nl:\n  add t0, t1, t2 # x\n\n J l\n") = .ok app ∧ app.instrs.length = 2 ∧
    (instrLines (ascii "# c\nl:\n  add t0, t1, t2 # x\n\n J l\n")).length = 2 :=
  ⟨_, rfl, rfl, rfl⟩

/-! ### (c) labels -/

/-- A label maps to four times the number of instruction lines before its LAST definition,
i.e. to the address of the next instruction after it (addresses are Go `int32`s: modulo 2³²). -/
theorem labels_last {s : Bytes} {app : App} (h : parse s = .ok app) {pre post : List Bytes} {raw l : Bytes}
    (hs : lines s = pre ++ raw :: post) (hl : labelName raw = some l)
    (hp : ∀ r ∈ post, labelName r ≠ some l) :
    app.labels.find? (latin1 l) = some (BitVec.ofNat 32 (4 * (pre.filter isInstrLine).length)) :=
  Proofs.Parser.labels_last h hs hl hp

/-- A name no line defines is not in the map. -/
theorem labels_undefined {s : Bytes} {app : App} (h : parse s = .ok app) {l : Bytes}
    (hp : ∀ r ∈ lines s, labelName r ≠ some l) : app.labels.find? (latin1 l) = none :=
  Proofs.Parser.labels_undefined h hp

-- duplicate label: the last definition wins; hypotheses satisfiable
example : ∃ app, parse (ascii "l:\nnop\nl:\nnop\nj l") = .ok app ∧ app.labels.find? "l" = some 4 := ⟨_, rfl, rfl⟩
example : lines (ascii "l:\nnop\nl:\nnop\nj l") = [ascii "l:", ascii "nop"] ++ ascii "l:" :: [ascii "nop", ascii "j l"] ∧
    labelName (ascii "l:") = some (ascii "l") := ⟨rfl, rfl⟩

/-! ### (d) operands -/

/-- Instruction `j` of the result is what instruction line `j` decodes to on its own. -/
theorem operands_local {s : Bytes} {app : App} (h : parse s = .ok app) (j : Nat) (raw : Bytes)
    (hj : (instrLines s)[j]? = some raw) :
    ∃ i, decodeLine raw = .ok (some i) ∧ app.instrs[j]? = some i := by
  obtain ⟨items, hok, hi, _⟩ := Proofs.Parser.parse_ok h
  obtain ⟨i, hc, hg⟩ := hok.instr_at j raw hj
  exact ⟨i, Proofs.Parser.decodeLine_of_classify hc, by rw [hi]; exact hg⟩

example : decodeLine (ascii "  sb $t0, -4(sp) # store") = .ok (some (.sb_ { rs := 5, offset := -4#32, rd := 2 })) := by rfl
example : decodeLine (ascii "sh t0, 4, t1") = .ok (some (.sh_ { rs := 5, offset := 4#32, rd := 6 })) := by rfl

/-- Registers are decoded by name: each of the 32 ABI names denotes its register, with or
without a leading `$`. -/
theorem register_by_name (r : Nat) (h : r < 32) :
    parseRegister (regName r) = .ok r ∧ parseRegister (0x24 :: regName r) = .ok r :=
  ⟨Proofs.Parser.parseRegister_regName h, Proofs.Parser.parseRegister_dollar h⟩

/-- … and nothing else is a register (no upper case, no `x5`, no `$$t0`). -/
theorem register_only_names {s : Bytes} {r : Nat} (h : parseRegister s = .ok r) :
    r < 32 ∧ (s = regName r ∨ s = 0x24 :: regName r) :=
  Proofs.Parser.parseRegister_only h

example : regName 5 = ascii "t0" ∧ regName 27 = ascii "s11" ∧ regName 0 = ascii "zero" := ⟨rfl, rfl, rfl⟩
example : parseRegister (ascii "T0") = .error (.err "reg") := by rfl

/-- Immediates are decoded by decimal value: a string of decimal digits denotes its value,
provided it fits an `int32` … -/
theorem immediate_unsigned {ds : Bytes} (hne : ds ≠ []) (hd : ds.all isDigit = true) :
    parseInt32 ds = if digitsVal ds ≥ 2147483648 then .error (.err "int") else .ok (BitVec.ofNat 32 (digitsVal ds)) :=
  Proofs.Parser.parseInt32_digits hne hd

/-- … a leading `+` changes nothing … -/
theorem immediate_plus (ds : Bytes) : parseInt32 (0x2B :: ds) =
    if ds.isEmpty || !ds.all isDigit then .error (.err "int")
    else if digitsVal ds ≥ 2147483648 then .error (.err "int") else .ok (BitVec.ofNat 32 (digitsVal ds)) :=
  Proofs.Parser.parseInt32_plus ds

/-- … a leading `-` negates, down to -2³¹ … -/
theorem immediate_minus (ds : Bytes) : parseInt32 (0x2D :: ds) =
    if ds.isEmpty || !ds.all isDigit then .error (.err "int")
    else if digitsVal ds > 2147483648 then .error (.err "int") else .ok (BitVec.ofInt 32 (-(digitsVal ds : Int))) :=
  Proofs.Parser.parseInt32_minus ds

/-- … and nothing else is an immediate (no `0x10`, no `1_000`, no blanks inside, not empty). -/
theorem immediate_only {s : Bytes} {v : Word} (h : parseInt32 s = .ok v) :
    (signSplit s).2 ≠ [] ∧ (signSplit s).2.all isDigit = true ∧
      v = if (signSplit s).1 then BitVec.ofInt 32 (-(digitsVal (signSplit s).2 : Int))
          else BitVec.ofNat 32 (digitsVal (signSplit s).2) :=
  Proofs.Parser.parseInt32_only h

/-- Every `int32` is the value of its decimal rendering. -/
theorem immediate_roundtrip (v : Word) : parseInt32 (showImm v) = .ok v := Proofs.Parser.parseInt32_showImm v

example : digitsVal (ascii "0042") = 42 ∧ showImm (-2147483648#32) = ascii "-2147483648" := ⟨rfl, rfl⟩
example : parseInt32 (ascii "0x10") = .error (.err "int") ∧ parseInt32 (ascii "1_000") = .error (.err "int") ∧
    parseInt32 (ascii "2147483648") = .error (.err "int") ∧ parseInt32 (ascii "-0") = .ok 0#32 := ⟨rfl, rfl, rfl, rfl⟩

/-- Round trip, one instruction: the canonical text of any printable instruction (registers
0…31, printable label, empty forward slot — all 45 structs, all registers, all 2³² immediates)
decodes to exactly that instruction: each operand position lands in the Go field the printer
took it from. -/
theorem decode_pretty (i : Gen.Instr) (h : WfInstr i = true) : decodeLine (prettyInstr i) = .ok (some i) :=
  Proofs.Parser.decodeLine_of_classify (Proofs.Parser.prettyInstr_spec i h).1

/-- Round trip, whole program: the canonical text of a printable program parses back to the same
instructions and the same label map (compared as a map: Go maps are unordered). -/
theorem parse_pretty (app : App) (h : WfApp app = true) :
    ∃ app', parse (pretty app) = .ok app' ∧ app'.instrs = app.instrs ∧
      ∀ key, app'.labels.find? key = app.labels.find? key :=
  Proofs.Parser.parse_pretty app h

/-- a printable program with a forward reference, a backward one and a label behind the last instruction -/
def exApp : App :=
  { instrs := [.li_ { rd := 5, imm := 3#32 }, .beq_ { rs1 := 5, rs2 := 0, label := "end" }, .sb_ { rs := 5, offset := -4#32, rd := 2 }, .j_ { label := "loop" }]
    labels := ⟨[("end", 16#32), ("loop", 4#32), ("main", 0#32)]⟩ }

example : WfApp exApp = true := by rfl
example : pretty exApp = ascii "main:\nli t0, 3\nloop:\nbeq t0, zero, end\nsb t0, -4(sp)\nj loop\nend:" := by rfl

/-! ### (e) layout -/

/-- FULL statement of clause (e): no layout edit changes the result.  FALSE of the current
code — see `not_Full_layout`. -/
def Full_layout : Prop := ∀ (e : LayoutEdit) (s : Bytes), parse (e.apply s) = parse s

/-- Witness: the text `j`.  A line without a space is handed to the `switch` whole — as the
mnemonic AND as the operand text — so `j` jumps to the label "j" and `J` to the label "J". -/
theorem not_Full_layout : ¬ Full_layout := by
  intro h
  have := h (.mnemonicCase 0 [true]) (ascii "j")
  have e1 : parse ((LayoutEdit.mnemonicCase 0 [true]).apply (ascii "j")) =
      .ok { instrs := [.j_ { label := "J" }], labels := {} } := by rfl
  have e2 : parse (ascii "j") = .ok { instrs := [.j_ { label := "j" }], labels := {} } := by rfl
  rw [e1, e2] at this
  injection this with this
  injection this with this
  simp at this

/-- Clause (e) for every edit that does not re-spell a bare `j` line: inserting a blank
line or a comment line anywhere, indenting or right-padding any line with spaces/tabs,
appending ` #…` to any operand-carrying line, changing the case of any mnemonic letters. -/
theorem layout_partial (e : LayoutEdit) (s : Bytes) (hj : e.hitsBareJ s = false) :
    parse (e.apply s) = parse s := by
  have hne : lines s ≠ [] := Proofs.Parser.splitOn_ne_nil _ _
  have hnl : ∀ l ∈ lines s, (0x0A : UInt8) ∉ l := fun l hl => Proofs.Parser.not_mem_of_mem_splitOn hl
  have hok : Proofs.Parser.EditOk e (lines s) := by
    cases e with
    | mnemonicCase i mask =>
      intro raw hr
      simpa [LayoutEdit.hitsBareJ, hr] using hj
    | _ => trivial
  obtain ⟨⟨hne', hnl'⟩, hp⟩ := Proofs.Parser.applyLines_ok e hne hnl hok
  have hl : lines (e.apply s) = e.applyLines (lines s) := Proofs.Parser.splitOn_join hne' hnl'
  show (do let st ← parseLines (lines (e.apply s)) {}; pure { instrs := st.instrs, labels := st.labels : App }) =
    (do let st ← parseLines (lines s) {}; pure { instrs := st.instrs, labels := st.labels : App })
  rw [hl, hp]

/-- the edits act on the text as expected, and the hypothesis is satisfiable -/
example : (LayoutEdit.trailingComment 1 (ascii " i++")).apply (ascii "l:\naddi t0, t0, 1") =
    ascii "l:\naddi t0, t0, 1 # i++" := by rfl
example : (LayoutEdit.mnemonicCase 0 [true, false, true]).apply (ascii "  addi t0, t0, 1") =
    ascii "  AdDi t0, t0, 1" ∧ (LayoutEdit.mnemonicCase 0 [true, false, true]).hitsBareJ (ascii "  addi t0, t0, 1") = false :=
  ⟨rfl, rfl⟩
example : (LayoutEdit.insertComment 1 (ascii "\t") (ascii " x")).apply (ascii "nop\nret") = ascii "nop\n\t# x\nret" := by rfl

end Props.C11

/-
  Props/C01.lean — C01 (the part that is proved): the unpipelined machines MVP-1
  and MVP-2 compute the sequential architectural result.

  `Model.Seq` (Model/SeqMachine.lean) is the cycle-accurate model of proc/mvp1 and
  proc/mvp2, built from the REGENERATED instruction semantics; it is tied to the Go
  machines on every run (status, cycle count, final registers and memory must agree
  on every generated program).  The theorem: for EVERY parsed program (fewer than 250
  instructions, register numbers below 32, fresh forward slots — what risc.Parse
  produces), EVERY initial state related to a specification machine, and EVERY fuel:
  whenever the specification run `Spec.run` ends by `ret`, by running past the last
  instruction, or with a defined error (i.e. the program is well-formed along its
  run), the model ends the same way (an error value for a defined error — C07's
  clause — and never a Go panic), after the same number of instructions, and its
  final registers and memory are those of the specification.  The fetch policy is
  arbitrary, so this covers MVP-1 and MVP-2 at once; the instruction-level fact it
  rests on is C02's `exec_ok`.

  MVP-3 … MVP-8 have no Lean machine model: for them C01 is checked by the
  differential stream only (DESIGN §4 C01, MANIFEST level "exploration").
-/
import MajoranaVerif.Proofs.Refine
open GoInt Model Model.Seq Proofs.Refine

namespace Props.C01

/-- what it means for a model run to agree with a specification run -/
def Agree (rs : Spec.Result) (rm : Model.Seq.Result) : Prop :=
  match rs.stop with
  | .ret => rm.halt = some .ret ∧ Rel rm.final.ctx rs.final ∧ rm.steps = rs.steps
  | .offEnd => rm.halt = some .offEnd ∧ Rel rm.final.ctx rs.final ∧ rm.steps = rs.steps
  | .error _ => rm.halt = some .err ∧ Rel rm.final.ctx rs.final ∧ rm.steps = rs.steps
  | .notWf _ => True     -- the program left the well-formed subset: no claim

theorem go_refines {σ} (fp : FetchPolicy σ) (dc : Int) (app : App) (hw : WfApp app) :
    ∀ (fuel : Nat) (ctx : Model.Context) (m : Spec.Machine) (pc : Word) (fs : σ) (cyc : Int) (n : Nat)
      (tr : Array Spec.Event), Rel ctx m → pc.toNat ≤ 4 * app.instrs.length →
      Agree (Spec.run.go (specProg app) fuel pc m n tr) (run.go fp dc app fuel ⟨ctx, pc⟩ fs cyc n) := by
  intro fuel
  induction fuel with
  | zero => intro ctx m pc fs cyc n tr _ _; simp [Spec.run.go, Agree]
  | succ k ih =>
    intro ctx m pc fs cyc n tr hR hpc
    obtain ⟨hnext, hoff, hret, herr⟩ := step_sim dc app hw ctx m hR pc hpc
    unfold Spec.run.go run.go
    cases hs : Spec.step (specProg app) pc m with
    | inl s =>
      cases s with
      | ret =>
        obtain ⟨c, hc⟩ := hret hs
        simp only [hc, Agree, true_and, and_true]
        exact hR
      | offEnd =>
        obtain ⟨c, hc⟩ := hoff hs
        simp only [hc, Agree, true_and, and_true]
        exact hR
      | error e =>
        obtain ⟨c, hc⟩ := herr e hs
        simp only [hc, Agree, true_and, and_true]
        exact hR
      | notWf w => simp [Agree]
    | inr x =>
      obtain ⟨pc', m', ev⟩ := x
      obtain ⟨ctx', c, hc, hR', hpc'⟩ := hnext pc' m' ev hs
      simp only [hc]
      exact ih ctx' m' pc' _ _ _ _ hR' hpc'

/-- **C01 for MVP-1 and MVP-2** (any fetch policy). -/
theorem seq_refines_spec {σ} (fp : FetchPolicy σ) (dc : Int) (app : App) (hw : WfApp app)
    (ctx : Model.Context) (m : Spec.Machine) (hR : Rel ctx m) (fuel : Nat) :
    Agree (Spec.run (specProg app) m fuel) (run fp dc app ⟨ctx, 0#32⟩ fuel) := by
  unfold Spec.run run
  have hsz : ¬ (specProg app).instrs.size ≥ 250 := by
    have := hw.small
    simp [specProg]; omega
  simp only [hsz, if_false]
  exact go_refines fp dc app hw fuel ctx m 0#32 fp.init 0 0 #[] hR (by simp)

theorem mvp1_correct (app : App) (hw : WfApp app) (ctx : Model.Context) (m : Spec.Machine)
    (hR : Rel ctx m) (fuel : Nat) :
    Agree (Spec.run (specProg app) m fuel) (runMvp1 app ⟨ctx, 0#32⟩ fuel) :=
  seq_refines_spec _ _ app hw ctx m hR fuel

theorem mvp2_correct (app : App) (hw : WfApp app) (ctx : Model.Context) (m : Spec.Machine)
    (hR : Rel ctx m) (fuel : Nat) :
    Agree (Spec.run (specProg app) m fuel) (runMvp2 app ⟨ctx, 0#32⟩ fuel) :=
  seq_refines_spec _ _ app hw ctx m hR fuel

/-- The hypotheses are satisfiable: a fresh context is related to the all-zero machine … -/
example : Rel { Memory := List.replicate 64 0#8 } { regs := Array.replicate 32 0#32, mem := Array.replicate 64 0#8 } :=
  { rat := rfl, tx := rfl,
    regs := by
      intro r
      simp only [GoMap.get1, GoMap.get, GoMap.find?, Spec.Machine.rf, List.lookup, Array.getD_eq_getD_getElem?]
      by_cases h : r < 32 <;> simp [h] <;> rfl,
    size := by simp, zero := by simp [Spec.Machine.rf], mem := by simp, memSmall := by simp }

/-- … and a small parsed program is well-formed. -/
example : WfApp { instrs := [.li_ { rd := 5, imm := 7#32 }, .addi_ { rd := 6, rs := 5, imm := 1#32 }, .ret_ {}], labels := {} } :=
  { small := by decide, regs := by decide, nofwd := by decide }

end Props.C01

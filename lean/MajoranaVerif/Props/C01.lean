/-
  Props/C01.lean — C01 (the part that is proved): the unpipelined machines MVP-1
  and MVP-2 compute the sequential architectural result.

  `Model.Seq` (Model/SeqMachine.lean) is the cycle-accurate model of proc/mvp1 and
  proc/mvp2, built from the REGENERATED instruction semantics; it is tied to the Go
  machines on every run (status, cycle count, final registers and memory must agree
  on every generated program).  The theorem: for EVERY parsed program (fewer than 250
  instructions, register numbers below 32, fresh forward slots — what risc.Parse
  produces), EVERY initial state related to a specification machine, and EVERY fuel:
  whenever the specification run `Spec.run` ends by `ret`, by running past the last
  instruction, or with a defined error (i.e. the program is well-formed along its
  run), the model ends the same way (an error value for a defined error — C07's
  clause — and never a Go panic), after the same number of instructions, and its
  final registers and memory are those of the specification.  The fetch policy is
  arbitrary, so this covers MVP-1 and MVP-2 at once; the instruction-level fact it
  rests on is C02's `exec_ok`.

  MVP-3 … MVP-8 have no Lean machine model: for them C01 is checked by the
  differential stream only (DESIGN §4 C01, MANIFEST level "exploration").
-/
import MajoranaVerif.Proofs.Refine
import MajoranaVerif.Proofs.Mvp3Spec
import MajoranaVerif.Proofs.Mvp4Spec
import MajoranaVerif.Proofs.Mvp4Terminates
import MajoranaVerif.Proofs.Mvp5Total
import MajoranaVerif.Proofs.Mvp60Witness2
import MajoranaVerif.Proofs.Mvp60SlRun
import MajoranaVerif.Proofs.Mvp60SlWitness
import MajoranaVerif.Proofs.Mvp60SlSpec
import MajoranaVerif.Proofs.Mvp60JumpWitness
import MajoranaVerif.Proofs.Mvp60SlTerm
open GoInt Model Model.Seq Proofs.Refine

namespace Props.C01

/-- what it means for a model run to agree with a specification run -/
def Agree (rs : Spec.Result) (rm : Model.Seq.Result) : Prop :=
  match rs.stop with
  | .ret => rm.halt = some .ret ∧ Rel rm.final.ctx rs.final ∧ rm.steps = rs.steps
  | .offEnd => rm.halt = some .offEnd ∧ Rel rm.final.ctx rs.final ∧ rm.steps = rs.steps
  | .error _ => rm.halt = some .err ∧ Rel rm.final.ctx rs.final ∧ rm.steps = rs.steps
  | .notWf _ => True     -- the program left the well-formed subset: no claim

theorem go_refines {σ} (fp : FetchPolicy σ) (dc : Int) (app : App) (hw : WfApp app) :
    ∀ (fuel : Nat) (ctx : Model.Context) (m : Spec.Machine) (pc : Word) (fs : σ) (cyc : Int) (n : Nat)
      (tr : Array Spec.Event), Rel ctx m → pc.toNat ≤ 4 * app.instrs.length →
      Agree (Spec.run.go (specProg app) fuel pc m n tr) (run.go fp dc app fuel ⟨ctx, pc⟩ fs cyc n) := by
  intro fuel
  induction fuel with
  | zero => intro ctx m pc fs cyc n tr _ _; simp [Spec.run.go, Agree]
  | succ k ih =>
    intro ctx m pc fs cyc n tr hR hpc
    obtain ⟨hnext, hoff, hret, herr⟩ := step_sim dc app hw ctx m hR pc hpc
    unfold Spec.run.go run.go
    cases hs : Spec.step (specProg app) pc m with
    | inl s =>
      cases s with
      | ret =>
        obtain ⟨c, hc⟩ := hret hs
        simp only [hc, Agree, true_and, and_true]
        exact hR
      | offEnd =>
        obtain ⟨c, hc⟩ := hoff hs
        simp only [hc, Agree, true_and, and_true]
        exact hR
      | error e =>
        obtain ⟨c, hc⟩ := herr e hs
        simp only [hc, Agree, true_and, and_true]
        exact hR
      | notWf w => simp [Agree]
    | inr x =>
      obtain ⟨pc', m', ev⟩ := x
      obtain ⟨ctx', c, hc, hR', hpc'⟩ := hnext pc' m' ev hs
      simp only [hc]
      exact ih ctx' m' pc' _ _ _ _ hR' hpc'

/-- **C01 for MVP-1 and MVP-2** (any fetch policy). -/
theorem seq_refines_spec {σ} (fp : FetchPolicy σ) (dc : Int) (app : App) (hw : WfApp app)
    (ctx : Model.Context) (m : Spec.Machine) (hR : Rel ctx m) (fuel : Nat) :
    Agree (Spec.run (specProg app) m fuel) (run fp dc app ⟨ctx, 0#32⟩ fuel) := by
  unfold Spec.run run
  have hsz : ¬ (specProg app).instrs.size ≥ 250 := by
    have := hw.small
    simp [specProg]; omega
  simp only [hsz, if_false]
  exact go_refines fp dc app hw fuel ctx m 0#32 fp.init 0 0 #[] hR (by simp)

theorem mvp1_correct (app : App) (hw : WfApp app) (ctx : Model.Context) (m : Spec.Machine)
    (hR : Rel ctx m) (fuel : Nat) :
    Agree (Spec.run (specProg app) m fuel) (runMvp1 app ⟨ctx, 0#32⟩ fuel) :=
  seq_refines_spec _ _ app hw ctx m hR fuel

theorem mvp2_correct (app : App) (hw : WfApp app) (ctx : Model.Context) (m : Spec.Machine)
    (hR : Rel ctx m) (fuel : Nat) :
    Agree (Spec.run (specProg app) m fuel) (runMvp2 app ⟨ctx, 0#32⟩ fuel) :=
  seq_refines_spec _ _ app hw ctx m hR fuel

/-- The hypotheses are satisfiable: a fresh context is related to the all-zero machine … -/
example : Rel { Memory := List.replicate 64 0#8 } { regs := Array.replicate 32 0#32, mem := Array.replicate 64 0#8 } :=
  { rat := rfl, tx := rfl,
    regs := by
      intro r
      simp only [GoMap.get1, GoMap.get, GoMap.find?, Spec.Machine.rf, List.lookup, Array.getD_eq_getD_getElem?]
      by_cases h : r < 32 <;> simp [h] <;> rfl,
    size := by simp, zero := by simp [Spec.Machine.rf], mem := by simp, memSmall := by simp }

/-- … and a small parsed program is well-formed. -/
example : WfApp { instrs := [.li_ { rd := 5, imm := 7#32 }, .addi_ { rd := 6, rs := 5, imm := 1#32 }, .ret_ {}], labels := {} } :=
  { small := by decide, regs := by decide, nofwd := by decide }

/-! ### MVP-3 (work package MVP3): the cached machine computes the sequential result

`Model.Mvp3` (Model/Mvp3.lean, Model/Mmu.lean) is the cycle-accurate model of proc/mvp3 (MVP-1's loop plus an
L1I and a write-back LRU L1D), tied to the Go machine on every run (`m3=`).  Its run is compared with the
specification through the cache-less model: Proofs/Mvp3.lean (`run_sim`: the pair (ctx.Memory, L1D) stays
coherent with the flat memory, `flush()` writes everything back) and Proofs/Mvp3Spec.lean (naturally aligned
in-bounds accesses never cross a cache line). -/

/-- agreement for a machine with a write-back cache: as `Agree`, except that after a DEFINED ERROR — where
`Run` returns the error value without flushing — only the context up to `Memory` (the registers) is compared -/
def AgreeCached (rs : Spec.Result) (rm : Model.Seq.Result) : Prop :=
  match rs.stop with
  | .ret => rm.halt = some .ret ∧ Rel rm.final.ctx rs.final ∧ rm.steps = rs.steps
  | .offEnd => rm.halt = some .offEnd ∧ Rel rm.final.ctx rs.final ∧ rm.steps = rs.steps
  | .error _ => rm.halt = some .err ∧ Rel { rm.final.ctx with Memory := rs.final.mem.toList } rs.final ∧ rm.steps = rs.steps
  | .notWf _ => True

/-- **C01 for MVP-3**: whenever the specification run ends by `ret`, by running past the last instruction or
with a defined error, the model of MVP-3 ends the same way (an error value for a defined error, never a Go
panic), after the same number of instructions; its final registers are the specification's, and after a
normal return its final `ctx.Memory` (after `flush()`) is the specification's memory.  `hsz`: the memory ends at least
one cache line below 2^31 — Go computes a line's upper bound in `int32`, so the line that would end at 2^31 can never
be cached and a load from it panics (`Proofs/Mmu.lean`, `wrap32`; see the report of work package MVP3). -/
theorem mvp3_correct (app : App) (hw : WfApp app) (ctx : Model.Context) (m : Spec.Machine)
    (hR : Rel ctx m) (hsz : m.mem.size + 64 ≤ 2 ^ 31) (fuel : Nat) :
    AgreeCached (Spec.run (specProg app) m fuel) (Model.Mvp3.runMvp3 app ⟨ctx, 0#32⟩ fuel).toSeq := by
  have h1 := mvp1_correct app hw ctx m hR fuel
  unfold Agree at h1
  unfold AgreeCached
  cases hstop : (Spec.run (specProg app) m fuel).stop with
  | notWf w => trivial
  | ret =>
    have hwf : ∀ why, (Spec.run (specProg app) m fuel).stop ≠ .notWf why := by
      intro why hc; rw [hstop] at hc; cases hc
    have hr := Proofs.Mvp3.mvp3_finalRel app ⟨ctx, 0#32⟩ fuel (Proofs.Mvp3Spec.spec_wfAccesses app hw ctx m hR hsz fuel hwf)
    rw [hstop] at h1
    simp only at h1 ⊢
    have hf := Proofs.Mvp3.arch_eq _ _ hr.pc hr.ctx (hr.flushed (Or.inl h1.1))
    simp only [Model.Mvp3.Result.toSeq]
    rw [hr.halt, hr.steps, hf]
    exact h1
  | offEnd =>
    have hwf : ∀ why, (Spec.run (specProg app) m fuel).stop ≠ .notWf why := by
      intro why hc; rw [hstop] at hc; cases hc
    have hr := Proofs.Mvp3.mvp3_finalRel app ⟨ctx, 0#32⟩ fuel (Proofs.Mvp3Spec.spec_wfAccesses app hw ctx m hR hsz fuel hwf)
    rw [hstop] at h1
    simp only at h1 ⊢
    have hf := Proofs.Mvp3.arch_eq _ _ hr.pc hr.ctx (hr.flushed (Or.inr h1.1))
    simp only [Model.Mvp3.Result.toSeq]
    rw [hr.halt, hr.steps, hf]
    exact h1
  | error er =>
    have hwf : ∀ why, (Spec.run (specProg app) m fuel).stop ≠ .notWf why := by
      intro why hc; rw [hstop] at hc; cases hc
    have hr := Proofs.Mvp3.mvp3_finalRel app ⟨ctx, 0#32⟩ fuel (Proofs.Mvp3Spec.spec_wfAccesses app hw ctx m hR hsz fuel hwf)
    rw [hstop] at h1
    simp only at h1 ⊢
    simp only [Model.Mvp3.Result.toSeq]
    rw [hr.halt, hr.steps]
    refine ⟨h1.1, ?_, h1.2.2⟩
    have hc := hr.ctx
    have hm := h1.2.1.mem
    have e : ({ (Model.Mvp3.runMvp3 app ⟨ctx, 0#32⟩ fuel).final.ctx with
          Memory := (Spec.run (specProg app) m fuel).final.mem.toList } : Model.Context) =
        (runMvp1 app ⟨ctx, 0#32⟩ fuel).final.ctx := by
      rw [hc, ← hm]
    rw [e]
    exact h1.2.1

/-- Non-vacuity: a store into a cached line, then `ret`: the model of MVP-3 returns by `ret` and the flush has
put the stored byte into `ctx.Memory`. -/
example :
    (Model.Mvp3.runMvp3 { instrs := [.li_ { rd := 5, imm := 7#32 }, .lb_ { rd := 6, offset := 3#32, rs := 0 },
        .sb_ { rs := 5, rd := 0, offset := 3#32 }, .ret_ {}], labels := {} } ⟨{ Memory := List.replicate 8 0#8 }, 0#32⟩ 10).halt = some .ret ∧
    (Model.Mvp3.runMvp3 { instrs := [.li_ { rd := 5, imm := 7#32 }, .lb_ { rd := 6, offset := 3#32, rs := 0 },
        .sb_ { rs := 5, rd := 0, offset := 3#32 }, .ret_ {}], labels := {} } ⟨{ Memory := List.replicate 8 0#8 }, 0#32⟩ 10).final.ctx.Memory =
      [0#8, 0#8, 0#8, 7#8, 0#8, 0#8, 0#8, 0#8] := by
  decide +kernel

/-! ## MVP-4 (work package MVP4): the pipelined machine

`Model.Mvp4` (Model/Mvp4.lean) is the cycle-accurate model of proc/mvp4 — fetch unit, decode unit, ONE execute
unit, write unit, the buses between them, the branch unit, L1I/L1D — tied to the Go machine on every generated
program (status, CYCLE COUNT, final registers and memory).  `Proofs.Mvp4.mvp4_refines_mvp1` proves that it refines
the unpipelined MVP-1 model (hazard interlock, store→load interlock, flush of the wrong path, write-buffer drain
and cache write-back); composed with `mvp1_correct` and with `Proofs.Mvp4.seqOk_of_spec` (a well-formed
specification run satisfies the side conditions of the refinement) this gives C01 for MVP-4 in the SAFETY
direction: whenever the model run ends without a Go panic, it ends the way the specification run ends, with the
specification's registers and memory.  The tick budget of the model run and the fuel of the specification run
are independent.  `mvp4_total` adds the other direction (the model run ends, without panic, whenever the
specification run does), `mvp4_correct_total` is the two together. -/

/-- registers and memory of a Go context are those of a specification machine -/
def StateEq (c : Model.Context) (m : Spec.Machine) : Prop :=
  (∀ r, GoMap.get1 c.Registers r = m.rf r) ∧ c.Memory = m.mem.toList

/-- what it means for an MVP-4 run that ended with `hk` in context `c` to agree with a specification run -/
def Agree4 (rs : Spec.Result) (hk : Halt) (c : Model.Context) : Prop :=
  match rs.stop with
  | .ret => hk = .ret ∧ StateEq c rs.final
  | .offEnd => hk = .offEnd ∧ StateEq c rs.final
  | .error _ => hk = .err
  | .notWf _ => True     -- the program left the well-formed subset, or did not end within the fuel: no claim

/-- **C01 for MVP-4** (safety): every parsed program, every initial state related to a specification machine, every
fuel and every tick budget — if the MVP-4 run ends (`ret`, past the last instruction, or an error value) and the
specification run ends within its fuel, they end the same way, and after `ret` / past the end the final registers
and memory of MVP-4 are the specification's. -/
theorem mvp4_correct (app : App) (hw : WfApp app) (ctx : Model.Context) (m : Spec.Machine) (hR : Rel ctx m)
    (hsz : m.mem.size + 64 ≤ 2 ^ 31) (hpw : ∀ r, GoMap.get1 ctx.PendingWriteRegisters r = 0) (fuel ticks : Nat) (hk : Halt)
    (hh : (Model.Mvp4.run app ctx ticks).halt = some hk) (hnp : ∀ w, hk ≠ .panic w) :
    Agree4 (Spec.run (specProg app) m fuel) hk (Model.Mvp4.run app ctx ticks).final.ctx := by
  have h1 := mvp1_correct app hw ctx m hR fuel
  unfold Agree at h1
  unfold Agree4
  cases hstop : (Spec.run (specProg app) m fuel).stop with
  | notWf w => trivial
  | ret =>
    have hwf : ∀ why, (Spec.run (specProg app) m fuel).stop ≠ .notWf why := by
      intro why hc; rw [hstop] at hc; cases hc
    have hok := Proofs.Mvp4.seqOk_of_spec app hw ctx m hR hsz fuel hwf ticks
    obtain ⟨n, e1, e2⟩ := Proofs.Mvp4.mvp4_refines_mvp1 app hw.nofwd ctx ⟨hR.rat, hR.tx, hpw⟩ ticks hok hk hh hnp
    rw [hstop] at h1
    simp only at h1 ⊢
    obtain ⟨u1, u2⟩ := Proofs.Mvp4.run_halt_unique mvp1Fetch mvp1Fetch app ⟨ctx, 0#32⟩ n fuel hk .ret e1 h1.1
    subst u1
    obtain ⟨f1, f2⟩ := e2 (by intro hc; cases hc)
    have hfin : (runMvp1 app ⟨ctx, 0#32⟩ n).final = (runMvp1 app ⟨ctx, 0#32⟩ fuel).final := u2
    refine ⟨rfl, fun r => ?_, ?_⟩
    · rw [f1, hfin]; exact h1.2.1.regs r
    · rw [f2, hfin]; exact h1.2.1.mem
  | offEnd =>
    have hwf : ∀ why, (Spec.run (specProg app) m fuel).stop ≠ .notWf why := by
      intro why hc; rw [hstop] at hc; cases hc
    have hok := Proofs.Mvp4.seqOk_of_spec app hw ctx m hR hsz fuel hwf ticks
    obtain ⟨n, e1, e2⟩ := Proofs.Mvp4.mvp4_refines_mvp1 app hw.nofwd ctx ⟨hR.rat, hR.tx, hpw⟩ ticks hok hk hh hnp
    rw [hstop] at h1
    simp only at h1 ⊢
    obtain ⟨u1, u2⟩ := Proofs.Mvp4.run_halt_unique mvp1Fetch mvp1Fetch app ⟨ctx, 0#32⟩ n fuel hk .offEnd e1 h1.1
    subst u1
    obtain ⟨f1, f2⟩ := e2 (by intro hc; cases hc)
    have hfin : (runMvp1 app ⟨ctx, 0#32⟩ n).final = (runMvp1 app ⟨ctx, 0#32⟩ fuel).final := u2
    refine ⟨rfl, fun r => ?_, ?_⟩
    · rw [f1, hfin]; exact h1.2.1.regs r
    · rw [f2, hfin]; exact h1.2.1.mem
  | error er =>
    have hwf : ∀ why, (Spec.run (specProg app) m fuel).stop ≠ .notWf why := by
      intro why hc; rw [hstop] at hc; cases hc
    have hok := Proofs.Mvp4.seqOk_of_spec app hw ctx m hR hsz fuel hwf ticks
    obtain ⟨n, e1, _⟩ := Proofs.Mvp4.mvp4_refines_mvp1 app hw.nofwd ctx ⟨hR.rat, hR.tx, hpw⟩ ticks hok hk hh hnp
    rw [hstop] at h1
    simp only at h1 ⊢
    exact (Proofs.Mvp4.run_halt_unique mvp1Fetch mvp1Fetch app ⟨ctx, 0#32⟩ n fuel hk .err e1 h1.1).1

/-- **C01 for MVP-4, totality**: whenever the specification run is well-formed and ends within its fuel, the MVP-4
run ends too — within some tick budget — and not with a Go panic.  (Progress measure `Proofs.Mvp4.phi`: every tick
that executes no instruction strictly decreases it; no unit panics: `Proofs.Mvp4.cycle_live`.) -/
theorem mvp4_total (app : App) (hw : WfApp app) (ctx : Model.Context) (m : Spec.Machine) (hR : Rel ctx m)
    (hsz : m.mem.size + 64 ≤ 2 ^ 31) (hpw : ∀ r, GoMap.get1 ctx.PendingWriteRegisters r = 0) (fuel : Nat)
    (hwf : ∀ why, (Spec.run (specProg app) m fuel).stop ≠ .notWf why) :
    ∃ ticks hk, (Model.Mvp4.run app ctx ticks).halt = some hk ∧ ∀ w, hk ≠ .panic w :=
  Proofs.Mvp4.mvp4_terminates app hw ctx m hR hsz hpw fuel hwf

/-- **C01 for MVP-4** (full clause): for every parsed program, every initial state related to a specification
machine and every fuel — whenever the specification run ends by `ret`, by running past the last instruction or with
a defined error, there is a tick budget within which the MVP-4 run ends the same way (an error value for a defined
error, never a Go panic), with the specification's final registers and memory after `ret` / past the end. -/
theorem mvp4_correct_total (app : App) (hw : WfApp app) (ctx : Model.Context) (m : Spec.Machine) (hR : Rel ctx m)
    (hsz : m.mem.size + 64 ≤ 2 ^ 31) (hpw : ∀ r, GoMap.get1 ctx.PendingWriteRegisters r = 0) (fuel : Nat)
    (hwf : ∀ why, (Spec.run (specProg app) m fuel).stop ≠ .notWf why) :
    ∃ ticks hk, (Model.Mvp4.run app ctx ticks).halt = some hk ∧ (∀ w, hk ≠ .panic w) ∧
      Agree4 (Spec.run (specProg app) m fuel) hk (Model.Mvp4.run app ctx ticks).final.ctx := by
  obtain ⟨ticks, hk, h1, h2⟩ := mvp4_total app hw ctx m hR hsz hpw fuel hwf
  exact ⟨ticks, hk, h1, h2, mvp4_correct app hw ctx m hR hsz hpw fuel ticks hk h1 h2⟩

/-- Non-vacuity: the MVP-4 model runs the small program of the examples above to `ret` -/
example :
    (Model.Mvp4.run { instrs := [.li_ { rd := 5, imm := 7#32 }, .addi_ { rd := 6, rs := 5, imm := 1#32 }, .ret_ {}], labels := {} }
        { Memory := List.replicate 64 0#8 } 4000).halt = some .ret ∧
    GoMap.get1 (Model.Mvp4.run { instrs := [.li_ { rd := 5, imm := 7#32 }, .addi_ { rd := 6, rs := 5, imm := 1#32 }, .ret_ {}], labels := {} }
        { Memory := List.replicate 64 0#8 } 4000).final.ctx.Registers 6 = 8#32 := by
  decide +kernel

/-- Non-vacuity of `mvp4_correct_total`: all its hypotheses hold together for the small program above, a 64-byte
zero memory and the all-zero specification machine (the specification run ends by `ret` within 10 steps). -/
example : ∃ ticks hk,
    (Model.Mvp4.run { instrs := [.li_ { rd := 5, imm := 7#32 }, .addi_ { rd := 6, rs := 5, imm := 1#32 }, .ret_ {}], labels := {} }
        { Memory := List.replicate 64 0#8 } ticks).halt = some hk ∧ (∀ w, hk ≠ .panic w) ∧
    Agree4 (Spec.run (specProg { instrs := [.li_ { rd := 5, imm := 7#32 }, .addi_ { rd := 6, rs := 5, imm := 1#32 }, .ret_ {}], labels := {} })
        { regs := Array.replicate 32 0#32, mem := Array.replicate 64 0#8 } 10) hk
      (Model.Mvp4.run { instrs := [.li_ { rd := 5, imm := 7#32 }, .addi_ { rd := 6, rs := 5, imm := 1#32 }, .ret_ {}], labels := {} }
        { Memory := List.replicate 64 0#8 } ticks).final.ctx :=
  mvp4_correct_total _ { small := by decide, regs := by decide, nofwd := by decide } _ _
    { rat := rfl, tx := rfl,
      regs := by
        intro r
        simp only [GoMap.get1, GoMap.get, GoMap.find?, Spec.Machine.rf, List.lookup, Array.getD_eq_getD_getElem?]
        by_cases h : r < 32 <;> simp [h] <;> rfl,
      size := by simp, zero := by simp [Spec.Machine.rf], mem := by simp, memSmall := by simp }
    (by decide) (fun r => by simp [GoMap.get1, GoMap.get, GoMap.find?]) 10
    (by
      have h : (Spec.run (specProg { instrs := [.li_ { rd := 5, imm := 7#32 }, .addi_ { rd := 6, rs := 5, imm := 1#32 }, .ret_ {}], labels := {} })
          { regs := Array.replicate 32 0#32, mem := Array.replicate 64 0#8 } 10).stop = .ret := by decide +kernel
      intro why hc
      rw [h] at hc
      cases hc)

/-! ## MVP-5 (work package MVP5): the pipelined machine with a branch target buffer

`Model.Mvp5` (Model/Mvp5.lean) is the cycle-accurate model of proc/mvp5 — MVP-4 plus the branch target buffer
(4 entries), the decode unit that stalls behind an unresolved unconditional jump, the BTB branch unit that restarts
the fetch unit at the predicted target when the jump is issued and at the real target when it is executed — tied
to the Go machine on every generated program (status, CYCLE COUNT, final registers and memory).  It re-uses
`Model.Mvp4`'s definitions wherever the Go code is the same; `Proofs.Mvp5.mvp5_refines_mvp1` is the simulation
argument of MVP-4 with the front-end invariant `Proofs.Mvp5.NormalOk5` (decoded instructions in flight, then —
unless the decode unit waits for a jump — the fetched pcs and the fetch pc, consecutive from the architectural pc;
an unconditional jump is always the youngest decoded instruction).  The three theorems below are the MVP-5
counterparts of `mvp4_correct`, `mvp4_total`, `mvp4_correct_total`, with the same statement. -/

/-- **C01 for MVP-5** (safety): every parsed program, every initial state related to a specification machine, every
fuel and every tick budget — if the MVP-5 run ends (`ret`, past the last instruction, or an error value) and the
specification run ends within its fuel, they end the same way, and after `ret` / past the end the final registers
and memory of MVP-5 are the specification's. -/
theorem mvp5_correct (app : App) (hw : WfApp app) (ctx : Model.Context) (m : Spec.Machine) (hR : Rel ctx m)
    (hsz : m.mem.size + 64 ≤ 2 ^ 31) (hpw : ∀ r, GoMap.get1 ctx.PendingWriteRegisters r = 0) (fuel ticks : Nat) (hk : Halt)
    (hh : (Model.Mvp5.run app ctx ticks).halt = some hk) (hnp : ∀ w, hk ≠ .panic w) :
    Agree4 (Spec.run (specProg app) m fuel) hk (Model.Mvp5.run app ctx ticks).final.base.ctx := by
  have h1 := mvp1_correct app hw ctx m hR fuel
  unfold Agree at h1
  unfold Agree4
  cases hstop : (Spec.run (specProg app) m fuel).stop with
  | notWf w => trivial
  | ret =>
    have hwf : ∀ why, (Spec.run (specProg app) m fuel).stop ≠ .notWf why := by
      intro why hc; rw [hstop] at hc; cases hc
    have hok := Proofs.Mvp4.seqOk_of_spec app hw ctx m hR hsz fuel hwf ticks
    obtain ⟨n, e1, e2⟩ := Proofs.Mvp5.mvp5_refines_mvp1 app hw.nofwd ctx ⟨hR.rat, hR.tx, hpw⟩ ticks hok hk hh hnp
    rw [hstop] at h1
    simp only at h1 ⊢
    obtain ⟨u1, u2⟩ := Proofs.Mvp4.run_halt_unique mvp1Fetch mvp1Fetch app ⟨ctx, 0#32⟩ n fuel hk .ret e1 h1.1
    subst u1
    obtain ⟨f1, f2⟩ := e2 (by intro hc; cases hc)
    have hfin : (runMvp1 app ⟨ctx, 0#32⟩ n).final = (runMvp1 app ⟨ctx, 0#32⟩ fuel).final := u2
    refine ⟨rfl, fun r => ?_, ?_⟩
    · rw [f1, hfin]; exact h1.2.1.regs r
    · rw [f2, hfin]; exact h1.2.1.mem
  | offEnd =>
    have hwf : ∀ why, (Spec.run (specProg app) m fuel).stop ≠ .notWf why := by
      intro why hc; rw [hstop] at hc; cases hc
    have hok := Proofs.Mvp4.seqOk_of_spec app hw ctx m hR hsz fuel hwf ticks
    obtain ⟨n, e1, e2⟩ := Proofs.Mvp5.mvp5_refines_mvp1 app hw.nofwd ctx ⟨hR.rat, hR.tx, hpw⟩ ticks hok hk hh hnp
    rw [hstop] at h1
    simp only at h1 ⊢
    obtain ⟨u1, u2⟩ := Proofs.Mvp4.run_halt_unique mvp1Fetch mvp1Fetch app ⟨ctx, 0#32⟩ n fuel hk .offEnd e1 h1.1
    subst u1
    obtain ⟨f1, f2⟩ := e2 (by intro hc; cases hc)
    have hfin : (runMvp1 app ⟨ctx, 0#32⟩ n).final = (runMvp1 app ⟨ctx, 0#32⟩ fuel).final := u2
    refine ⟨rfl, fun r => ?_, ?_⟩
    · rw [f1, hfin]; exact h1.2.1.regs r
    · rw [f2, hfin]; exact h1.2.1.mem
  | error er =>
    have hwf : ∀ why, (Spec.run (specProg app) m fuel).stop ≠ .notWf why := by
      intro why hc; rw [hstop] at hc; cases hc
    have hok := Proofs.Mvp4.seqOk_of_spec app hw ctx m hR hsz fuel hwf ticks
    obtain ⟨n, e1, _⟩ := Proofs.Mvp5.mvp5_refines_mvp1 app hw.nofwd ctx ⟨hR.rat, hR.tx, hpw⟩ ticks hok hk hh hnp
    rw [hstop] at h1
    simp only at h1 ⊢
    exact (Proofs.Mvp4.run_halt_unique mvp1Fetch mvp1Fetch app ⟨ctx, 0#32⟩ n fuel hk .err e1 h1.1).1

/-- **C01 for MVP-5, totality**: whenever the specification run is well-formed and ends within its fuel, the MVP-5
run ends too — within some tick budget — and not with a Go panic.  (Progress measure `Proofs.Mvp5.phi5`: every tick
that executes no instruction strictly decreases it — also while the decode unit waits for a jump and while a
predicted jump is re-issued against the register interlock; no unit panics: `Proofs.Mvp5.cycle5_live`.) -/
theorem mvp5_total (app : App) (hw : WfApp app) (ctx : Model.Context) (m : Spec.Machine) (hR : Rel ctx m)
    (hsz : m.mem.size + 64 ≤ 2 ^ 31) (hpw : ∀ r, GoMap.get1 ctx.PendingWriteRegisters r = 0) (fuel : Nat)
    (hwf : ∀ why, (Spec.run (specProg app) m fuel).stop ≠ .notWf why) :
    ∃ ticks hk, (Model.Mvp5.run app ctx ticks).halt = some hk ∧ ∀ w, hk ≠ .panic w :=
  Proofs.Mvp5.mvp5_terminates app hw ctx m hR hsz hpw fuel hwf

/-- **C01 for MVP-5** (full clause): for every parsed program, every initial state related to a specification
machine and every fuel — whenever the specification run ends by `ret`, by running past the last instruction or with
a defined error, there is a tick budget within which the MVP-5 run ends the same way (an error value for a defined
error, never a Go panic), with the specification's final registers and memory after `ret` / past the end. -/
theorem mvp5_correct_total (app : App) (hw : WfApp app) (ctx : Model.Context) (m : Spec.Machine) (hR : Rel ctx m)
    (hsz : m.mem.size + 64 ≤ 2 ^ 31) (hpw : ∀ r, GoMap.get1 ctx.PendingWriteRegisters r = 0) (fuel : Nat)
    (hwf : ∀ why, (Spec.run (specProg app) m fuel).stop ≠ .notWf why) :
    ∃ ticks hk, (Model.Mvp5.run app ctx ticks).halt = some hk ∧ (∀ w, hk ≠ .panic w) ∧
      Agree4 (Spec.run (specProg app) m fuel) hk (Model.Mvp5.run app ctx ticks).final.base.ctx := by
  obtain ⟨ticks, hk, h1, h2⟩ := mvp5_total app hw ctx m hR hsz hpw fuel hwf
  exact ⟨ticks, hk, h1, h2, mvp5_correct app hw ctx m hR hsz hpw fuel ticks hk h1 h2⟩

/-- `li x5,0 ; li x9,2 ; L: j A ; (shadow: li x6,99 ; sw x6,0(x0) ; div x8,x6,x0) ; A: addi x5,x5,1 ; bne x5,x9,L ;
jal x1,F ; li x7,1 ; ret ; F: jalr x0,x1,0` — the jump at `L` is executed twice (BTB miss, then BTB hit), `jal` and
`jalr` once each -/
def exApp5 : App :=
  { instrs := [.li_ { rd := 5, imm := 0#32 }, .li_ { rd := 9, imm := 2#32 }, .j_ { label := "A" },
               .li_ { rd := 6, imm := 99#32 }, .sw_ { rs := 6, rd := 0, offset := 0#32 }, .div_ { rd := 8, rs1 := 6, rs2 := 0 },
               .addi_ { rd := 5, rs := 5, imm := 1#32 }, .bne_ { rs1 := 5, rs2 := 9, label := "L" },
               .jal_ { rd := 1, label := "F" }, .li_ { rd := 7, imm := 1#32 }, .ret_ {},
               .jalr_ { rd := 0, rs := 1, imm := 0#32 }],
    labels := ⟨[("L", 8#32), ("A", 24#32), ("F", 44#32)]⟩ }

set_option maxRecDepth 100000 in
/-- Non-vacuity: the MVP-5 model runs this program to `ret`; the shadow of the jump leaves no trace; the BTB has
learnt the three jumps -/
example :
    (Model.Mvp5.run exApp5 { Memory := List.replicate 64 0#8 } 4000).halt = some .ret ∧
    GoMap.get1 (Model.Mvp5.run exApp5 { Memory := List.replicate 64 0#8 } 4000).final.base.ctx.Registers 5 = 2#32 ∧
    GoMap.get1 (Model.Mvp5.run exApp5 { Memory := List.replicate 64 0#8 } 4000).final.base.ctx.Registers 6 = 0#32 ∧
    GoMap.get1 (Model.Mvp5.run exApp5 { Memory := List.replicate 64 0#8 } 4000).final.base.ctx.Registers 7 = 1#32 ∧
    (Model.Mvp5.run exApp5 { Memory := List.replicate 64 0#8 } 4000).final.btb =
      [(8#32, 24#32), (32#32, 44#32), (44#32, 36#32)] := by
  decide

/-- Non-vacuity of `mvp5_correct_total`: all its hypotheses hold together for this program, a 64-byte zero memory
and the all-zero specification machine (the specification run ends by `ret` within 30 steps). -/
example : ∃ ticks hk,
    (Model.Mvp5.run exApp5 { Memory := List.replicate 64 0#8 } ticks).halt = some hk ∧ (∀ w, hk ≠ .panic w) ∧
    Agree4 (Spec.run (specProg exApp5) { regs := Array.replicate 32 0#32, mem := Array.replicate 64 0#8 } 30) hk
      (Model.Mvp5.run exApp5 { Memory := List.replicate 64 0#8 } ticks).final.base.ctx :=
  mvp5_correct_total _ { small := by decide, regs := by decide, nofwd := by decide } _ _
    { rat := rfl, tx := rfl,
      regs := by
        intro r
        simp only [GoMap.get1, GoMap.get, GoMap.find?, Spec.Machine.rf, List.lookup, Array.getD_eq_getD_getElem?]
        by_cases h : r < 32 <;> simp [h] <;> rfl,
      size := by simp, zero := by simp [Spec.Machine.rf], mem := by simp, memSmall := by simp }
    (by decide) (fun r => by simp [GoMap.get1, GoMap.get, GoMap.find?]) 30
    (by
      have h : (Spec.run (specProg exApp5) { regs := Array.replicate 32 0#32, mem := Array.replicate 64 0#8 } 30).stop = .ret := by
        decide +kernel
      intro why hc
      rw [h] at hc
      cases hc)

end Props.C01

/-! ## MVP-6.0 (package M60): what the first superscalar variant computes on the witnesses of its known findings

Proved counterexamples on `Model.Mvp60` (the cycle-accurate model of `proc/mvp6-0`, tied to the Go machine on every
generated case): kernel evaluation of the model next to the unpipelined machine on the same program and state
(memory: 64 or 128 bytes of `0x11`).  They pin the WRONG behaviours: a change of the Go code that repairs one of them
breaks the tie first and re-opens the theorem. -/
namespace Props.C01

/-- **a pipeline flush cancels an OLDER load (MVP-6.0 with two or more execute units; found with the model).**
`lb a1, 0(zero); bnez s0, l3; addi a3, zero, 5; l3:` with `s0 = 1`: the unpipelined machine and the one-unit machine end
with `a1 = 0x11`; the two-unit machine ends NORMALLY after 319 cycles with `a1 = 0`, having executed one instruction (the
branch): the flush of the taken branch clears the coroutine of the execute unit in which the older load waits for memory. -/
theorem mvp60_flush_drops_older_load :
    (Model.Seq.runMvp1 Proofs.Mvp60Witness.dropApp ⟨Proofs.Mvp60Witness.ctxS0 64, 0⟩ 10).final.ctx.Registers.get1 11 = 0x11#32 ∧
    (Model.Mvp60.run Proofs.Mvp60Witness.dropApp (Proofs.Mvp60Witness.ctxS0 64) 1 1 1000).final.ctx.Registers.get1 11 = 0x11#32 ∧
    (Model.Mvp60.run Proofs.Mvp60Witness.dropApp (Proofs.Mvp60Witness.ctxS0 64) 2 2 1000).halt = some .offEnd ∧
    (Model.Mvp60.run Proofs.Mvp60Witness.dropApp (Proofs.Mvp60Witness.ctxS0 64) 2 2 1000).final.executed = 1 ∧
    (Model.Mvp60.run Proofs.Mvp60Witness.dropApp (Proofs.Mvp60Witness.ctxS0 64) 2 2 1000).final.ctx.Registers.get1 11 = 0#32 := by
  obtain ⟨_, a, _⟩ := Proofs.Mvp60Witness.obsSeq_eq Proofs.Mvp60Witness.drop_seq
  obtain ⟨_, _, _, b, _⟩ := Proofs.Mvp60Witness.obs_eq Proofs.Mvp60Witness.drop_p1
  obtain ⟨c, _, d, e, _⟩ := Proofs.Mvp60Witness.obs_eq Proofs.Mvp60Witness.drop_p2
  exact ⟨a, b, c, d, e⟩

/-- **KF-ooo-mem on the model.**  `lb t2, 7(zero); sh zero, 4(zero)`: the unpipelined machine and the one-unit machine end
with `Memory[4..5] = 0`; on the two-unit machine the store overtakes the load, the load's line is fetched from memory just
before the store arrives there, and the final flush of L3 writes the stale line back: the run ends normally with
`Memory[0..7]` unchanged — the store is lost. -/
theorem mvp60_loses_store :
    (Model.Seq.runMvp1 Proofs.Mvp60Witness.memApp ⟨Proofs.Mvp60Witness.ctx0 128, 0⟩ 10).final.ctx.Memory.take 8 = Proofs.Mvp60Witness.stored ∧
    (Model.Mvp60.run Proofs.Mvp60Witness.memApp (Proofs.Mvp60Witness.ctx0 128) 1 1 1000).final.ctx.Memory.take 8 = Proofs.Mvp60Witness.stored ∧
    (Model.Mvp60.run Proofs.Mvp60Witness.memApp (Proofs.Mvp60Witness.ctx0 128) 2 2 1000).halt = some .offEnd ∧
    (Model.Mvp60.run Proofs.Mvp60Witness.memApp (Proofs.Mvp60Witness.ctx0 128) 2 2 1000).final.ctx.Memory.take 8 = Proofs.Mvp60Witness.m11 := by
  obtain ⟨_, _, _, a⟩ := Proofs.Mvp60Witness.obsSeq_eq Proofs.Mvp60Witness.mem_seq
  obtain ⟨_, _, _, _, _, b⟩ := Proofs.Mvp60Witness.obs_eq Proofs.Mvp60Witness.mem_p1
  obtain ⟨c, _, _, _, _, d⟩ := Proofs.Mvp60Witness.obs_eq Proofs.Mvp60Witness.mem_p2
  exact ⟨a, b, c, d⟩

/-- **the pinned witness of KF-ooo-shadow is executed correctly by MVP-6.0.**  `lw t5, 104(zero); bnez t5, l3; auipc a4, …;
l3:`: the two-unit machine executes the `auipc` in the shadow of the taken branch (three instructions executed) but drops
its result in the drain before the flush: `a4` stays 0, as on the unpipelined machine.  (MVP-6.0 issues in order and the
branch waits for the load; the finding's witness variant is MVP-6.1.) -/
theorem mvp60_shadow_witness_correct :
    (Model.Seq.runMvp1 Proofs.Mvp60Witness.shadowApp ⟨Proofs.Mvp60Witness.ctx0 128, 0⟩ 10).final.ctx.Registers.get1 14 = 0#32 ∧
    (Model.Mvp60.run Proofs.Mvp60Witness.shadowApp (Proofs.Mvp60Witness.ctx0 128) 2 2 1000).halt = some .offEnd ∧
    (Model.Mvp60.run Proofs.Mvp60Witness.shadowApp (Proofs.Mvp60Witness.ctx0 128) 2 2 1000).final.executed = 3 ∧
    (Model.Mvp60.run Proofs.Mvp60Witness.shadowApp (Proofs.Mvp60Witness.ctx0 128) 2 2 1000).final.ctx.Registers.get1 30 = 0x11111111#32 ∧
    (Model.Mvp60.run Proofs.Mvp60Witness.shadowApp (Proofs.Mvp60Witness.ctx0 128) 2 2 1000).final.ctx.Registers.get1 14 = 0#32 := by
  obtain ⟨_, _, a, _⟩ := Proofs.Mvp60Witness.obsSeq_eq Proofs.Mvp60Witness.shadow_seq
  obtain ⟨b, _, c, d, e, _⟩ := Proofs.Mvp60Witness.obs_eq Proofs.Mvp60Witness.shadow_p2
  exact ⟨a, b, c, d, e⟩

end Props.C01

/-! ## MVP-6.0 (package R60): correctness of the first superscalar variant on register-only programs

`Full_mvp60_regonly_correct` is the statement for the class `Model.Mvp60.RegOnly` (no load/store, no `div`/`rem`, every
used label defined; branches, jumps, calls, `ret` allowed).  It is NOT proved; the check asserts it on every generated case
of the class (field `r60` of the driver: class member ⇒ the model's run at every evaluated parallelism ends like the
reference with the reference's registers and memory) and it has held on every seed so far.  What is proved is the clause for
straight-line programs (`mvp60_straightline_correct`), for EVERY number of execute/write units: in-order issue with the
RAW/WAW/WAR scoreboards, up to two instructions executed per tick on different units, results queued on the write bus and
written back in order by the write units.  `div`/`rem` and undefined labels are excluded from `RegOnly` because a wrong-path
instruction raises its error (`Props.C07.mvp60_wrong_path_error`); in a straight-line program there is no wrong path, so
`StraightLine` allows `div`/`rem`. -/
namespace Props.C01

/-- **C01 for MVP-6.0, full clause (not proved; asserted by the check on every generated case of the class).**  For every
parsed register-only program, every initial state related to a specification machine, every parallelism 1..4: (safety) if
the model run ends and the specification run ends within its fuel, they end the same way with the specification's registers
and memory; (totality) if the specification run is well-formed and ends, the model run ends within some tick budget, not
with a Go panic. -/
def Full_mvp60_regonly_correct : Prop :=
  ∀ (app : App), WfApp app → Model.Mvp60.RegOnly app = true →
  ∀ (ctx : Model.Context) (m : Spec.Machine), Rel ctx m → (∀ r, GoMap.get1 ctx.PendingWriteRegisters r = 0) →
  ∀ (K : Nat), 1 ≤ K → K ≤ 4 → ∀ (fuel : Nat),
    (∀ (ticks : Nat) (hk : Halt), (Model.Mvp60.run app ctx K K ticks).halt = some hk → (∀ w, hk ≠ .panic w) →
      Agree4 (Spec.run (specProg app) m fuel) hk (Model.Mvp60.run app ctx K K ticks).final.ctx) ∧
    ((∀ why, (Spec.run (specProg app) m fuel).stop ≠ .notWf why) →
      ∃ ticks hk, (Model.Mvp60.run app ctx K K ticks).halt = some hk ∧ ∀ w, hk ≠ .panic w)

/-- **C01 for MVP-6.0 on straight-line register-only programs (safety), every number `K` of execute and write units.**
Every parsed program without load/store, branch, jump and `ret`, every initial state related to a specification machine,
every fuel and every tick budget: if the run of the MVP-6.0 model ends (past the last instruction, or with an error value)
and the specification run ends within its fuel, they end the same way, and past the end the final registers and memory of
the model are the specification's. -/
theorem mvp60_straightline_correct (app : App) (hw : WfApp app) (hsl : Model.Mvp60.StraightLine app = true)
    (ctx : Model.Context) (m : Spec.Machine) (hR : Rel ctx m) (hpw : ∀ r, GoMap.get1 ctx.PendingWriteRegisters r = 0)
    (K fuel ticks : Nat) (hk : Halt)
    (hh : (Model.Mvp60.run app ctx K K ticks).halt = some hk) (hnp : ∀ w, hk ≠ .panic w) :
    Agree4 (Spec.run (specProg app) m fuel) hk (Model.Mvp60.run app ctx K K ticks).final.ctx := by
  have h1 := mvp1_correct app hw ctx m hR fuel
  unfold Agree at h1
  unfold Agree4
  obtain ⟨n, e1, e2⟩ := Proofs.Mvp60Sl.mvp60_sl_refines_mvp1 app ⟨hw.small, hw.nofwd, hsl⟩ ctx ⟨hR.rat, hR.tx, hpw⟩ K ticks hk hh hnp
  cases hstop : (Spec.run (specProg app) m fuel).stop with
  | notWf w => trivial
  | ret =>
    rw [hstop] at h1
    simp only at h1 ⊢
    obtain ⟨u1, u2⟩ := Proofs.Mvp4.run_halt_unique mvp1Fetch mvp1Fetch app ⟨ctx, 0#32⟩ n fuel hk .ret e1 h1.1
    subst u1
    obtain ⟨f1, f2⟩ := e2 (by intro hc; cases hc)
    have hfin : (runMvp1 app ⟨ctx, 0#32⟩ n).final = (runMvp1 app ⟨ctx, 0#32⟩ fuel).final := u2
    refine ⟨rfl, fun r => ?_, ?_⟩
    · rw [f1, hfin]; exact h1.2.1.regs r
    · rw [f2, hfin]; exact h1.2.1.mem
  | offEnd =>
    rw [hstop] at h1
    simp only at h1 ⊢
    obtain ⟨u1, u2⟩ := Proofs.Mvp4.run_halt_unique mvp1Fetch mvp1Fetch app ⟨ctx, 0#32⟩ n fuel hk .offEnd e1 h1.1
    subst u1
    obtain ⟨f1, f2⟩ := e2 (by intro hc; cases hc)
    have hfin : (runMvp1 app ⟨ctx, 0#32⟩ n).final = (runMvp1 app ⟨ctx, 0#32⟩ fuel).final := u2
    refine ⟨rfl, fun r => ?_, ?_⟩
    · rw [f1, hfin]; exact h1.2.1.regs r
    · rw [f2, hfin]; exact h1.2.1.mem
  | error er =>
    rw [hstop] at h1
    simp only at h1 ⊢
    exact (Proofs.Mvp4.run_halt_unique mvp1Fetch mvp1Fetch app ⟨ctx, 0#32⟩ n fuel hk .err e1 h1.1).1

end Props.C01

namespace Props.C01

/-- Non-vacuity of `mvp60_straightline_correct`: a member of the class with read-after-write, write-after-write and
write-after-read dependences, a `mul` and a `div` (`Proofs.Mvp60SlWitness.slApp`); the model with two and with four units
falls off the end with exactly the registers of MVP-1 (`t0 = 64`, `t1 = 8`, `t2 = -56`) -/
example : Model.Mvp60.StraightLine Proofs.Mvp60SlWitness.slApp = true ∧
    Proofs.Mvp60SlWitness.obsR (Model.Mvp60.run Proofs.Mvp60SlWitness.slApp Proofs.Mvp60SlWitness.ctx0 2 2 2000).halt
        (Model.Mvp60.run Proofs.Mvp60SlWitness.slApp Proofs.Mvp60SlWitness.ctx0 2 2 2000).final.ctx =
      Proofs.Mvp60SlWitness.obsR (runMvp1 Proofs.Mvp60SlWitness.slApp ⟨Proofs.Mvp60SlWitness.ctx0, 0⟩ 20).halt
        (runMvp1 Proofs.Mvp60SlWitness.slApp ⟨Proofs.Mvp60SlWitness.ctx0, 0⟩ 20).final.ctx ∧
    Proofs.Mvp60SlWitness.obsR (Model.Mvp60.run Proofs.Mvp60SlWitness.slApp Proofs.Mvp60SlWitness.ctx0 4 4 2000).halt
        (Model.Mvp60.run Proofs.Mvp60SlWitness.slApp Proofs.Mvp60SlWitness.ctx0 4 4 2000).final.ctx =
      Proofs.Mvp60SlWitness.obsR (runMvp1 Proofs.Mvp60SlWitness.slApp ⟨Proofs.Mvp60SlWitness.ctx0, 0⟩ 20).halt
        (runMvp1 Proofs.Mvp60SlWitness.slApp ⟨Proofs.Mvp60SlWitness.ctx0, 0⟩ 20).final.ctx :=
  ⟨Proofs.Mvp60SlWitness.sl_class, Proofs.Mvp60SlWitness.sl_p2.trans Proofs.Mvp60SlWitness.sl_seq.symm,
   Proofs.Mvp60SlWitness.sl_p4.trans Proofs.Mvp60SlWitness.sl_seq.symm⟩

/-- An instance of `Full_mvp60_regonly_correct` (K = 2): a member of `RegOnly` that is not straight-line — a loop, a call
(`jal`) and return (`jalr`), a `mul`, a final `ret` (`Proofs.Mvp60SlWitness.loopApp`) — on which the two-unit model ends
with `ret` and the registers of MVP-1 (`a0 = 36`, `ra = 12`, `s0 = 0`) -/
example : Model.Mvp60.RegOnly Proofs.Mvp60SlWitness.loopApp = true ∧
    Proofs.Mvp60SlWitness.obsR (Model.Mvp60.run Proofs.Mvp60SlWitness.loopApp Proofs.Mvp60SlWitness.ctx0 2 2 5000).halt
        (Model.Mvp60.run Proofs.Mvp60SlWitness.loopApp Proofs.Mvp60SlWitness.ctx0 2 2 5000).final.ctx =
      Proofs.Mvp60SlWitness.obsR (runMvp1 Proofs.Mvp60SlWitness.loopApp ⟨Proofs.Mvp60SlWitness.ctx0, 0⟩ 40).halt
        (runMvp1 Proofs.Mvp60SlWitness.loopApp ⟨Proofs.Mvp60SlWitness.ctx0, 0⟩ 40).final.ctx :=
  ⟨Proofs.Mvp60SlWitness.loop_class.1, Proofs.Mvp60SlWitness.loop_p2.trans Proofs.Mvp60SlWitness.loop_seq.symm⟩

end Props.C01

/-! ## MVP-6.0 (package R60b, step 1): straight-line programs that may `ret` -/
namespace Props.C01

/-- **C01 for MVP-6.0 on straight-line register-only programs with `ret` (safety), every number `K` of execute and write
units.**  Every parsed program without load/store, branch and jump (`ret` allowed anywhere: the run ends at the first one),
every initial state related to a specification machine, every fuel and every tick budget: if the run of the MVP-6.0 model ends
(`ret`, past the last instruction, or an error value) and the specification run ends within its fuel, they end the same way,
and after `ret` / past the end the final registers and memory of the model are the specification's.  The new ingredients
over `mvp60_straightline_correct`: the control unit issues a `ret` only onto an empty execute bus and nothing behind it in
that cycle, so the `ret` is ALONE in the execute-bus queue in the tick in which unit 0 takes it — nothing younger is
executed, although the decode unit has decoded and the control unit may have issued younger instructions; then the drain
after the `ret` (`retB`) writes back what is left on the write bus. -/
theorem mvp60_straightline_ret_correct (app : App) (hw : WfApp app) (hsl : Model.Mvp60.StraightLineRet app = true)
    (ctx : Model.Context) (m : Spec.Machine) (hR : Rel ctx m) (hpw : ∀ r, GoMap.get1 ctx.PendingWriteRegisters r = 0)
    (K fuel ticks : Nat) (hk : Halt)
    (hh : (Model.Mvp60.run app ctx K K ticks).halt = some hk) (hnp : ∀ w, hk ≠ .panic w) :
    Agree4 (Spec.run (specProg app) m fuel) hk (Model.Mvp60.run app ctx K K ticks).final.ctx := by
  have h1 := mvp1_correct app hw ctx m hR fuel
  unfold Agree at h1
  unfold Agree4
  obtain ⟨n, e1, e2⟩ := Proofs.Mvp60Sl.mvp60_slr_refines_mvp1 app ⟨hw.small, hw.nofwd, hsl⟩ ctx ⟨hR.rat, hR.tx, hpw⟩ K ticks hk hh hnp
  cases hstop : (Spec.run (specProg app) m fuel).stop with
  | notWf w => trivial
  | ret =>
    rw [hstop] at h1
    simp only at h1 ⊢
    obtain ⟨u1, u2⟩ := Proofs.Mvp4.run_halt_unique mvp1Fetch mvp1Fetch app ⟨ctx, 0#32⟩ n fuel hk .ret e1 h1.1
    subst u1
    obtain ⟨f1, f2⟩ := e2 (by intro hc; cases hc)
    have hfin : (runMvp1 app ⟨ctx, 0#32⟩ n).final = (runMvp1 app ⟨ctx, 0#32⟩ fuel).final := u2
    refine ⟨rfl, fun r => ?_, ?_⟩
    · rw [f1, hfin]; exact h1.2.1.regs r
    · rw [f2, hfin]; exact h1.2.1.mem
  | offEnd =>
    rw [hstop] at h1
    simp only at h1 ⊢
    obtain ⟨u1, u2⟩ := Proofs.Mvp4.run_halt_unique mvp1Fetch mvp1Fetch app ⟨ctx, 0#32⟩ n fuel hk .offEnd e1 h1.1
    subst u1
    obtain ⟨f1, f2⟩ := e2 (by intro hc; cases hc)
    have hfin : (runMvp1 app ⟨ctx, 0#32⟩ n).final = (runMvp1 app ⟨ctx, 0#32⟩ fuel).final := u2
    refine ⟨rfl, fun r => ?_, ?_⟩
    · rw [f1, hfin]; exact h1.2.1.regs r
    · rw [f2, hfin]; exact h1.2.1.mem
  | error er =>
    rw [hstop] at h1
    simp only at h1 ⊢
    exact (Proofs.Mvp4.run_halt_unique mvp1Fetch mvp1Fetch app ⟨ctx, 0#32⟩ n fuel hk .err e1 h1.1).1

/-- Non-vacuity: a member of the class that is not in `StraightLine` (a `ret` in the middle, `Proofs.Mvp60SlWitness.slrApp`);
the model with two and with four units ends with `ret` and exactly the registers of MVP-1 (`t0 = 7`, `t1 = 8`, `t2 = 56`:
the `add` and `div` behind the `ret` have not been executed) -/
example : Model.Mvp60.StraightLineRet Proofs.Mvp60SlWitness.slrApp = true ∧
    Proofs.Mvp60SlWitness.obsR (Model.Mvp60.run Proofs.Mvp60SlWitness.slrApp Proofs.Mvp60SlWitness.ctx0 2 2 2000).halt
        (Model.Mvp60.run Proofs.Mvp60SlWitness.slrApp Proofs.Mvp60SlWitness.ctx0 2 2 2000).final.ctx =
      Proofs.Mvp60SlWitness.obsR (runMvp1 Proofs.Mvp60SlWitness.slrApp ⟨Proofs.Mvp60SlWitness.ctx0, 0⟩ 20).halt
        (runMvp1 Proofs.Mvp60SlWitness.slrApp ⟨Proofs.Mvp60SlWitness.ctx0, 0⟩ 20).final.ctx ∧
    Proofs.Mvp60SlWitness.obsR (Model.Mvp60.run Proofs.Mvp60SlWitness.slrApp Proofs.Mvp60SlWitness.ctx0 4 4 2000).halt
        (Model.Mvp60.run Proofs.Mvp60SlWitness.slrApp Proofs.Mvp60SlWitness.ctx0 4 4 2000).final.ctx =
      Proofs.Mvp60SlWitness.obsR (runMvp1 Proofs.Mvp60SlWitness.slrApp ⟨Proofs.Mvp60SlWitness.ctx0, 0⟩ 20).halt
        (runMvp1 Proofs.Mvp60SlWitness.slrApp ⟨Proofs.Mvp60SlWitness.ctx0, 0⟩ 20).final.ctx :=
  ⟨Proofs.Mvp60SlWitness.slr_class.1, Proofs.Mvp60SlWitness.slr_p2.trans Proofs.Mvp60SlWitness.slr_seq.symm,
   Proofs.Mvp60SlWitness.slr_p4.trans Proofs.Mvp60SlWitness.slr_seq.symm⟩

end Props.C01

/-! ## MVP-6.0 (package R60b, step 2): conditional branches -/
namespace Props.C01

/-- **C01 for MVP-6.0 on register-only programs with conditional branches and `ret` (safety), one execute and write unit.**
Every parsed program of the class `Model.Mvp60.BranchOnly` (no load/store, no `div`/`rem`, no `j`/`jal`/`jalr`; conditional
branches forward and backward and `ret` allowed; every label defined and pointing to an instruction), every initial state
related to a specification machine with `sequenceID = 0` (what `NewContext` installs), parallelism K ≤ 1, every fuel and
tick budget: if the model run ends and the specification run ends within its fuel, they end the same way with the
specification's registers and memory.  A taken branch whose target is not the next instruction flushes: the results on the
write bus are older than the branch (sequence id = pc, pcs increase between two flushes) and are all kept by the drain
(`Props.C03.mvp60_flush_drain_drops_younger_keeps_older`), `m.flush(pc)` empties the pipeline, fetch restarts at the target.
NOT yet proved: two or more units (then instructions behind the branch execute in the tick of the flush; the drain lemma covers
their results, the missing invariant is that no second BRANCH executes in that tick) — asserted by the check (`r60`). -/
theorem mvp60_branchonly_correct (app : App) (hw : WfApp app) (hbo : Model.Mvp60.BranchOnly app = true)
    (ctx : Model.Context) (m : Spec.Machine) (hR : Rel ctx m) (hpw : ∀ r, GoMap.get1 ctx.PendingWriteRegisters r = 0)
    (hseq : ctx.sequenceID = 0) (K : Nat) (hK : K ≤ 1) (fuel ticks : Nat) (hk : Halt)
    (hh : (Model.Mvp60.run app ctx K K ticks).halt = some hk) (hnp : ∀ w, hk ≠ .panic w) :
    Agree4 (Spec.run (specProg app) m fuel) hk (Model.Mvp60.run app ctx K K ticks).final.ctx := by
  have h1 := mvp1_correct app hw ctx m hR fuel
  unfold Agree at h1
  unfold Agree4
  obtain ⟨n, e1, e2⟩ := Proofs.Mvp60Sl.mvp60_g_refines_mvp1 app ⟨hw.small, hw.nofwd, Proofs.Mvp60Sl.proved_of_branchOnly app hbo⟩
    ctx ⟨hR.rat, hR.tx, hpw⟩ K ticks hk (Or.inl hseq) (Or.inl hK) hh hnp
  cases hstop : (Spec.run (specProg app) m fuel).stop with
  | notWf w => trivial
  | ret =>
    rw [hstop] at h1
    simp only at h1 ⊢
    obtain ⟨u1, u2⟩ := Proofs.Mvp4.run_halt_unique mvp1Fetch mvp1Fetch app ⟨ctx, 0#32⟩ n fuel hk .ret e1 h1.1
    subst u1
    obtain ⟨f1, f2⟩ := e2 (by intro hc; cases hc)
    have hfin : (runMvp1 app ⟨ctx, 0#32⟩ n).final = (runMvp1 app ⟨ctx, 0#32⟩ fuel).final := u2
    refine ⟨rfl, fun r => ?_, ?_⟩
    · rw [f1, hfin]; exact h1.2.1.regs r
    · rw [f2, hfin]; exact h1.2.1.mem
  | offEnd =>
    rw [hstop] at h1
    simp only at h1 ⊢
    obtain ⟨u1, u2⟩ := Proofs.Mvp4.run_halt_unique mvp1Fetch mvp1Fetch app ⟨ctx, 0#32⟩ n fuel hk .offEnd e1 h1.1
    subst u1
    obtain ⟨f1, f2⟩ := e2 (by intro hc; cases hc)
    have hfin : (runMvp1 app ⟨ctx, 0#32⟩ n).final = (runMvp1 app ⟨ctx, 0#32⟩ fuel).final := u2
    refine ⟨rfl, fun r => ?_, ?_⟩
    · rw [f1, hfin]; exact h1.2.1.regs r
    · rw [f2, hfin]; exact h1.2.1.mem
  | error er =>
    rw [hstop] at h1
    simp only at h1 ⊢
    exact (Proofs.Mvp4.run_halt_unique mvp1Fetch mvp1Fetch app ⟨ctx, 0#32⟩ n fuel hk .err e1 h1.1).1

/-- Non-vacuity: a member of `BranchOnly` with a backward branch (a loop that flushes twice), a `mul` and a `ret`
(`Proofs.Mvp60SlWitness.brApp`); the one-unit model ends with `ret` and the registers of MVP-1 (`a0 = 6`, `s0 = 0`) -/
example : Model.Mvp60.BranchOnly Proofs.Mvp60SlWitness.brApp = true ∧
    Proofs.Mvp60SlWitness.obsR (Model.Mvp60.run Proofs.Mvp60SlWitness.brApp Proofs.Mvp60SlWitness.ctx0 1 1 5000).halt
        (Model.Mvp60.run Proofs.Mvp60SlWitness.brApp Proofs.Mvp60SlWitness.ctx0 1 1 5000).final.ctx =
      Proofs.Mvp60SlWitness.obsR (runMvp1 Proofs.Mvp60SlWitness.brApp ⟨Proofs.Mvp60SlWitness.ctx0, 0⟩ 40).halt
        (runMvp1 Proofs.Mvp60SlWitness.brApp ⟨Proofs.Mvp60SlWitness.ctx0, 0⟩ 40).final.ctx :=
  ⟨Proofs.Mvp60SlWitness.br_class.1, Proofs.Mvp60SlWitness.br_p1.trans Proofs.Mvp60SlWitness.br_seq.symm⟩

end Props.C01

/-! ## MVP-6.0 (package R60b, K ≥ 2 continuation): conditional branches, every number of units -/
namespace Props.C01

/-- **C01 for MVP-6.0 on register-only programs with conditional branches and `ret` (safety), EVERY number `K` of execute and
write units** — `mvp60_branchonly_correct` without the hypothesis `K ≤ 1`.  With two or more units the instructions behind a
taken branch can be executed in the tick of the flush (by the units after the flushing one): their results reach the write
bus with a greater sequence id and are dropped by the drain (`Props.C03.mvp60_flush_drain_drops_younger_keeps_older`); they
cannot fail (no `div`/`rem`, labels defined), none of them is a `ret` (a `ret` is alone in the execute-bus queue) and none
is a second branch: with K ≥ 2 the execute-bus queue is drained in every tick, so the queue of a tick is what the control
unit issued in ONE cycle, in which a branch can only be the first. -/
theorem mvp60_branchonly_correct_all_units (app : App) (hw : WfApp app) (hbo : Model.Mvp60.BranchOnly app = true)
    (ctx : Model.Context) (m : Spec.Machine) (hR : Rel ctx m) (hpw : ∀ r, GoMap.get1 ctx.PendingWriteRegisters r = 0)
    (hseq : ctx.sequenceID = 0) (K fuel ticks : Nat) (hk : Halt)
    (hh : (Model.Mvp60.run app ctx K K ticks).halt = some hk) (hnp : ∀ w, hk ≠ .panic w) :
    Agree4 (Spec.run (specProg app) m fuel) hk (Model.Mvp60.run app ctx K K ticks).final.ctx := by
  have h1 := mvp1_correct app hw ctx m hR fuel
  unfold Agree at h1
  unfold Agree4
  obtain ⟨n, e1, e2⟩ := Proofs.Mvp60Sl.mvp60_g_refines_mvp1_wide app ⟨hw.small, hw.nofwd, Proofs.Mvp60Sl.proved_of_branchOnly app hbo⟩
    ctx ⟨hR.rat, hR.tx, hpw⟩ K ticks hk (Or.inl hseq) hh hnp
  cases hstop : (Spec.run (specProg app) m fuel).stop with
  | notWf w => trivial
  | ret =>
    rw [hstop] at h1
    simp only at h1 ⊢
    obtain ⟨u1, u2⟩ := Proofs.Mvp4.run_halt_unique mvp1Fetch mvp1Fetch app ⟨ctx, 0#32⟩ n fuel hk .ret e1 h1.1
    subst u1
    obtain ⟨f1, f2⟩ := e2 (by intro hc; cases hc)
    have hfin : (runMvp1 app ⟨ctx, 0#32⟩ n).final = (runMvp1 app ⟨ctx, 0#32⟩ fuel).final := u2
    refine ⟨rfl, fun r => ?_, ?_⟩
    · rw [f1, hfin]; exact h1.2.1.regs r
    · rw [f2, hfin]; exact h1.2.1.mem
  | offEnd =>
    rw [hstop] at h1
    simp only at h1 ⊢
    obtain ⟨u1, u2⟩ := Proofs.Mvp4.run_halt_unique mvp1Fetch mvp1Fetch app ⟨ctx, 0#32⟩ n fuel hk .offEnd e1 h1.1
    subst u1
    obtain ⟨f1, f2⟩ := e2 (by intro hc; cases hc)
    have hfin : (runMvp1 app ⟨ctx, 0#32⟩ n).final = (runMvp1 app ⟨ctx, 0#32⟩ fuel).final := u2
    refine ⟨rfl, fun r => ?_, ?_⟩
    · rw [f1, hfin]; exact h1.2.1.regs r
    · rw [f2, hfin]; exact h1.2.1.mem
  | error er =>
    rw [hstop] at h1
    simp only at h1 ⊢
    exact (Proofs.Mvp4.run_halt_unique mvp1Fetch mvp1Fetch app ⟨ctx, 0#32⟩ n fuel hk .err e1 h1.1).1

/-- Non-vacuity: the loop program `Proofs.Mvp60SlWitness.brApp` on two and four units, and the program
`Proofs.Mvp60Flush.wpApp` (a member of the class) on two units, in which the `addi t0` behind the taken `beq` IS executed in
the tick of the flush (`Props.C03`, example of the drain theorem): all end with the registers of MVP-1 -/
example : Model.Mvp60.BranchOnly Proofs.Mvp60SlWitness.brApp = true ∧ Model.Mvp60.BranchOnly Proofs.Mvp60Flush.wpApp = true ∧
    Proofs.Mvp60SlWitness.obsR (Model.Mvp60.run Proofs.Mvp60SlWitness.brApp Proofs.Mvp60SlWitness.ctx0 2 2 5000).halt
        (Model.Mvp60.run Proofs.Mvp60SlWitness.brApp Proofs.Mvp60SlWitness.ctx0 2 2 5000).final.ctx =
      Proofs.Mvp60SlWitness.obsR (runMvp1 Proofs.Mvp60SlWitness.brApp ⟨Proofs.Mvp60SlWitness.ctx0, 0⟩ 40).halt
        (runMvp1 Proofs.Mvp60SlWitness.brApp ⟨Proofs.Mvp60SlWitness.ctx0, 0⟩ 40).final.ctx ∧
    Proofs.Mvp60SlWitness.obsR (Model.Mvp60.run Proofs.Mvp60SlWitness.brApp Proofs.Mvp60SlWitness.ctx0 4 4 5000).halt
        (Model.Mvp60.run Proofs.Mvp60SlWitness.brApp Proofs.Mvp60SlWitness.ctx0 4 4 5000).final.ctx =
      Proofs.Mvp60SlWitness.obsR (runMvp1 Proofs.Mvp60SlWitness.brApp ⟨Proofs.Mvp60SlWitness.ctx0, 0⟩ 40).halt
        (runMvp1 Proofs.Mvp60SlWitness.brApp ⟨Proofs.Mvp60SlWitness.ctx0, 0⟩ 40).final.ctx ∧
    Proofs.Mvp60SlWitness.obsR (Model.Mvp60.run Proofs.Mvp60Flush.wpApp Proofs.Mvp60SlWitness.ctx0 2 2 2000).halt
        (Model.Mvp60.run Proofs.Mvp60Flush.wpApp Proofs.Mvp60SlWitness.ctx0 2 2 2000).final.ctx =
      Proofs.Mvp60SlWitness.obsR (runMvp1 Proofs.Mvp60Flush.wpApp ⟨Proofs.Mvp60SlWitness.ctx0, 0⟩ 20).halt
        (runMvp1 Proofs.Mvp60Flush.wpApp ⟨Proofs.Mvp60SlWitness.ctx0, 0⟩ 20).final.ctx :=
  ⟨Proofs.Mvp60SlWitness.br_class.1, Proofs.Mvp60SlWitness.wp_class,
   Proofs.Mvp60SlWitness.br_p2.trans Proofs.Mvp60SlWitness.br_seq.symm,
   Proofs.Mvp60SlWitness.br_p4.trans Proofs.Mvp60SlWitness.br_seq.symm,
   Proofs.Mvp60SlWitness.wp_p2.trans Proofs.Mvp60SlWitness.wp_seq.symm⟩

end Props.C01

/-! ## MVP-6.0 (package R60c): jumps, calls and returns — the safety half of the full clause

History: while looking for the invariant on `fetchUnit.complete` the statement `Full_mvp60_regonly_correct` turned out to be
FALSE of the machine as it was (R60-defect-1): `fetchUnit.reset` (called for every jump) did not clear `complete`, which
`CPU.isEmpty()` uses to end the run; a jump within the last instructions of the program text, executed with a hit in the
branch target buffer (no flush) while the line of its target was not in L1I, left the machine empty — with `complete` still
set from the fetch past the end — for the ~310 ticks of the memory access, and `Run` ended "past the end" in the middle of
the program (witness `Proofs.Mvp60JumpWitness.earlyApp`; mvp6-0 and mvp6-1 at every parallelism; the model agreed tick for
tick, and `¬ Full_mvp60_regonly_correct` was a theorem).  Fixed in /repo commit 52aa070 (`reset` clears `complete`, as
MVP-5 does), mirrored in `Model.Mvp60.FetchUnit.reset`.

What is proved now, for every number of units and the whole class `Model.Mvp60.RegOnlyWf` (register-only programs with
conditional branches, `j`, `jal`, `jalr`, `ret`; labels well-formed): `mvp60_regonly_correct` — the SAFETY half of
`Full_mvp60_regonly_correct`: if the model run ends and the specification run ends within its fuel, they end the same way
with the specification's registers and memory.  `Props.C07.mvp60_regonly_never_panics`: the run never ends with a Go panic.
Not proved: that the run ends within some tick budget. -/
namespace Props.C01

/-- **R60-defect-1 is fixed: the witness program runs to its `ret`.**  On the register-only program
`Proofs.Mvp60JumpWitness.earlyApp` (a member of `RegOnly` and `RegOnlyWf`) the unpipelined machine returns with `s0 = 4`, and
so does the MVP-6.0 model with one and with two execute/write units (registers `ra s0 a0 t0 t1 t2`).  Before /repo commit
52aa070 (`fetchUnit.reset` did not clear `complete`) machine and model ended "past the end" after 12616 ticks with `s0 = 2`. -/
theorem mvp60_premature_end_fixed :
    Model.Mvp60.RegOnly Proofs.Mvp60JumpWitness.earlyApp = true ∧
    Proofs.Mvp60SlWitness.obsR (runMvp1 Proofs.Mvp60JumpWitness.earlyApp ⟨Proofs.Mvp60SlWitness.ctx0, 0⟩ 100).halt
        (runMvp1 Proofs.Mvp60JumpWitness.earlyApp ⟨Proofs.Mvp60SlWitness.ctx0, 0⟩ 100).final.ctx =
      (some .ret, [0#32, 4#32, 0#32, 4#32, 1#32, 0#32]) ∧
    Proofs.Mvp60SlWitness.obsR (Model.Mvp60.run Proofs.Mvp60JumpWitness.earlyApp Proofs.Mvp60SlWitness.ctx0 1 1 60000).halt
        (Model.Mvp60.run Proofs.Mvp60JumpWitness.earlyApp Proofs.Mvp60SlWitness.ctx0 1 1 60000).final.ctx =
      (some .ret, [0#32, 4#32, 0#32, 4#32, 1#32, 0#32]) ∧
    Proofs.Mvp60SlWitness.obsR (Model.Mvp60.run Proofs.Mvp60JumpWitness.earlyApp Proofs.Mvp60SlWitness.ctx0 2 2 60000).halt
        (Model.Mvp60.run Proofs.Mvp60JumpWitness.earlyApp Proofs.Mvp60SlWitness.ctx0 2 2 60000).final.ctx =
      (some .ret, [0#32, 4#32, 0#32, 4#32, 1#32, 0#32]) ∧
    12616 < (Model.Mvp60.run Proofs.Mvp60JumpWitness.earlyApp Proofs.Mvp60SlWitness.ctx0 1 1 60000).ticks :=
  ⟨Proofs.Mvp60JumpWitness.early_class.2, Proofs.Mvp60JumpWitness.early_seq, Proofs.Mvp60JumpWitness.early_p1,
   Proofs.Mvp60JumpWitness.early_p2, Proofs.Mvp60JumpWitness.early_p1_ticks⟩

/-- **C01 for MVP-6.0 on register-only programs with branches, jumps, calls and `ret` (safety), every number `K` of
execute and write units** — the safety half of `Full_mvp60_regonly_correct` for the class `Model.Mvp60.RegOnlyWf`.  Every
parsed program of the class, every initial state related to a specification machine with fresh scoreboards and
`sequenceID = 0`, every fuel and tick budget: if the model run ends (`ret`, past the last instruction, or an error value) and
the specification run ends within its fuel, they end the same way, and after `ret` / past the end the final registers and
memory of the model are the specification's.

How a jump goes through the machine: the decode unit closes when it decodes it (the jump is the youngest runner, the fetch
unit fetches on behind it onto the decode bus, which nobody reads); the execute unit that executes it resets the fetch unit
to the target with the decode bus to be cleaned and re-opens the decode unit; without a prediction, or with a wrong one,
it also signals a flush (drain as for a branch; the jump's own result is kept).  With a right prediction nothing is flushed:
then the results of that tick may carry sequence ids (= pcs) greater than the next pc (a backward jump); they have left the
write bus before the next instruction can execute (`Proofs.Mvp60Sl.Mid.stale`), so a later flush never drops them.
`jalr` targets: the specification checks them (`Spec.targetOk`), `Proofs.Mvp60Sl.tgtOk_of_spec` carries that to every
state the unpipelined machine reaches.  The end of the run: `fetchUnit.complete` is set only by a fetch past the last
instruction and cleared by `reset` and `flush`, so an empty machine with `complete` set has really run off the end. -/
theorem mvp60_regonly_correct (app : App) (hw : WfApp app) (hc : Model.Mvp60.RegOnlyWf app = true)
    (ctx : Model.Context) (m : Spec.Machine) (hR : Rel ctx m) (hpw : ∀ r, GoMap.get1 ctx.PendingWriteRegisters r = 0)
    (hseq : ctx.sequenceID = 0) (K fuel ticks : Nat) (hk : Halt)
    (hh : (Model.Mvp60.run app ctx K K ticks).halt = some hk) (hnp : ∀ w, hk ≠ .panic w) :
    Agree4 (Spec.run (specProg app) m fuel) hk (Model.Mvp60.run app ctx K K ticks).final.ctx := by
  have hj := Proofs.Mvp60Sl.jclass_of_regOnlyWf app hc
  have hall : ∀ i ∈ app.instrs, Model.Mvp60.jInstr app i = true := by
    have := hj
    simp only [Model.Mvp60.JClass, Bool.and_eq_true, List.all_eq_true] at this
    exact this.1
  have hpj : Proofs.Mvp60Sl.ProgJ app := ⟨hw.small, hw.nofwd, hj⟩
  have h1 := mvp1_correct app hw ctx m hR fuel
  unfold Agree at h1
  unfold Agree4
  cases hstop : (Spec.run (specProg app) m fuel).stop with
  | notWf w => trivial
  | ret =>
    have hT := Proofs.Mvp60Sl.tgtOk_of_spec app hw hall ctx m hR fuel (by intro why hc'; rw [hstop] at hc'; cases hc')
    obtain ⟨n, e1, e2⟩ := Proofs.Mvp60Sl.mvp60_j_refines_mvp1 app hpj ctx ⟨hR.rat, hR.tx, hpw⟩ K ticks hk (Or.inl hseq) hT hh hnp
    rw [hstop] at h1
    simp only at h1 ⊢
    obtain ⟨u1, u2⟩ := Proofs.Mvp4.run_halt_unique mvp1Fetch mvp1Fetch app ⟨ctx, 0#32⟩ n fuel hk .ret e1 h1.1
    subst u1
    obtain ⟨f1, f2⟩ := e2 (by intro hc'; cases hc')
    have hfin : (runMvp1 app ⟨ctx, 0#32⟩ n).final = (runMvp1 app ⟨ctx, 0#32⟩ fuel).final := u2
    refine ⟨rfl, fun r => ?_, ?_⟩
    · rw [f1, hfin]; exact h1.2.1.regs r
    · rw [f2, hfin]; exact h1.2.1.mem
  | offEnd =>
    have hT := Proofs.Mvp60Sl.tgtOk_of_spec app hw hall ctx m hR fuel (by intro why hc'; rw [hstop] at hc'; cases hc')
    obtain ⟨n, e1, e2⟩ := Proofs.Mvp60Sl.mvp60_j_refines_mvp1 app hpj ctx ⟨hR.rat, hR.tx, hpw⟩ K ticks hk (Or.inl hseq) hT hh hnp
    rw [hstop] at h1
    simp only at h1 ⊢
    obtain ⟨u1, u2⟩ := Proofs.Mvp4.run_halt_unique mvp1Fetch mvp1Fetch app ⟨ctx, 0#32⟩ n fuel hk .offEnd e1 h1.1
    subst u1
    obtain ⟨f1, f2⟩ := e2 (by intro hc'; cases hc')
    have hfin : (runMvp1 app ⟨ctx, 0#32⟩ n).final = (runMvp1 app ⟨ctx, 0#32⟩ fuel).final := u2
    refine ⟨rfl, fun r => ?_, ?_⟩
    · rw [f1, hfin]; exact h1.2.1.regs r
    · rw [f2, hfin]; exact h1.2.1.mem
  | error er =>
    have hT := Proofs.Mvp60Sl.tgtOk_of_spec app hw hall ctx m hR fuel (by intro why hc'; rw [hstop] at hc'; cases hc')
    obtain ⟨n, e1, e2⟩ := Proofs.Mvp60Sl.mvp60_j_refines_mvp1 app hpj ctx ⟨hR.rat, hR.tx, hpw⟩ K ticks hk (Or.inl hseq) hT hh hnp
    rw [hstop] at h1
    simp only at h1 ⊢
    exact (Proofs.Mvp4.run_halt_unique mvp1Fetch mvp1Fetch app ⟨ctx, 0#32⟩ n fuel hk .err e1 h1.1).1

/-- Non-vacuity: two members of `RegOnlyWf` with jumps — `Proofs.Mvp60SlWitness.loopApp` (a call `jal` and a return `jalr`,
a loop) on two units, `Proofs.Mvp60JumpWitness.jloopApp` (a loop closed by a backward `j`, executed once without and once
with a prediction: two flushes for three taken control transfers) on one, two and four units — end with `ret` and the
registers of MVP-1 -/
example : Model.Mvp60.RegOnlyWf Proofs.Mvp60SlWitness.loopApp = true ∧ Model.Mvp60.RegOnlyWf Proofs.Mvp60JumpWitness.jloopApp = true ∧
    Model.Mvp60.BranchOnly Proofs.Mvp60JumpWitness.jloopApp = false ∧
    Proofs.Mvp60SlWitness.obsR (Model.Mvp60.run Proofs.Mvp60SlWitness.loopApp Proofs.Mvp60SlWitness.ctx0 2 2 5000).halt
        (Model.Mvp60.run Proofs.Mvp60SlWitness.loopApp Proofs.Mvp60SlWitness.ctx0 2 2 5000).final.ctx =
      Proofs.Mvp60SlWitness.obsR (runMvp1 Proofs.Mvp60SlWitness.loopApp ⟨Proofs.Mvp60SlWitness.ctx0, 0⟩ 40).halt
        (runMvp1 Proofs.Mvp60SlWitness.loopApp ⟨Proofs.Mvp60SlWitness.ctx0, 0⟩ 40).final.ctx ∧
    Proofs.Mvp60SlWitness.obsR (Model.Mvp60.run Proofs.Mvp60JumpWitness.jloopApp Proofs.Mvp60SlWitness.ctx0 1 1 5000).halt
        (Model.Mvp60.run Proofs.Mvp60JumpWitness.jloopApp Proofs.Mvp60SlWitness.ctx0 1 1 5000).final.ctx =
      Proofs.Mvp60SlWitness.obsR (runMvp1 Proofs.Mvp60JumpWitness.jloopApp ⟨Proofs.Mvp60SlWitness.ctx0, 0⟩ 40).halt
        (runMvp1 Proofs.Mvp60JumpWitness.jloopApp ⟨Proofs.Mvp60SlWitness.ctx0, 0⟩ 40).final.ctx ∧
    Proofs.Mvp60SlWitness.obsR (Model.Mvp60.run Proofs.Mvp60JumpWitness.jloopApp Proofs.Mvp60SlWitness.ctx0 2 2 5000).halt
        (Model.Mvp60.run Proofs.Mvp60JumpWitness.jloopApp Proofs.Mvp60SlWitness.ctx0 2 2 5000).final.ctx =
      Proofs.Mvp60SlWitness.obsR (runMvp1 Proofs.Mvp60JumpWitness.jloopApp ⟨Proofs.Mvp60SlWitness.ctx0, 0⟩ 40).halt
        (runMvp1 Proofs.Mvp60JumpWitness.jloopApp ⟨Proofs.Mvp60SlWitness.ctx0, 0⟩ 40).final.ctx ∧
    Proofs.Mvp60SlWitness.obsR (Model.Mvp60.run Proofs.Mvp60JumpWitness.jloopApp Proofs.Mvp60SlWitness.ctx0 4 4 5000).halt
        (Model.Mvp60.run Proofs.Mvp60JumpWitness.jloopApp Proofs.Mvp60SlWitness.ctx0 4 4 5000).final.ctx =
      Proofs.Mvp60SlWitness.obsR (runMvp1 Proofs.Mvp60JumpWitness.jloopApp ⟨Proofs.Mvp60SlWitness.ctx0, 0⟩ 40).halt
        (runMvp1 Proofs.Mvp60JumpWitness.jloopApp ⟨Proofs.Mvp60SlWitness.ctx0, 0⟩ 40).final.ctx ∧
    (Model.Mvp60.run Proofs.Mvp60JumpWitness.jloopApp Proofs.Mvp60SlWitness.ctx0 2 2 5000).final.flushes = 2 :=
  ⟨Proofs.Mvp60JumpWitness.loop_wf, Proofs.Mvp60JumpWitness.jloop_class.1, Proofs.Mvp60JumpWitness.jloop_class.2,
   Proofs.Mvp60SlWitness.loop_p2.trans Proofs.Mvp60SlWitness.loop_seq.symm,
   Proofs.Mvp60JumpWitness.jloop_p1.trans Proofs.Mvp60JumpWitness.jloop_seq.symm,
   Proofs.Mvp60JumpWitness.jloop_p2.trans Proofs.Mvp60JumpWitness.jloop_seq.symm,
   Proofs.Mvp60JumpWitness.jloop_p4.trans Proofs.Mvp60JumpWitness.jloop_seq.symm,
   Proofs.Mvp60JumpWitness.jloop_flushes⟩

/-- **C01 for MVP-6.0 on register-only programs with branches, jumps, calls and `ret` (totality), every number `K ≥ 1` of
execute and write units.**  Every parsed program of `Model.Mvp60.RegOnlyWf`, every initial state related to a specification
machine with fresh scoreboards (no pending write, no pending read) and `sequenceID = 0`: if the specification run is
well-formed and ends within its fuel, the run of the model ends within some tick budget — with `ret`, past the last instruction
or with the defined error, never with a Go panic.

Why the pipeline always moves (`Proofs/Mvp60SlTerm.lean`): lexicographic induction on (steps of the unpipelined run still to
go; mode: drain before a flush > normal > drain after `ret`; a measure).  In a drain every tick takes a result off the write
bus (`Proofs.Mvp60Sl.muW`).  A normal tick with something on the execute bus executes the next instruction (what waits in a
bus buffer is due at the next `Connect`, and an execute unit always finds room on the write bus).  With an empty execute bus
(`Proofs.Mvp60Sl.stall_phi`): a runner waiting in the control unit is issued unless a scoreboard entry holds it back — then a
result is still on the write bus and is written in this tick (the scoreboards hold no entry without an instruction in flight:
`Proofs.Mvp60Sl.BackL`); with nothing behind the decode unit, the decode unit takes a pc off the decode bus, or the fetch unit
emits one, or its memory access counts down — or everything is empty and the run ends. -/
theorem mvp60_regonly_total (app : App) (hw : WfApp app) (hc : Model.Mvp60.RegOnlyWf app = true)
    (ctx : Model.Context) (m : Spec.Machine) (hR : Rel ctx m) (hpw : ∀ r, GoMap.get1 ctx.PendingWriteRegisters r = 0)
    (hpr : ∀ r, GoMap.get1 ctx.PendingReadRegisters r = 0) (hseq : ctx.sequenceID = 0) (K : Nat) (hK : 1 ≤ K) (fuel : Nat)
    (hwf : ∀ why, (Spec.run (specProg app) m fuel).stop ≠ .notWf why) :
    ∃ ticks hk, (Model.Mvp60.run app ctx K K ticks).halt = some hk ∧ ∀ w, hk ≠ .panic w := by
  have hj := Proofs.Mvp60Sl.jclass_of_regOnlyWf app hc
  have hT := Proofs.Mvp60Sl.tgtOk_of_spec app hw (Proofs.Mvp60Sl.jclass_all hj) ctx m hR fuel hwf
  obtain ⟨N, aN, hN, hh⟩ := Proofs.Mvp60Sl.seq_halts_of_spec app hw ctx m hR fuel hwf
  exact Proofs.Mvp60Sl.mvp60_j_terminates app ⟨hw.small, hw.nofwd, hj⟩ ctx ⟨hR.rat, hR.tx, hpw⟩ hpr K hK (Or.inl hseq) hT N aN hN hh

/-- **`Full_mvp60_regonly_correct` for the class `RegOnlyWf`** (labels well-formed, scoreboards fresh, `sequenceID = 0`):
safety and totality together, for every number `K ≥ 1` of execute and write units -/
theorem mvp60_regonly_correct_total (app : App) (hw : WfApp app) (hc : Model.Mvp60.RegOnlyWf app = true)
    (ctx : Model.Context) (m : Spec.Machine) (hR : Rel ctx m) (hpw : ∀ r, GoMap.get1 ctx.PendingWriteRegisters r = 0)
    (hpr : ∀ r, GoMap.get1 ctx.PendingReadRegisters r = 0) (hseq : ctx.sequenceID = 0) (K : Nat) (hK : 1 ≤ K) (fuel : Nat) :
    (∀ (ticks : Nat) (hk : Halt), (Model.Mvp60.run app ctx K K ticks).halt = some hk → (∀ w, hk ≠ .panic w) →
      Agree4 (Spec.run (specProg app) m fuel) hk (Model.Mvp60.run app ctx K K ticks).final.ctx) ∧
    ((∀ why, (Spec.run (specProg app) m fuel).stop ≠ .notWf why) →
      ∃ ticks hk, (Model.Mvp60.run app ctx K K ticks).halt = some hk ∧ ∀ w, hk ≠ .panic w) :=
  ⟨fun ticks hk hh hnp => mvp60_regonly_correct app hw hc ctx m hR hpw hseq K fuel ticks hk hh hnp,
   fun hwf => mvp60_regonly_total app hw hc ctx m hR hpw hpr hseq K hK fuel hwf⟩

/-- Non-vacuity of the totality hypotheses: `Proofs.Mvp60JumpWitness.earlyApp` is well-formed and in the class, the all-zero
machine is related to the fresh context, and its specification run ends with `ret` -/
example : WfApp Proofs.Mvp60JumpWitness.earlyApp ∧ Model.Mvp60.RegOnlyWf Proofs.Mvp60JumpWitness.earlyApp = true ∧
    (Spec.run (specProg Proofs.Mvp60JumpWitness.earlyApp) { regs := Array.replicate 32 0#32, mem := Array.replicate 64 0#8 } 200).stop = .ret ∧
    (∀ r, GoMap.get1 Proofs.Mvp60SlWitness.ctx0.PendingReadRegisters r = 0) :=
  ⟨Proofs.Mvp60JumpWitness.early_wf, Proofs.Mvp60JumpWitness.early_class.1, Proofs.Mvp60JumpWitness.early_spec, fun r => rfl⟩

end Props.C01

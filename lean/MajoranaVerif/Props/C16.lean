/-
  Props/C16.lean — C16: word encoding is a little-endian bijection on all
  32-bit values.

  Every theorem is about `Gen.Bytes.*` / `Gen.op_sw` / `Gen.op_lw`, which are
  REGENERATED from common/bytes/bytes.go and risc/opcodes.go on every run
  (tie T1); `lake build` therefore re-proves them against the current source.
  All quantifiers range over the whole type (`BitVec 32`, `BitVec 8`): no
  enumeration, no `decide` over a sample.
-/
import MajoranaVerif.Gen.Bytes
import MajoranaVerif.Gen.Opcodes
import MajoranaVerif.Proofs.Bytes
open GoInt Gen.Bytes

namespace Props.C16

/-- Splitting never panics and byte `i` holds bits `8i .. 8i+7`. -/
theorem byte_i (n : BitVec 32) :
    BytesFromLowBits n =
      .ok #v[n.extractLsb' 0 8, n.extractLsb' 8 8, n.extractLsb' 16 8, n.extractLsb' 24 8] :=
  Proofs.Bytes.bytes_char n

/-- Reassembling never panics and puts byte `i` at bits `8i .. 8i+7`. -/
theorem join_char (b0 b1 b2 b3 : BitVec 8) : I32FromBytes b0 b1 b2 b3 = .ok (b3 ++ b2 ++ b1 ++ b0) :=
  Proofs.Bytes.i32_char b0 b1 b2 b3

/-- split ; join = id, for every one of the 2^32 values. -/
theorem join_split (n : BitVec 32) :
    (BytesFromLowBits n >>= fun b => I32FromBytes b[0] b[1] b[2] b[3]) = .ok n := by
  rw [byte_i]
  show I32FromBytes _ _ _ _ = _
  rw [join_char]
  congr 1
  apply BitVec.eq_of_getLsbD_eq
  intro i hi
  simp only [BitVec.getLsbD_append]
  have : i < 8 ∨ (8 ≤ i ∧ i < 16) ∨ (16 ≤ i ∧ i < 24) ∨ (24 ≤ i ∧ i < 32) := by omega
  rcases this with h | h | h | h
  · simp [h]
  · have h1 : ¬ i < 8 := by omega
    have h2 : i - 8 < 8 := by omega
    have h3 : 8 + (i - 8) = i := by omega
    simp [h1, h2, h3]
  · have h1 : ¬ i < 8 := by omega
    have h2 : ¬ i - 8 < 8 := by omega
    have h3 : i - 8 - 8 < 8 := by omega
    have h4 : 16 + (i - 8 - 8) = i := by omega
    simp [h1, h2, h3, h4]
  · have h1 : ¬ i < 8 := by omega
    have h2 : ¬ i - 8 < 8 := by omega
    have h3 : ¬ i - 8 - 8 < 8 := by omega
    have h4 : i - 8 - 8 - 8 < 8 := by omega
    have h5 : 24 + (i - 8 - 8 - 8) = i := by omega
    simp [h1, h2, h3, h4, h5]

/-- join ; split = id, for every one of the 2^32 byte quadruples. -/
theorem split_join (b0 b1 b2 b3 : BitVec 8) :
    (I32FromBytes b0 b1 b2 b3 >>= BytesFromLowBits) = .ok #v[b0, b1, b2, b3] := by
  rw [join_char]
  show BytesFromLowBits _ = _
  rw [byte_i]
  have e0 : (b3 ++ b2 ++ b1 ++ b0).extractLsb' 0 8 = b0 := by
    apply BitVec.eq_of_getLsbD_eq; intro i hi
    simp only [BitVec.getLsbD_extractLsb', BitVec.getLsbD_append, hi, decide_true, Bool.true_and,
      Nat.zero_add, cond_true, if_true]
  have e1 : (b3 ++ b2 ++ b1 ++ b0).extractLsb' 8 8 = b1 := by
    apply BitVec.eq_of_getLsbD_eq; intro i hi
    have h1 : ¬ 8 + i < 8 := by omega
    have h2 : 8 + i - 8 < 8 := by omega
    have h3 : 8 + i - 8 = i := by omega
    simp only [BitVec.getLsbD_extractLsb', BitVec.getLsbD_append, hi, decide_true, Bool.true_and,
      h1, h2, h3, decide_false, cond_true, cond_false, if_true, if_false]
  have e2 : (b3 ++ b2 ++ b1 ++ b0).extractLsb' 16 8 = b2 := by
    apply BitVec.eq_of_getLsbD_eq; intro i hi
    have h1 : ¬ 16 + i < 8 := by omega
    have h2 : ¬ 16 + i - 8 < 8 := by omega
    have h3 : 16 + i - 8 - 8 = i := by omega
    have h4 : 16 + i - 8 - 8 < 8 := by omega
    simp only [BitVec.getLsbD_extractLsb', BitVec.getLsbD_append, hi, decide_true, Bool.true_and,
      h1, h2, h4, decide_false, cond_true, cond_false, if_true, if_false]
    rw [h3]
  have e3 : (b3 ++ b2 ++ b1 ++ b0).extractLsb' 24 8 = b3 := by
    apply BitVec.eq_of_getLsbD_eq; intro i hi
    have h1 : ¬ 24 + i < 8 := by omega
    have h2 : ¬ 24 + i - 8 < 8 := by omega
    have h3 : ¬ 24 + i - 8 - 8 < 8 := by omega
    have h4 : 24 + i - 8 - 8 - 8 = i := by omega
    simp only [BitVec.getLsbD_extractLsb', BitVec.getLsbD_append, hi, decide_true, Bool.true_and,
      h1, h2, h3, decide_false, cond_true, cond_false, if_true, if_false]
    rw [h4]
  rw [e0, e1, e2, e3]

/-- Neither direction can raise a Go panic, on any input. -/
theorem no_panic (n : BitVec 32) (b0 b1 b2 b3 : BitVec 8) :
    (∃ v, BytesFromLowBits n = .ok v) ∧ (∃ w, I32FromBytes b0 b1 b2 b3 = .ok w) :=
  ⟨⟨_, byte_i n⟩, ⟨_, join_char b0 b1 b2 b3⟩⟩

/-- "Storing a word and loading it back never changes it": the four bytes the
regenerated `sw` hands to memory, given back to the regenerated `lw` in the same
order, produce exactly the stored register value (whatever it is, whatever the
base address, offsets and context), and the four byte addresses are
`base+offset … base+offset+3`. -/
theorem sw_lw (sw : Gen.op_sw) (lw : Gen.op_lw) (ctx : Model.Context) (labels : GoMap String Word)
    (pc pc' seq seq' : Word) (mem : List Byte) (hrd : lw.rd ≠ Gen.Reg.Zero) :
    ∃ exe, Gen.op_sw.Run sw ctx labels pc mem seq = .ok exe ∧
      exe.MemoryChange = true ∧
      exe.MemoryChanges.map (·.1) = Gen.op_sw.MemoryWrite sw ctx seq ∧
      Gen.op_lw.Run lw ctx labels pc' (exe.MemoryChanges.map (·.2)) seq' =
        .ok { RegisterChange := true, Register := lw.rd,
              RegisterValue := Gen.registerRead ctx sw.forward sw.rs seq } := by
  unfold Gen.op_sw.Run
  simp only [byte_i, Proofs.Bytes.bind_ok]
  refine ⟨_, rfl, rfl, ?_, ?_⟩
  · simp [Gen.op_sw.MemoryWrite]
  · unfold Gen.op_lw.Run
    simp only [List.map, GoInt.index, List.getElem?_cons_zero, List.getElem?_cons_succ,
      Proofs.Bytes.bind_ok, pure, Except.pure]
    have := join_split (Gen.registerRead ctx sw.forward sw.rs seq)
    rw [byte_i] at this
    have h2 : I32FromBytes _ _ _ _ = _ := this
    simp only [Vector.getElem_mk, List.getElem_toArray, List.getElem_cons_zero, List.getElem_cons_succ] at h2 ⊢
    rw [h2]
    simp [Proofs.Bytes.bind_ok, Gen.IsRegisterChange, hrd]

/-- Non-vacuity: a concrete non-trivial value through both directions. -/
example : BytesFromLowBits 0x80FF017F#32 = .ok #v[0x7F#8, 0x01#8, 0xFF#8, 0x80#8] := by
  rw [byte_i]; rfl
example : I32FromBytes 0x7F#8 0x01#8 0xFF#8 0x80#8 = .ok 0x80FF017F#32 := by
  rw [join_char]; rfl

end Props.C16

/-
  Props/C05.lean — C05 for MVP-3: the cache hierarchy (L1I of pc lines, write-back LRU
  L1D) is transparent and leaves nothing behind.

  `Model.Mvp3` (Model/Mvp3.lean + Model/Mmu.lean + Model/LineCache.lean) is the
  cycle-accurate model of proc/mvp3, built from the REGENERATED instruction semantics and
  constants and tied to the Go machine on every run of the streams (status, cycle count,
  final registers and memory: the `m3=` field of the driver).  The theorems compare it
  with the cache-less model of MVP-1, `Model.Seq.runMvp1`, on EVERY program, initial
  state and fuel, under one decidable hypothesis that the driver evaluates on every case
  (`h3=`): `Model.Mvp3.wfAccesses` — every access of the cache-less run lies inside
  memory and inside ONE cache line that ends below 2^31 (a store's bytes are consecutive).  Naturally aligned
  in-bounds accesses satisfy it (`spec_wfAccesses`); unaligned accesses that cross a line
  do NOT behave transparently in the real code (`not_Full_transparent` below).

  The core is the invariant `ViewInv`: the VIEW of (ctx.Memory, L1D) — the byte of the
  cached line when the address lies in one, else the memory byte — equals the flat memory
  of the cache-less machine; it is preserved by hits (LRU reordering), load-miss fill,
  victim write-back, cached and uncached stores, and `flush()` makes `ctx.Memory` itself
  equal to the view.
-/
import MajoranaVerif.Proofs.Mvp3Spec
import MajoranaVerif.Props.C01
open GoInt Model Model.Seq Model.Mmu Model.Mvp3 LineCache Proofs.Mmu Proofs.Mvp3 Proofs.Refine

namespace Props.C05

/-- the constants of proc/mvp3 as the proofs need them (64-byte lines, 16 lines; re-opened when the
regenerated constants change) -/
theorem consts : Proofs.Mvp3.CfgOk mvp3Config 64 16 64 := mvp3Config_ok

/-! ### the invariant -/

/-- `view a = if a lies in a cached line then that line's byte else Memory[a]` equals the flat memory -/
def ViewInv (c : Cache) (mem flat : List Byte) : Prop :=
  DWf 64 16 c ∧ mem.length = flat.length ∧ ∀ x : Nat, x < flat.length → view c.lines mem x = flat[x]?

theorem viewInv_iff (c : Cache) (mem flat : List Byte) : ViewInv c mem flat ↔ DWf 64 16 c ∧ Coh c.lines mem flat :=
  ⟨fun ⟨hw, hl, hv⟩ => ⟨hw, coh_of_view (by decide) hw hl hv⟩,
   fun ⟨hw, hc⟩ => ⟨hw, hc.len, fun x hx => hc.view_eq x hx⟩⟩

/-- the empty cache of `NewCPU`: the view is the memory -/
theorem viewInv_init (mem : List Byte) : ∃ u, Model.Mmu.new mvp3Config = .ok u ∧ ViewInv u.l1d mem mem := by
  obtain ⟨u, hnew, hs⟩ := init_sim consts ⟨{ Memory := mem }, 0#32⟩
  exact ⟨u, hnew, (viewInv_iff _ _ _).mpr ⟨hs.dwf, hs.coh⟩⟩

/-- **load_sees_flat**: every load whose addresses are in bounds and in one line returns the flat-memory
bytes — on a hit, and on a miss after the fill (and the write-back of a victim) — and keeps the invariant
with the SAME flat memory. -/
theorem load_sees_flat (u : Mmu) (mem flat : List Byte) (addrs : List Word) (hinv : ViewInv u.l1d mem flat)
    (hok : loadOk 64 flat.length addrs = true) :
    ∃ bytes u' mem' cost, Model.Mvp3.load mvp3Config u mem addrs = .ok (bytes, u', mem', cost) ∧
      addrs.mapM (readMem flat) = some bytes ∧ ViewInv u'.l1d mem' flat := by
  obtain ⟨hw, hc⟩ := (viewInv_iff _ _ _).mp hinv
  obtain ⟨bytes, u', mem', mr, h1, h2, _, h4, h5, _⟩ :=
    load_ok consts.dline consts.Lpos consts.npos hw hc addrs hok
  exact ⟨bytes, u', mem', mr, h1, h2, (viewInv_iff _ _ _).mpr ⟨h4, h5⟩⟩

/-- **load-miss fill** keeps the invariant (the block of the first address becomes resident); `hend`: the
block ends below 2^31, so that its `int32` upper bound is what it should be -/
theorem fill_preserves_view (u : Mmu) (mem flat : List Byte) (a0 : Word) (hinv : ViewInv u.l1d mem flat)
    (h0 : 0 ≤ a0.toInt) (hmiss : ∀ y ∈ u.l1d.lines, y.covers a0.toInt = false)
    (hend : base 64 a0.toInt + 64 < 2 ^ 31) :
    ∃ line u' mem', fetchCacheLine mvp3Config mem a0 = .ok line ∧
      pushLineToL1D mvp3Config u mem a0 line = .ok (u', mem') ∧ ViewInv u'.l1d mem' flat := by
  obtain ⟨hw, hc⟩ := (viewInv_iff _ _ _).mp hinv
  obtain ⟨line, u', mem', h1, h2, _, h4, h5, _⟩ := fill_ok consts.dline consts.Lpos consts.npos hw hc a0 h0 hmiss hend
  exact ⟨line, u', mem', h1, h2, (viewInv_iff _ _ _).mpr ⟨h4, h5⟩⟩

/-- **evict_preserves_view**: a victim's bytes are never lost — removing a resident line and writing its
data back to memory at its base leaves the view (hence its relation to the flat memory) unchanged. -/
theorem evict_preserves_view (pre post : List Line) (x : Line) (mem flat mem' : List Byte)
    (hc : Coh (pre ++ x :: post) mem flat) (hx : LineWf 64 x)
    (hwb : writeToMemory mem x.lo x.data = .ok mem') :
    Coh (pre ++ post) mem' flat ∧ ∀ a : Nat, a < flat.length → view (pre ++ post) mem' a = flat[a]? :=
  ⟨hc.evict hx hwb, fun a ha => (hc.evict hx hwb).view_eq a ha⟩

/-- **cached store**: the view afterwards is the flat memory with the store applied -/
theorem store_cached_view (u : Mmu) (mem flat : List Byte) (e : Gen.Execution) (hinv : ViewInv u.l1d mem flat)
    (hst : storeOk 64 flat.length e.MemoryChanges = true)
    (hres : ∃ l ∈ u.l1d.lines, ∀ p ∈ e.MemoryChanges, l.lo = base 64 p.1.toInt) :
    ∃ u', writeExecutionMemoryChangesToL1D u e = .ok u' ∧ ViewInv u'.l1d mem (applyChanges flat e.MemoryChanges) := by
  obtain ⟨hw, hc⟩ := (viewInv_iff _ _ _).mp hinv
  obtain ⟨u', h1, _, h3, h4, _⟩ := write_cached_ok (by decide) hw hc e hst hres
  exact ⟨u', h1, (viewInv_iff _ _ _).mpr ⟨h3, h4⟩⟩

/-- **uncached store**: writing the bytes straight to memory moves the view with the flat memory -/
theorem store_uncached_view (c : Cache) (mem flat : List Byte) (chs : List (Word × Byte)) (hinv : ViewInv c mem flat)
    (hst : storeOk 64 flat.length chs = true) (hmiss : ∀ p ∈ chs, ∀ y ∈ c.lines, y.covers p.1.toInt = false) :
    ViewInv c (applyChanges mem chs) (applyChanges flat chs) := by
  obtain ⟨hw, hc⟩ := (viewInv_iff _ _ _).mp hinv
  exact (viewInv_iff _ _ _).mpr ⟨hw, write_uncached_ok (by decide) hw hc chs hst hmiss⟩

/-- the whole write-back of a store (the decision cached / uncached included) -/
theorem store_preserves_view (u : Mmu) (ctx : Model.Context) (flat : List Byte) (e : Gen.Execution)
    (hinv : ViewInv u.l1d ctx.Memory flat) (hst : storeOk 64 flat.length e.MemoryChanges = true) :
    ∃ u' mem' cost, Model.Mvp3.store u ctx e = .ok (u', { ctx with Memory := mem' }, cost) ∧
      ViewInv u'.l1d mem' (applyChanges flat e.MemoryChanges) := by
  obtain ⟨hw, hc⟩ := (viewInv_iff _ _ _).mp hinv
  obtain ⟨u', mem', wb, h1, _, h3, h4, _⟩ := store_ok (by decide) hw hc e hst
  exact ⟨u', mem', wb, h1, (viewInv_iff _ _ _).mpr ⟨h3, h4⟩⟩

/-- **flush makes Memory = view**: after `flush()` `ctx.Memory` is the flat memory; one `MemoryAccess` per line -/
theorem flush_memory_eq_view (u : Mmu) (mem flat : List Byte) (hinv : ViewInv u.l1d mem flat) :
    flush mvp3Config u mem = .ok (flat, u.l1d.lines.length * Gen.Latency.MemoryAccess) := by
  obtain ⟨hw, hc⟩ := (viewInv_iff _ _ _).mp hinv
  exact flush_ok consts.dline consts.Lpos hw hc

/-! ### the main theorem -/

/-- **C05, MVP-3: cache transparency.**  For every program, initial state and fuel whose cache-less run
makes only in-bounds, line-local accesses: the run of MVP-3 ends the same way as the cache-less MVP-1
(same halt kind — `ret`, running off the end, error value, Go panic, or out of fuel), after the same
number of instructions, at the same pc, with the same context (registers) up to `Memory`; at every moment
the view of (Memory, L1D) is MVP-1's flat memory; and when the run returns normally (after `flush()`)
the final state — registers AND `ctx.Memory` — is exactly MVP-1's. -/
theorem mvp3_transparent (app : App) (a : Arch) (fuel : Nat) (h : wfAccesses app a fuel = true) :
    (runMvp3 app a fuel).halt = (runMvp1 app a fuel).halt ∧
    (runMvp3 app a fuel).steps = (runMvp1 app a fuel).steps ∧
    (runMvp3 app a fuel).final.pc = (runMvp1 app a fuel).final.pc ∧
    (runMvp3 app a fuel).final.ctx = { (runMvp1 app a fuel).final.ctx with Memory := (runMvp3 app a fuel).final.ctx.Memory } ∧
    ViewInv (runMvp3 app a fuel).mmu.l1d (runMvp3 app a fuel).final.ctx.Memory (runMvp1 app a fuel).final.ctx.Memory ∧
    (((runMvp1 app a fuel).halt = some .ret ∨ (runMvp1 app a fuel).halt = some .offEnd) →
      (runMvp3 app a fuel).final = (runMvp1 app a fuel).final) := by
  have hr := mvp3_finalRel app a fuel h
  exact ⟨hr.halt, hr.steps, hr.pc, hr.ctx, (viewInv_iff _ _ _).mpr ⟨hr.dwf, hr.coh⟩,
    fun hh => arch_eq _ _ hr.pc hr.ctx (hr.flushed hh)⟩

/-- the hypothesis holds along every run the specification accepts as well-formed (naturally aligned,
in-bounds accesses) on a memory that ends at least one line below 2^31: the theorem is not vacuous on the
claimed domain of C01/C05.  (`hsz` is needed: Go computes a line's upper bound in `int32`; the line that
would end at 2^31 gets a negative bound, is never hit, and a load from it panics.) -/
theorem spec_wfAccesses (app : App) (hw : WfApp app) (ctx : Model.Context) (m : Spec.Machine) (hR : Rel ctx m)
    (hsz : m.mem.size + 64 ≤ 2 ^ 31)
    (fuel : Nat) (hwf : ∀ why, (Spec.run (specProg app) m fuel).stop ≠ .notWf why) :
    wfAccesses app ⟨ctx, 0#32⟩ fuel = true :=
  Proofs.Mvp3Spec.spec_wfAccesses app hw ctx m hR hsz fuel hwf

/-- **C05 against the specification**: on every run that is well-formed along the sequential semantics,
MVP-3 ends as the specification does, with its registers; and after a normal return its memory is the
specification's memory: every load returned the bytes most recently stored, nothing is left behind in
the cache. -/
theorem mvp3_transparent_spec (app : App) (hw : WfApp app) (ctx : Model.Context) (m : Spec.Machine) (hR : Rel ctx m)
    (hsz : m.mem.size + 64 ≤ 2 ^ 31) (fuel : Nat) (hwf : ∀ why, (Spec.run (specProg app) m fuel).stop ≠ .notWf why)
    (hstop : (Spec.run (specProg app) m fuel).stop = .ret ∨ (Spec.run (specProg app) m fuel).stop = .offEnd) :
    Rel (runMvp3 app ⟨ctx, 0#32⟩ fuel).final.ctx (Spec.run (specProg app) m fuel).final ∧
    (runMvp3 app ⟨ctx, 0#32⟩ fuel).steps = (Spec.run (specProg app) m fuel).steps := by
  have h3 := mvp3_transparent app ⟨ctx, 0#32⟩ fuel (spec_wfAccesses app hw ctx m hR hsz fuel hwf)
  have h1 := Props.C01.mvp1_correct app hw ctx m hR fuel
  unfold Props.C01.Agree at h1
  rcases hstop with hs | hs <;> rw [hs] at h1 <;> simp only at h1
  · have := h3.2.2.2.2.2 (Or.inl h1.1)
    rw [this, h3.2.1]; exact ⟨h1.2.1, h1.2.2⟩
  · have := h3.2.2.2.2.2 (Or.inr h1.1)
    rw [this, h3.2.1]; exact ⟨h1.2.1, h1.2.2⟩

/-! ### non-vacuity, and why the hypothesis is there -/

/-- fill line 0, store into it (dirty), walk 18 lines (the 16-line cache evicts line 0 and writes it back),
read the word again, return -/
def exInstrs : List Gen.Instr :=
  [.li_ { rd := 5, imm := 0#32 }, .li_ { rd := 6, imm := 1152#32 },
   .lw_ { rd := 7, offset := 0#32, rs := 5 }, .sw_ { rs := 6, rd := 5, offset := 0#32 },
   .lw_ { rd := 7, offset := 0#32, rs := 5 }, .addi_ { rd := 5, rs := 5, imm := 64#32 },
   .blt_ { rs1 := 5, rs2 := 6, label := "loop" },
   .lw_ { rd := 7, offset := 0#32, rs := 0 }, .ret_ {}]
def exApp : App := { instrs := exInstrs, labels := ⟨[("loop", 16#32)]⟩ }
def exState : Arch := ⟨{ Memory := List.replicate 1152 1#8 }, 0#32⟩

/-- the hypothesis of `mvp3_transparent` holds on a run of 60 instructions with a cached store, 18 line
fills, evictions with a dirty victim and a re-fetch; the re-read word is the stored one -/
example : wfAccesses exApp exState 80 = true ∧ GoMap.get1 (runMvp3 exApp exState 80).final.ctx.Registers 7 = 1152#32 := by
  decide +kernel

/-- `ViewInv` is satisfiable by a non-trivial state: it holds at the end of that run (by the theorem) -/
example : ViewInv (runMvp3 exApp exState 80).mmu.l1d (runMvp3 exApp exState 80).final.ctx.Memory
    (runMvp1 exApp exState 80).final.ctx.Memory :=
  (mvp3_transparent exApp exState 80 (by decide +kernel)).2.2.2.2.1

/-- The statement WITHOUT the hypothesis. -/
def Full_transparent : Prop := ∀ (app : App) (a : Arch) (fuel : Nat),
  (runMvp1 app a fuel).halt = some .ret → (runMvp3 app a fuel).final = (runMvp1 app a fuel).final

/-- an UNALIGNED word store that straddles two lines of which only the first is cached goes straight to
memory and leaves the cached copy of its first two bytes stale -/
def badInstrs : List Gen.Instr :=
  [.li_ { rd := 5, imm := 0x01020304#32 }, .lw_ { rd := 6, offset := 60#32, rs := 0 },
   .sw_ { rs := 5, rd := 0, offset := 62#32 }, .lw_ { rd := 7, offset := 60#32, rs := 0 }, .ret_ {}]
def badApp : App := { instrs := badInstrs, labels := {} }
def badState : Arch := ⟨{ Memory := List.replicate 128 0#8 }, 0#32⟩

/-- Without line-locality the caches are NOT transparent (in the model, and — the tie — in the Go code):
the second load returns the stale bytes. Such accesses are outside C05's quantifier (aligned accesses). -/
theorem not_Full_transparent : ¬ Full_transparent := by
  intro h
  have h1 : (runMvp1 badApp badState 10).halt = some .ret := by decide +kernel
  have h2 := h badApp badState 10 h1
  have h3 : GoMap.get1 (runMvp3 badApp badState 10).final.ctx.Registers 7 ≠
      GoMap.get1 (runMvp1 badApp badState 10).final.ctx.Registers 7 := by decide +kernel
  exact h3 (by rw [h2])

/-- … and the hypothesis rejects that run -/
example : wfAccesses badApp badState 10 = false := by decide +kernel

end Props.C05

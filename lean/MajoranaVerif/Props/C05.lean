/-
  Props/C05.lean — C05 for MVP-3: the cache hierarchy (L1I of pc lines, write-back LRU
  L1D) is transparent and leaves nothing behind.

  `Model.Mvp3` (Model/Mvp3.lean + Model/Mmu.lean + Model/LineCache.lean) is the
  cycle-accurate model of proc/mvp3, built from the REGENERATED instruction semantics and
  constants and tied to the Go machine on every run of the streams (status, cycle count,
  final registers and memory: the `m3=` field of the driver).  The theorems compare it
  with the cache-less model of MVP-1, `Model.Seq.runMvp1`, on EVERY program, initial
  state and fuel, under one decidable hypothesis that the driver evaluates on every case
  (`h3=`): `Model.Mvp3.wfAccesses` — every access of the cache-less run lies inside
  memory and inside ONE cache line that ends below 2^31 (a store's bytes are consecutive).  Naturally aligned
  in-bounds accesses satisfy it (`spec_wfAccesses`); unaligned accesses that cross a line
  do NOT behave transparently in the real code (`not_Full_transparent` below).

  The core is the invariant `ViewInv`: the VIEW of (ctx.Memory, L1D) — the byte of the
  cached line when the address lies in one, else the memory byte — equals the flat memory
  of the cache-less machine; it is preserved by hits (LRU reordering), load-miss fill,
  victim write-back, cached and uncached stores, and `flush()` makes `ctx.Memory` itself
  equal to the view.
-/
import MajoranaVerif.Proofs.Mvp3Spec
import MajoranaVerif.Props.C01
import MajoranaVerif.Proofs.MsiCoherence
import MajoranaVerif.Proofs.Mvp60LdRun
import MajoranaVerif.Proofs.Mvp60LdOk
import MajoranaVerif.Proofs.Mvp60LdTerm
import MajoranaVerif.Proofs.Mvp60LdWitness
open GoInt Model Model.Seq Model.Mmu Model.Mvp3 LineCache Proofs.Mmu Proofs.Mvp3 Proofs.Refine

namespace Props.C05

/-- the constants of proc/mvp3 as the proofs need them (64-byte lines, 16 lines; re-opened when the
regenerated constants change) -/
theorem consts : Proofs.Mvp3.CfgOk mvp3Config 64 16 64 := mvp3Config_ok

/-! ### the invariant -/

/-- `view a = if a lies in a cached line then that line's byte else Memory[a]` equals the flat memory -/
def ViewInv (c : Cache) (mem flat : List Byte) : Prop :=
  DWf 64 16 c ∧ mem.length = flat.length ∧ ∀ x : Nat, x < flat.length → view c.lines mem x = flat[x]?

theorem viewInv_iff (c : Cache) (mem flat : List Byte) : ViewInv c mem flat ↔ DWf 64 16 c ∧ Coh c.lines mem flat :=
  ⟨fun ⟨hw, hl, hv⟩ => ⟨hw, coh_of_view (by decide) hw hl hv⟩,
   fun ⟨hw, hc⟩ => ⟨hw, hc.len, fun x hx => hc.view_eq x hx⟩⟩

/-- the empty cache of `NewCPU`: the view is the memory -/
theorem viewInv_init (mem : List Byte) : ∃ u, Model.Mmu.new mvp3Config = .ok u ∧ ViewInv u.l1d mem mem := by
  obtain ⟨u, hnew, hs⟩ := init_sim consts ⟨{ Memory := mem }, 0#32⟩
  exact ⟨u, hnew, (viewInv_iff _ _ _).mpr ⟨hs.dwf, hs.coh⟩⟩

/-- **load_sees_flat**: every load whose addresses are in bounds and in one line returns the flat-memory
bytes — on a hit, and on a miss after the fill (and the write-back of a victim) — and keeps the invariant
with the SAME flat memory. -/
theorem load_sees_flat (u : Mmu) (mem flat : List Byte) (addrs : List Word) (hinv : ViewInv u.l1d mem flat)
    (hok : loadOk 64 flat.length addrs = true) :
    ∃ bytes u' mem' cost, Model.Mvp3.load mvp3Config u mem addrs = .ok (bytes, u', mem', cost) ∧
      addrs.mapM (readMem flat) = some bytes ∧ ViewInv u'.l1d mem' flat := by
  obtain ⟨hw, hc⟩ := (viewInv_iff _ _ _).mp hinv
  obtain ⟨bytes, u', mem', mr, h1, h2, _, h4, h5, _⟩ :=
    load_ok consts.dline consts.Lpos consts.npos hw hc addrs hok
  exact ⟨bytes, u', mem', mr, h1, h2, (viewInv_iff _ _ _).mpr ⟨h4, h5⟩⟩

/-- **load-miss fill** keeps the invariant (the block of the first address becomes resident); `hend`: the
block ends below 2^31, so that its `int32` upper bound is what it should be -/
theorem fill_preserves_view (u : Mmu) (mem flat : List Byte) (a0 : Word) (hinv : ViewInv u.l1d mem flat)
    (h0 : 0 ≤ a0.toInt) (hmiss : ∀ y ∈ u.l1d.lines, y.covers a0.toInt = false)
    (hend : base 64 a0.toInt + 64 < 2 ^ 31) :
    ∃ line u' mem', fetchCacheLine mvp3Config mem a0 = .ok line ∧
      pushLineToL1D mvp3Config u mem a0 line = .ok (u', mem') ∧ ViewInv u'.l1d mem' flat := by
  obtain ⟨hw, hc⟩ := (viewInv_iff _ _ _).mp hinv
  obtain ⟨line, u', mem', h1, h2, _, h4, h5, _⟩ := fill_ok consts.dline consts.Lpos consts.npos hw hc a0 h0 hmiss hend
  exact ⟨line, u', mem', h1, h2, (viewInv_iff _ _ _).mpr ⟨h4, h5⟩⟩

/-- **evict_preserves_view**: a victim's bytes are never lost — removing a resident line and writing its
data back to memory at its base leaves the view (hence its relation to the flat memory) unchanged. -/
theorem evict_preserves_view (pre post : List Line) (x : Line) (mem flat mem' : List Byte)
    (hc : Coh (pre ++ x :: post) mem flat) (hx : LineWf 64 x)
    (hwb : writeToMemory mem x.lo x.data = .ok mem') :
    Coh (pre ++ post) mem' flat ∧ ∀ a : Nat, a < flat.length → view (pre ++ post) mem' a = flat[a]? :=
  ⟨hc.evict hx hwb, fun a ha => (hc.evict hx hwb).view_eq a ha⟩

/-- **cached store**: the view afterwards is the flat memory with the store applied -/
theorem store_cached_view (u : Mmu) (mem flat : List Byte) (e : Gen.Execution) (hinv : ViewInv u.l1d mem flat)
    (hst : storeOk 64 flat.length e.MemoryChanges = true)
    (hres : ∃ l ∈ u.l1d.lines, ∀ p ∈ e.MemoryChanges, l.lo = base 64 p.1.toInt) :
    ∃ u', writeExecutionMemoryChangesToL1D u e = .ok u' ∧ ViewInv u'.l1d mem (applyChanges flat e.MemoryChanges) := by
  obtain ⟨hw, hc⟩ := (viewInv_iff _ _ _).mp hinv
  obtain ⟨u', h1, _, h3, h4, _⟩ := write_cached_ok (by decide) hw hc e hst hres
  exact ⟨u', h1, (viewInv_iff _ _ _).mpr ⟨h3, h4⟩⟩

/-- **uncached store**: writing the bytes straight to memory moves the view with the flat memory -/
theorem store_uncached_view (c : Cache) (mem flat : List Byte) (chs : List (Word × Byte)) (hinv : ViewInv c mem flat)
    (hst : storeOk 64 flat.length chs = true) (hmiss : ∀ p ∈ chs, ∀ y ∈ c.lines, y.covers p.1.toInt = false) :
    ViewInv c (applyChanges mem chs) (applyChanges flat chs) := by
  obtain ⟨hw, hc⟩ := (viewInv_iff _ _ _).mp hinv
  exact (viewInv_iff _ _ _).mpr ⟨hw, write_uncached_ok (by decide) hw hc chs hst hmiss⟩

/-- the whole write-back of a store (the decision cached / uncached included) -/
theorem store_preserves_view (u : Mmu) (ctx : Model.Context) (flat : List Byte) (e : Gen.Execution)
    (hinv : ViewInv u.l1d ctx.Memory flat) (hst : storeOk 64 flat.length e.MemoryChanges = true) :
    ∃ u' mem' cost, Model.Mvp3.store u ctx e = .ok (u', { ctx with Memory := mem' }, cost) ∧
      ViewInv u'.l1d mem' (applyChanges flat e.MemoryChanges) := by
  obtain ⟨hw, hc⟩ := (viewInv_iff _ _ _).mp hinv
  obtain ⟨u', mem', wb, h1, _, h3, h4, _⟩ := store_ok (by decide) hw hc e hst
  exact ⟨u', mem', wb, h1, (viewInv_iff _ _ _).mpr ⟨h3, h4⟩⟩

/-- **flush makes Memory = view**: after `flush()` `ctx.Memory` is the flat memory; one `MemoryAccess` per line -/
theorem flush_memory_eq_view (u : Mmu) (mem flat : List Byte) (hinv : ViewInv u.l1d mem flat) :
    flush mvp3Config u mem = .ok (flat, u.l1d.lines.length * Gen.Latency.MemoryAccess) := by
  obtain ⟨hw, hc⟩ := (viewInv_iff _ _ _).mp hinv
  exact flush_ok consts.dline consts.Lpos hw hc

/-! ### the main theorem -/

/-- **C05, MVP-3: cache transparency.**  For every program, initial state and fuel whose cache-less run
makes only in-bounds, line-local accesses: the run of MVP-3 ends the same way as the cache-less MVP-1
(same halt kind — `ret`, running off the end, error value, Go panic, or out of fuel), after the same
number of instructions, at the same pc, with the same context (registers) up to `Memory`; at every moment
the view of (Memory, L1D) is MVP-1's flat memory; and when the run returns normally (after `flush()`)
the final state — registers AND `ctx.Memory` — is exactly MVP-1's. -/
theorem mvp3_transparent (app : App) (a : Arch) (fuel : Nat) (h : wfAccesses app a fuel = true) :
    (runMvp3 app a fuel).halt = (runMvp1 app a fuel).halt ∧
    (runMvp3 app a fuel).steps = (runMvp1 app a fuel).steps ∧
    (runMvp3 app a fuel).final.pc = (runMvp1 app a fuel).final.pc ∧
    (runMvp3 app a fuel).final.ctx = { (runMvp1 app a fuel).final.ctx with Memory := (runMvp3 app a fuel).final.ctx.Memory } ∧
    ViewInv (runMvp3 app a fuel).mmu.l1d (runMvp3 app a fuel).final.ctx.Memory (runMvp1 app a fuel).final.ctx.Memory ∧
    (((runMvp1 app a fuel).halt = some .ret ∨ (runMvp1 app a fuel).halt = some .offEnd) →
      (runMvp3 app a fuel).final = (runMvp1 app a fuel).final) := by
  have hr := mvp3_finalRel app a fuel h
  exact ⟨hr.halt, hr.steps, hr.pc, hr.ctx, (viewInv_iff _ _ _).mpr ⟨hr.dwf, hr.coh⟩,
    fun hh => arch_eq _ _ hr.pc hr.ctx (hr.flushed hh)⟩

/-- the hypothesis holds along every run the specification accepts as well-formed (naturally aligned,
in-bounds accesses) on a memory that ends at least one line below 2^31: the theorem is not vacuous on the
claimed domain of C01/C05.  (`hsz` is needed: Go computes a line's upper bound in `int32`; the line that
would end at 2^31 gets a negative bound, is never hit, and a load from it panics.) -/
theorem spec_wfAccesses (app : App) (hw : WfApp app) (ctx : Model.Context) (m : Spec.Machine) (hR : Rel ctx m)
    (hsz : m.mem.size + 64 ≤ 2 ^ 31)
    (fuel : Nat) (hwf : ∀ why, (Spec.run (specProg app) m fuel).stop ≠ .notWf why) :
    wfAccesses app ⟨ctx, 0#32⟩ fuel = true :=
  Proofs.Mvp3Spec.spec_wfAccesses app hw ctx m hR hsz fuel hwf

/-- **C05 against the specification**: on every run that is well-formed along the sequential semantics,
MVP-3 ends as the specification does, with its registers; and after a normal return its memory is the
specification's memory: every load returned the bytes most recently stored, nothing is left behind in
the cache. -/
theorem mvp3_transparent_spec (app : App) (hw : WfApp app) (ctx : Model.Context) (m : Spec.Machine) (hR : Rel ctx m)
    (hsz : m.mem.size + 64 ≤ 2 ^ 31) (fuel : Nat) (hwf : ∀ why, (Spec.run (specProg app) m fuel).stop ≠ .notWf why)
    (hstop : (Spec.run (specProg app) m fuel).stop = .ret ∨ (Spec.run (specProg app) m fuel).stop = .offEnd) :
    Rel (runMvp3 app ⟨ctx, 0#32⟩ fuel).final.ctx (Spec.run (specProg app) m fuel).final ∧
    (runMvp3 app ⟨ctx, 0#32⟩ fuel).steps = (Spec.run (specProg app) m fuel).steps := by
  have h3 := mvp3_transparent app ⟨ctx, 0#32⟩ fuel (spec_wfAccesses app hw ctx m hR hsz fuel hwf)
  have h1 := Props.C01.mvp1_correct app hw ctx m hR fuel
  unfold Props.C01.Agree at h1
  rcases hstop with hs | hs <;> rw [hs] at h1 <;> simp only at h1
  · have := h3.2.2.2.2.2 (Or.inl h1.1)
    rw [this, h3.2.1]; exact ⟨h1.2.1, h1.2.2⟩
  · have := h3.2.2.2.2.2 (Or.inr h1.1)
    rw [this, h3.2.1]; exact ⟨h1.2.1, h1.2.2⟩

/-! ### non-vacuity, and why the hypothesis is there -/

/-- fill line 0, store into it (dirty), walk 18 lines (the 16-line cache evicts line 0 and writes it back),
read the word again, return -/
def exInstrs : List Gen.Instr :=
  [.li_ { rd := 5, imm := 0#32 }, .li_ { rd := 6, imm := 1152#32 },
   .lw_ { rd := 7, offset := 0#32, rs := 5 }, .sw_ { rs := 6, rd := 5, offset := 0#32 },
   .lw_ { rd := 7, offset := 0#32, rs := 5 }, .addi_ { rd := 5, rs := 5, imm := 64#32 },
   .blt_ { rs1 := 5, rs2 := 6, label := "loop" },
   .lw_ { rd := 7, offset := 0#32, rs := 0 }, .ret_ {}]
def exApp : App := { instrs := exInstrs, labels := ⟨[("loop", 16#32)]⟩ }
def exState : Arch := ⟨{ Memory := List.replicate 1152 1#8 }, 0#32⟩

/-- the hypothesis of `mvp3_transparent` holds on a run of 60 instructions with a cached store, 18 line
fills, evictions with a dirty victim and a re-fetch; the re-read word is the stored one -/
example : wfAccesses exApp exState 80 = true ∧ GoMap.get1 (runMvp3 exApp exState 80).final.ctx.Registers 7 = 1152#32 := by
  decide +kernel

/-- `ViewInv` is satisfiable by a non-trivial state: it holds at the end of that run (by the theorem) -/
example : ViewInv (runMvp3 exApp exState 80).mmu.l1d (runMvp3 exApp exState 80).final.ctx.Memory
    (runMvp1 exApp exState 80).final.ctx.Memory :=
  (mvp3_transparent exApp exState 80 (by decide +kernel)).2.2.2.2.1

/-- The statement WITHOUT the hypothesis. -/
def Full_transparent : Prop := ∀ (app : App) (a : Arch) (fuel : Nat),
  (runMvp1 app a fuel).halt = some .ret → (runMvp3 app a fuel).final = (runMvp1 app a fuel).final

/-- an UNALIGNED word store that straddles two lines of which only the first is cached goes straight to
memory and leaves the cached copy of its first two bytes stale -/
def badInstrs : List Gen.Instr :=
  [.li_ { rd := 5, imm := 0x01020304#32 }, .lw_ { rd := 6, offset := 60#32, rs := 0 },
   .sw_ { rs := 5, rd := 0, offset := 62#32 }, .lw_ { rd := 7, offset := 60#32, rs := 0 }, .ret_ {}]
def badApp : App := { instrs := badInstrs, labels := {} }
def badState : Arch := ⟨{ Memory := List.replicate 128 0#8 }, 0#32⟩

/-- Without line-locality the caches are NOT transparent (in the model, and — the tie — in the Go code):
the second load returns the stale bytes. Such accesses are outside C05's quantifier (aligned accesses). -/
theorem not_Full_transparent : ¬ Full_transparent := by
  intro h
  have h1 : (runMvp1 badApp badState 10).halt = some .ret := by decide +kernel
  have h2 := h badApp badState 10 h1
  have h3 : GoMap.get1 (runMvp3 badApp badState 10).final.ctx.Registers 7 ≠
      GoMap.get1 (runMvp1 badApp badState 10).final.ctx.Registers 7 := by decide +kernel
  exact h3 (by rw [h2])

/-- … and the hypothesis rejects that run -/
example : wfAccesses badApp badState 10 = false := by decide +kernel

end Props.C05

/-! ## C05 on the multi-core variants (MVP-7.0 / 7.1 / 8), at the level of the MSI protocol (work package COH)

The abstract protocol model `Model.Msi` (part (b): states `st`, L1 copies `l1`, next level `mem`, requests with their
checkpoints; actions start / proceed / push / evicted / complete / snoop / flush) is tied to the real cache controllers
by the refinement replay of the C06 check (every pair of consecutive per-cycle snapshots of the real machines is
explained by model steps) and satisfies the inductive invariant `Proofs.Msi.Inv` (`Props.C06`).  From that invariant
(`Proofs/MsiCoherence.lean`): with `cur σ l` — the CURRENT VALUE of line `l`: the data of the core that holds it
Modified, else the next level — no copy anywhere is stale, a read returns `cur`, only a completing write changes `cur`
(exactly on its line, to its value), so along every history without a flush of a busy controller every read returns the
value of the last completed write (or the initial memory).  Line contents are one abstract value per line. -/

namespace Props.C05
open Model.Msi Proofs.Msi Proofs.MsiCoherence

variable {D : Type}

/-- the current value of a line: the data of its Modified holder if there is one, else the next level -/
abbrev Msi.cur (σ : Model.Msi.State D) (l : Model.Msi.Line) : D := Proofs.MsiCoherence.cur σ l

/-- **(a) no stale copy anywhere**: every resident Shared or Modified copy of a line is the current value of the line -/
theorem Msi.no_stale_copy (σ : Model.Msi.State D) (h : Inv σ) (c : Core) (l : Model.Msi.Line) (hst : σ.st c l ≠ .I) :
    σ.l1 c l = some (Msi.cur σ l) :=
  copy_is_cur h c l hst

/-- **(b) a completing read returns the current value**: a read request in its last stage (`coReadFromL1`: the L1 copy
has been sampled, `post()` has not run) holds exactly `Msi.cur` of its line … -/
theorem Msi.read_returns_cur (σ : Model.Msi.State D) (h : Inv σ) (c : Core) (r : Req D) (hr : σ.req c = some r)
    (hs : r.stage = .l1) (hrd : r.mode.isRead = true) : σ.l1 c r.line = some (Msi.cur σ r.line) :=
  Proofs.MsiCoherence.read_returns_cur h c r hr hs hrd

/-- … and that value cannot change while the read is in progress (no write to the line completes under its lock) -/
theorem Msi.cur_stable_during_read (σ : Model.Msi.State D) (h : Inv σ) (c : Core) (r : Req D) (hr : σ.req c = some r)
    (hrd : r.mode.isRead = true) (a : Action D) (ha : Safe σ a) :
    Msi.cur (Model.Msi.step σ a) r.line = Msi.cur σ r.line :=
  Proofs.MsiCoherence.cur_stable_during_read h hr hrd a ha

/-- **(c) only a completing write changes the current value**: `complete c v` of a write request of core `c` on line
`l` makes `Msi.cur l = v` and leaves every other line alone; every other safe action — start, proceed, push (fill),
evicted, a completing read, a snoop eviction, a snoop WRITE-BACK (the value moves from the L1 of the Modified holder to
the next level), an idle flush — leaves the current value of every line unchanged -/
theorem Msi.cur_step (σ : Model.Msi.State D) (h : Inv σ) (a : Action D) (ha : Safe σ a) (l : Model.Msi.Line) :
    Msi.cur (Model.Msi.step σ a) l = applyWrite (Msi.cur σ) (written σ a) l :=
  Proofs.MsiCoherence.cur_step h a ha l

/-- **every load returns the bytes most recently stored**: along every safe history from the initial state, a read
that is about to complete holds the value of the LAST COMPLETED WRITE to its line (`writesOf`: the completed writes in
order), or the initial memory if there was none -/
theorem Msi.read_returns_last_write (n : Nat) (mem : Model.Msi.Line → D) (as : List (Action D))
    (hs : SafeRun (Model.Msi.init n mem) as) (c : Core) (r : Req D)
    (hr : (Model.Msi.run (Model.Msi.init n mem) as).req c = some r) (hst : r.stage = .l1) (hrd : r.mode.isRead = true) :
    (Model.Msi.run (Model.Msi.init n mem) as).l1 c r.line =
      some (lastWrite mem (writesOf (Model.Msi.init n mem) as) r.line) :=
  Proofs.MsiCoherence.read_returns_last_write n mem as hs c r hr hst hrd

/-- the same for the current value of every line, at every point of the history -/
theorem Msi.cur_is_last_write (n : Nat) (mem : Model.Msi.Line → D) (as : List (Action D))
    (hs : SafeRun (Model.Msi.init n mem) as) (l : Model.Msi.Line) :
    Msi.cur (Model.Msi.run (Model.Msi.init n mem) as) l = lastWrite mem (writesOf (Model.Msi.init n mem) as) l := by
  have := cur_run (inv_init n mem) as hs l
  have e : Proofs.MsiCoherence.cur (Model.Msi.init n mem) = mem := funext (cur_init n mem)
  rw [e] at this
  exact this

/-! non-vacuity: two cores, line 7 (initially 107): core 0 writes 11; core 1 reads (core 0 is snooped: write-back);
core 1 writes 22 (upgrade); core 0 reads again (core 1 is snooped) -/

def Msi.cohActions : List (Action Nat) :=
  [.start 0 7 true, .proceed 0, .push 0 none, .complete 0 11,
   .start 1 7 false, .snoop 0 7 .writeBack, .proceed 1, .push 1 none, .complete 1 0,
   .start 1 7 true, .proceed 1, .complete 1 22,
   .start 0 7 false, .snoop 1 7 .writeBack, .proceed 0, .push 0 none]

def Msi.cohInit : Model.Msi.State Nat := Model.Msi.init 2 (fun l => l + 100)

theorem Msi.cohSafe : SafeRun Msi.cohInit Msi.cohActions := by
  unfold Msi.cohActions
  repeat (first | exact trivial | refine ⟨Or.inl rfl, ?_⟩)

/-- the values: after core 0's write the current value is 11 while the next level still holds 107; core 1's read (8
actions in) holds 11 and the write-back has put 11 into the next level; at the end core 0's read holds 22, the completed
writes are (7, 11), (7, 22), no core is Modified, the next level holds 22, line 8 is untouched -/
def Msi.cohAt (k : Nat) : Model.Msi.State Nat := Model.Msi.run Msi.cohInit (Msi.cohActions.take k)

example : ((Msi.cohAt 4).l1 0 7, Msi.cur (Msi.cohAt 4) 7, (Msi.cohAt 4).mem 7) = (some 11, 11, 107) := by decide
example : ((Msi.cohAt 8).l1 1 7, Msi.cur (Msi.cohAt 8) 7, (Msi.cohAt 8).mem 7) = (some 11, 11, 11) := by decide
example : ((Msi.cohAt 16).l1 0 7, Msi.cur (Msi.cohAt 16) 7, (Msi.cohAt 16).mem 7, Msi.cur (Msi.cohAt 16) 8, (Msi.cohAt 16).panic) = (some 22, 22, 22, 108, false) := by decide
example : writesOf Msi.cohInit Msi.cohActions = [(7, 11), (7, 22)] := by decide

/-- the theorem applied to that history: core 0's second read is in its last stage and holds the last completed write -/
example : (Model.Msi.run Msi.cohInit Msi.cohActions).l1 0 7 = some (lastWrite (fun l => l + 100) (writesOf Msi.cohInit Msi.cohActions) 7) := by
  have h := Msi.read_returns_last_write 2 (fun l => l + 100) Msi.cohActions Msi.cohSafe 0
  cases hr : (Model.Msi.run (Model.Msi.init 2 (fun l => l + 100)) Msi.cohActions).req 0 with
  | none => exact absurd hr (by decide)
  | some r =>
    have hl : r.line = 7 := by
      have : ((Model.Msi.run (Model.Msi.init 2 (fun l => l + 100)) Msi.cohActions).req 0).map (·.line) = some 7 := by decide
      rw [hr] at this; simpa using this
    have hm : r.mode.isRead = true := by
      have : ((Model.Msi.run (Model.Msi.init 2 (fun l => l + 100)) Msi.cohActions).req 0).map (·.mode.isRead) = some true := by decide
      rw [hr] at this; simpa using this
    have hs : r.stage = .l1 := by
      have : ((Model.Msi.run (Model.Msi.init 2 (fun l => l + 100)) Msi.cohActions).req 0).map (fun r => isWait r.stage || (match r.stage with | .l1 => false | _ => true)) = some false := by decide
      rw [hr] at this
      simp only [Option.map_some, Option.some.injEq] at this
      cases hst : r.stage <;> simp [hst, isWait] at this ⊢
    have := h r hr hs hm
    rw [hl] at this
    exact this

end Props.C05

/-! ## MVP-6.0 (package R60d): memory reads — the L3 cache is transparent, for every number of execute and write units

The class `Model.Mvp60.StraightLineLdR`: straight-line programs with `lb`/`lh`/`lw` (no store, no branch or jump, no
`div`/`rem`) and `ret` anywhere (the run ends at the first one); `Model.Mvp60.StraightLineLdRet` is its sub-class with a `ret`
as the LAST instruction of the program text only, `Model.Mvp60.StraightLineLd` is its sub-class without `ret`.  With loads the machine completes instructions OUT OF ORDER: a
load waits in its execute unit (50 ticks on an L3 hit, 309 on a miss, longer when another unit is already fetching its line)
while the other units execute younger instructions; the write bus then carries results in completion order.  What keeps this
correct is in-order ISSUE with the three scoreboard checks of `isDataHazard3` (`Proofs.Mvp60Ld.BackO`): an instruction is
issued only when no instruction in flight writes a register it reads or writes, and none reads a register it writes; so every
instruction reads the register values of the unpipelined run, a register nobody in flight still has to write holds the
unpipelined run's value, and two results on the write bus never write the same register.  The L3 (it sits in the L1D slot of
`Model.Mmu`) stays coherent with the ONE flat memory (`Proofs.Mmu.Coh`; without stores every line is clean, an evicted line
is written back unchanged): a lookup returns the flat-memory bytes (`Proofs.Mvp60Ld.l3_lookup`), a miss announces the line in
`pendings`, a second request for that line waits, the fill makes it resident (`Proofs.Mvp60Ld.l3_fill`); the final `flush`
leaves the flat memory.  A `ret` is issued like any instruction, may be executed while older loads still wait, and puts the
machine into its two drain loops (busy execute units, then write units): at their end everything older has been written.
`div`/`rem` are excluded because their error value would have to be ordered against the results around it; stores and
branches are the classes of KF-ooo-mem / KF-ooo-flush-load and are not claimed.  With a `ret` FOLLOWED by further instructions
the machine WAS wrong on two and more units (R60-defect-2: the decode unit went on decoding in the cycle of the `ret`); since
/repo's fix the decode unit stops at a `ret`, and `mvp60_readonly_retany_correct` covers `ret` anywhere
(`mvp60_ret_overtaken_fixed` below is the former counterexample). -/
namespace Props.C05

/-- **C05 for MVP-6.0 on straight-line programs with memory reads and `ret` (safety), every number `K` of execute and write
units.**  Every parsed program of `Model.Mvp60.StraightLineLdR` (`lb`/`lh`/`lw` allowed, no store, no branch or jump, no
`div`/`rem`; `ret` ANYWHERE — the run ends at the first one), every initial state related to a specification machine (memory
not larger than 2^31 − 64 bytes) with fresh scoreboards, every fuel and tick budget: if the run of the MVP-6.0 model ends (not
with a Go panic) and the specification run ends within its fuel, they end the same way (`ret`, or past the last instruction),
the final registers of the model are the specification's, and the memory — after the final flush of L3 — is the
specification's: untouched.  True since /repo's fix of R60-defect-2 (the decode unit stops at a `ret`): the proof uses that
only the youngest decoded instruction can be a `ret` (`Proofs.Mvp60Ld.RetInv`, `decodeLoop_ret`). -/
theorem mvp60_readonly_retany_correct (app : App) (hw : WfApp app) (hcls : Model.Mvp60.StraightLineLdR app = true)
    (ctx : Model.Context) (m : Spec.Machine) (hR : Rel ctx m) (hmsz : m.mem.size + 64 ≤ 2 ^ 31)
    (hpw : ∀ r, GoMap.get1 ctx.PendingWriteRegisters r = 0) (hpr : ∀ r, GoMap.get1 ctx.PendingReadRegisters r = 0)
    (K fuel ticks : Nat) (hk : Halt) (hh : (Model.Mvp60.run app ctx K K ticks).halt = some hk) (hnp : ∀ w, hk ≠ .panic w) :
    Props.C01.Agree4 (Spec.run (specProg app) m fuel) hk (Model.Mvp60.run app ctx K K ticks).final.ctx := by
  have h1 := Props.C01.mvp1_correct app hw ctx m hR fuel
  unfold Props.C01.Agree at h1
  unfold Props.C01.Agree4
  -- the unpipelined machine stops where the model stopped, in the same way
  have main : (∀ why, (Spec.run (specProg app) m fuel).stop ≠ .notWf why) →
      ∃ (n : Nat) (aN : Model.Seq.Arch), (hk = .offEnd ∨ hk = .ret) ∧
        (runMvp1 app ⟨ctx, 0#32⟩ (n + (0 + 1))).halt = some hk ∧ (runMvp1 app ⟨ctx, 0#32⟩ (n + (0 + 1))).final = aN ∧
        (∀ reg, GoMap.get1 (Model.Mvp60.run app ctx K K ticks).final.ctx.Registers reg = GoMap.get1 aN.ctx.Registers reg) ∧
        (Model.Mvp60.run app ctx K K ticks).final.ctx.Memory = ctx.Memory ∧ aN.ctx.Memory = ctx.Memory := by
    intro hwf
    obtain ⟨hp, hl⟩ := Proofs.Mvp60Ld.progLd_of_spec app hw hcls ctx m hR hmsz fuel hwf
    obtain ⟨n, aN, hN, hpc, hcase, hregs, hmem, hmemN⟩ := Proofs.Mvp60Ld.mvp60_ld_refines app ctx hp hl K ticks hk hpw hpr hh hnp
    have key : ∃ c, stepArch Proofs.Mvp4.dc app aN = .halt hk c := by
      rcases hcase with ⟨rfl, rfl⟩ | ⟨rfl, i, hi, hisret⟩
      · exact Proofs.Mvp60Sl.stepArch_offEnd app aN app.instrs.length hpc hw.small (Nat.le_refl _) (Nat.le_refl _)
      · exact Proofs.Mvp60Ld.ret_step app hw.small aN n i hpc hi hisret
    obtain ⟨c, hc⟩ := key
    obtain ⟨g1, g2⟩ := Proofs.Mvp4.run_halts mvp1Fetch app hN hc 0
    exact ⟨n, aN, by rcases hcase with ⟨rfl, _⟩ | ⟨rfl, _⟩ <;> simp, g1, g2, hregs, hmem, hmemN⟩
  cases hstop : (Spec.run (specProg app) m fuel).stop with
  | notWf w => trivial
  | ret =>
    obtain ⟨n, aN, _, g1, g2, hregs, hmem, hmemN⟩ := main (by intro why hc; rw [hstop] at hc; cases hc)
    rw [hstop] at h1
    simp only at h1 ⊢
    obtain ⟨rfl, u2⟩ := Proofs.Mvp4.run_halt_unique mvp1Fetch mvp1Fetch app ⟨ctx, 0#32⟩ _ fuel hk .ret g1 h1.1
    have hfin : aN = (runMvp1 app ⟨ctx, 0#32⟩ fuel).final := by rw [← g2]; exact u2
    refine ⟨rfl, fun r => ?_, ?_⟩
    · rw [hregs r, hfin]; exact h1.2.1.regs r
    · rw [hmem, ← h1.2.1.mem, ← hfin, hmemN]
  | error er =>
    obtain ⟨n, aN, hcase, g1, _⟩ := main (by intro why hc; rw [hstop] at hc; cases hc)
    rw [hstop] at h1
    simp only at h1 ⊢
    have := (Proofs.Mvp4.run_halt_unique mvp1Fetch mvp1Fetch app ⟨ctx, 0#32⟩ _ fuel hk .err g1 h1.1).1
    rcases hcase with rfl | rfl <;> cases this
  | offEnd =>
    obtain ⟨n, aN, _, g1, g2, hregs, hmem, hmemN⟩ := main (by intro why hc; rw [hstop] at hc; cases hc)
    rw [hstop] at h1
    simp only at h1 ⊢
    obtain ⟨rfl, u2⟩ := Proofs.Mvp4.run_halt_unique mvp1Fetch mvp1Fetch app ⟨ctx, 0#32⟩ _ fuel hk .offEnd g1 h1.1
    have hfin : aN = (runMvp1 app ⟨ctx, 0#32⟩ fuel).final := by rw [← g2]; exact u2
    refine ⟨rfl, fun r => ?_, ?_⟩
    · rw [hregs r, hfin]; exact h1.2.1.regs r
    · rw [hmem, ← h1.2.1.mem, ← hfin, hmemN]

/-- **the same without the hypothesis "not a Go panic"**: on the class no run ends with a Go panic when the specification run
is well-formed (`Proofs.Mvp60Ld.mvp60_ld_never_panics`, `Props.C07.mvp60_readonly_never_panics`), and when it is not
well-formed nothing is claimed — so EVERY way the model run ends agrees with the specification run. -/
theorem mvp60_readonly_retany_safe (app : App) (hw : WfApp app) (hcls : Model.Mvp60.StraightLineLdR app = true)
    (ctx : Model.Context) (m : Spec.Machine) (hR : Rel ctx m) (hmsz : m.mem.size + 64 ≤ 2 ^ 31)
    (hpw : ∀ r, GoMap.get1 ctx.PendingWriteRegisters r = 0) (hpr : ∀ r, GoMap.get1 ctx.PendingReadRegisters r = 0)
    (K fuel ticks : Nat) (hk : Halt) (hh : (Model.Mvp60.run app ctx K K ticks).halt = some hk) :
    Props.C01.Agree4 (Spec.run (specProg app) m fuel) hk (Model.Mvp60.run app ctx K K ticks).final.ctx := by
  cases hstop : (Spec.run (specProg app) m fuel).stop with
  | notWf w => unfold Props.C01.Agree4; rw [hstop]; trivial
  | _ =>
    refine mvp60_readonly_retany_correct app hw hcls ctx m hR hmsz hpw hpr K fuel ticks hk hh ?_
    intro w hc
    subst hc
    exact Proofs.Mvp60Ld.mvp60_ld_never_panics app ctx
      (Proofs.Mvp60Ld.progLd_of_spec app hw hcls ctx m hR hmsz fuel (by intro why hc; rw [hstop] at hc; cases hc)).1 K ticks hpw hpr w hh

/-- **C05 for MVP-6.0 on straight-line programs with memory reads and a final `ret`** (`Model.Mvp60.StraightLineLdRet`: a `ret`
as the last instruction only — the class that was true also before the fix of R60-defect-2): a case of
`mvp60_readonly_retany_correct`. -/
theorem mvp60_readonly_ret_correct (app : App) (hw : WfApp app) (hcls : Model.Mvp60.StraightLineLdRet app = true)
    (ctx : Model.Context) (m : Spec.Machine) (hR : Rel ctx m) (hmsz : m.mem.size + 64 ≤ 2 ^ 31)
    (hpw : ∀ r, GoMap.get1 ctx.PendingWriteRegisters r = 0) (hpr : ∀ r, GoMap.get1 ctx.PendingReadRegisters r = 0)
    (K fuel ticks : Nat) (hk : Halt) (hh : (Model.Mvp60.run app ctx K K ticks).halt = some hk) (hnp : ∀ w, hk ≠ .panic w) :
    Props.C01.Agree4 (Spec.run (specProg app) m fuel) hk (Model.Mvp60.run app ctx K K ticks).final.ctx :=
  mvp60_readonly_retany_correct app hw
    (by simp only [Model.Mvp60.StraightLineLdRet, Bool.and_eq_true] at hcls; exact hcls.2) ctx m hR hmsz hpw hpr K fuel ticks hk hh hnp

/-- the class without `ret` is a sub-class -/
theorem mvp60_ld_sub (app : App) (h : Model.Mvp60.StraightLineLd app = true) : Model.Mvp60.StraightLineLdRet app = true := by
  simp only [Model.Mvp60.StraightLineLd, Model.Mvp60.StraightLineLdRet, Bool.and_eq_true, List.all_eq_true] at h ⊢
  refine ⟨fun i hi => h i (List.dropLast_subset _ hi), fun i hi => ?_⟩
  have := h i hi
  simp only [Model.Mvp60.ldInstr, Model.Mvp60.ldrInstr, Bool.and_eq_true, Bool.not_eq_true'] at this ⊢
  exact ⟨⟨this.1.1.1, this.1.1.2⟩, this.2⟩

/-- **C05 for MVP-6.0 on straight-line programs with memory reads (safety), every number `K` of execute and write units**:
the case without `ret` of `mvp60_readonly_ret_correct` (the run ends past the last instruction). -/
theorem mvp60_readonly_correct (app : App) (hw : WfApp app) (hcls : Model.Mvp60.StraightLineLd app = true)
    (ctx : Model.Context) (m : Spec.Machine) (hR : Rel ctx m) (hmsz : m.mem.size + 64 ≤ 2 ^ 31)
    (hpw : ∀ r, GoMap.get1 ctx.PendingWriteRegisters r = 0) (hpr : ∀ r, GoMap.get1 ctx.PendingReadRegisters r = 0)
    (K fuel ticks : Nat) (hk : Halt) (hh : (Model.Mvp60.run app ctx K K ticks).halt = some hk) (hnp : ∀ w, hk ≠ .panic w) :
    Props.C01.Agree4 (Spec.run (specProg app) m fuel) hk (Model.Mvp60.run app ctx K K ticks).final.ctx :=
  mvp60_readonly_ret_correct app hw (mvp60_ld_sub app hcls) ctx m hR hmsz hpw hpr K fuel ticks hk hh hnp

/-- Non-vacuity: `Proofs.Mvp60LdWitness.ldApp` — two `lw` of one cold line (on two units the second finds the line in
`pendings` and waits in `prepare` while the first waits for memory: `ld_pending`), an `add` of their results, an `lb` that hits
the now resident line, an `lh` of a second line — is well-formed and in the class, its specification run ends past the end,
and the model with 1, 2 and 4 units ends past the end with the registers of MVP-1 and the memory untouched -/
example : WfApp Proofs.Mvp60LdWitness.ldApp ∧ Model.Mvp60.StraightLineLd Proofs.Mvp60LdWitness.ldApp = true ∧
    (Spec.run (specProg Proofs.Mvp60LdWitness.ldApp)
      { regs := Array.replicate 32 0#32, mem := ((List.range 128).map (fun i => BitVec.ofNat 8 (i + 1))).toArray } 50).stop = .offEnd ∧
    ((Model.Mvp60.run Proofs.Mvp60LdWitness.ldApp Proofs.Mvp60LdWitness.ctxL 2 2 320).final.pendings.length,
      (Model.Mvp60.run Proofs.Mvp60LdWitness.ldApp Proofs.Mvp60LdWitness.ctxL 2 2 320).final.eus.map Proofs.Mvp60LdWitness.coCode,
      (Model.Mvp60.run Proofs.Mvp60LdWitness.ldApp Proofs.Mvp60LdWitness.ctxL 2 2 320).final.executed) = (1, [3, 1], 0) ∧
    Proofs.Mvp60LdWitness.obsL (Model.Mvp60.run Proofs.Mvp60LdWitness.ldApp Proofs.Mvp60LdWitness.ctxL 1 1 3000).halt
        (Model.Mvp60.run Proofs.Mvp60LdWitness.ldApp Proofs.Mvp60LdWitness.ctxL 1 1 3000).final.ctx =
      Proofs.Mvp60LdWitness.obsL (runMvp1 Proofs.Mvp60LdWitness.ldApp ⟨Proofs.Mvp60LdWitness.ctxL, 0⟩ 20).halt
        (runMvp1 Proofs.Mvp60LdWitness.ldApp ⟨Proofs.Mvp60LdWitness.ctxL, 0⟩ 20).final.ctx ∧
    Proofs.Mvp60LdWitness.obsL (Model.Mvp60.run Proofs.Mvp60LdWitness.ldApp Proofs.Mvp60LdWitness.ctxL 2 2 3000).halt
        (Model.Mvp60.run Proofs.Mvp60LdWitness.ldApp Proofs.Mvp60LdWitness.ctxL 2 2 3000).final.ctx =
      Proofs.Mvp60LdWitness.obsL (runMvp1 Proofs.Mvp60LdWitness.ldApp ⟨Proofs.Mvp60LdWitness.ctxL, 0⟩ 20).halt
        (runMvp1 Proofs.Mvp60LdWitness.ldApp ⟨Proofs.Mvp60LdWitness.ctxL, 0⟩ 20).final.ctx ∧
    Proofs.Mvp60LdWitness.obsL (Model.Mvp60.run Proofs.Mvp60LdWitness.ldApp Proofs.Mvp60LdWitness.ctxL 4 4 3000).halt
        (Model.Mvp60.run Proofs.Mvp60LdWitness.ldApp Proofs.Mvp60LdWitness.ctxL 4 4 3000).final.ctx =
      Proofs.Mvp60LdWitness.obsL (runMvp1 Proofs.Mvp60LdWitness.ldApp ⟨Proofs.Mvp60LdWitness.ctxL, 0⟩ 20).halt
        (runMvp1 Proofs.Mvp60LdWitness.ldApp ⟨Proofs.Mvp60LdWitness.ctxL, 0⟩ 20).final.ctx :=
  ⟨Proofs.Mvp60LdWitness.ld_wf, Proofs.Mvp60LdWitness.ld_class.1, Proofs.Mvp60LdWitness.ld_spec, Proofs.Mvp60LdWitness.ld_pending,
   Proofs.Mvp60LdWitness.ld_p1.trans Proofs.Mvp60LdWitness.ld_seq.symm, Proofs.Mvp60LdWitness.ld_p2.trans Proofs.Mvp60LdWitness.ld_seq.symm,
   Proofs.Mvp60LdWitness.ld_p4.trans Proofs.Mvp60LdWitness.ld_seq.symm⟩

/-- Non-vacuity of `mvp60_readonly_ret_correct`: `Proofs.Mvp60LdWitness.ldrApp` (`ldApp` followed by `ret`) is well-formed and
in the class (not in the class without `ret`), its specification run ends with `ret`; on two units the `ret` is executed while
the last load still waits for memory — after 800 ticks the machine is in its first drain loop with one busy unit
(`ldr_drain`) — and the model with 1, 2 and 4 units ends with `ret`, the registers of MVP-1 and the memory untouched -/
example : WfApp Proofs.Mvp60LdWitness.ldrApp ∧ Model.Mvp60.StraightLineLdRet Proofs.Mvp60LdWitness.ldrApp = true ∧
    Model.Mvp60.StraightLineLd Proofs.Mvp60LdWitness.ldrApp = false ∧
    (Spec.run (specProg Proofs.Mvp60LdWitness.ldrApp)
      { regs := Array.replicate 32 0#32, mem := ((List.range 128).map (fun i => BitVec.ofNat 8 (i + 1))).toArray } 50).stop = .ret ∧
    ((Model.Mvp60.run Proofs.Mvp60LdWitness.ldrApp Proofs.Mvp60LdWitness.ctxL 2 2 800).final.mode == .retA,
      (Model.Mvp60.run Proofs.Mvp60LdWitness.ldrApp Proofs.Mvp60LdWitness.ctxL 2 2 800).final.eus.map Proofs.Mvp60LdWitness.coCode) =
      (true, [3, 0]) ∧
    Proofs.Mvp60LdWitness.obsL (Model.Mvp60.run Proofs.Mvp60LdWitness.ldrApp Proofs.Mvp60LdWitness.ctxL 1 1 3000).halt
        (Model.Mvp60.run Proofs.Mvp60LdWitness.ldrApp Proofs.Mvp60LdWitness.ctxL 1 1 3000).final.ctx =
      Proofs.Mvp60LdWitness.obsL (runMvp1 Proofs.Mvp60LdWitness.ldrApp ⟨Proofs.Mvp60LdWitness.ctxL, 0⟩ 20).halt
        (runMvp1 Proofs.Mvp60LdWitness.ldrApp ⟨Proofs.Mvp60LdWitness.ctxL, 0⟩ 20).final.ctx ∧
    Proofs.Mvp60LdWitness.obsL (Model.Mvp60.run Proofs.Mvp60LdWitness.ldrApp Proofs.Mvp60LdWitness.ctxL 2 2 3000).halt
        (Model.Mvp60.run Proofs.Mvp60LdWitness.ldrApp Proofs.Mvp60LdWitness.ctxL 2 2 3000).final.ctx =
      Proofs.Mvp60LdWitness.obsL (runMvp1 Proofs.Mvp60LdWitness.ldrApp ⟨Proofs.Mvp60LdWitness.ctxL, 0⟩ 20).halt
        (runMvp1 Proofs.Mvp60LdWitness.ldrApp ⟨Proofs.Mvp60LdWitness.ctxL, 0⟩ 20).final.ctx ∧
    Proofs.Mvp60LdWitness.obsL (Model.Mvp60.run Proofs.Mvp60LdWitness.ldrApp Proofs.Mvp60LdWitness.ctxL 4 4 3000).halt
        (Model.Mvp60.run Proofs.Mvp60LdWitness.ldrApp Proofs.Mvp60LdWitness.ctxL 4 4 3000).final.ctx =
      Proofs.Mvp60LdWitness.obsL (runMvp1 Proofs.Mvp60LdWitness.ldrApp ⟨Proofs.Mvp60LdWitness.ctxL, 0⟩ 20).halt
        (runMvp1 Proofs.Mvp60LdWitness.ldrApp ⟨Proofs.Mvp60LdWitness.ctxL, 0⟩ 20).final.ctx :=
  ⟨Proofs.Mvp60LdWitness.ldr_wf, Proofs.Mvp60LdWitness.ldr_class.1, Proofs.Mvp60LdWitness.ldr_class.2, Proofs.Mvp60LdWitness.ldr_spec,
   Proofs.Mvp60LdWitness.ldr_drain,
   Proofs.Mvp60LdWitness.ldr_p1.trans Proofs.Mvp60LdWitness.ldr_seq.symm, Proofs.Mvp60LdWitness.ldr_p2.trans Proofs.Mvp60LdWitness.ldr_seq.symm,
   Proofs.Mvp60LdWitness.ldr_p4.trans Proofs.Mvp60LdWitness.ldr_seq.symm⟩

/-- **R60-defect-2 is fixed: nothing behind a `ret` is executed.**  `Proofs.Mvp60LdWitness.retApp` = `addi t2,t2,0;
lw t0,0(zero); lw t1,64(zero); lw t3,128(zero); lw t4,192(zero); ret; addi a0,zero,1` on 256 bytes: every instruction is of the
class `Model.Mvp60.StraightLineLdR` but the `ret` is not the last one (so it is a case of `mvp60_readonly_retany_correct` —
this theorem is its non-vacuity witness: well-formed, in the class, specification run ends `ret` — and not of
`mvp60_readonly_ret_correct`); the unpipelined machine and
the MVP-6.0 model with 1, 2 and 4 execute/write units return with `a0 = 0` (registers `t0 t1 a0`).  Before /repo's fix of
`decodeUnit.cycle` (it went on decoding in the cycle in which it saw the `ret`; `Model.Mvp60.decodeLoop` mirrors the fix) the
machines mvp6-0 … mvp7-1 and this model returned with `a0 = 1` on two and on four units: the `addi` was decoded in the same cycle
as the `ret`, issued one cycle after it, both waited on the execute bus while every unit held a load, two units became free in
one cycle, the second one executed the `addi`, and the drain loops after the `ret` wrote its result
(/verif/.work/reports/R60-defect-2.md). -/
theorem mvp60_ret_overtaken_fixed :
    WfApp Proofs.Mvp60LdWitness.retApp ∧ Model.Mvp60.StraightLineLdR Proofs.Mvp60LdWitness.retApp = true ∧
    (Spec.run (specProg Proofs.Mvp60LdWitness.retApp)
      { regs := Array.replicate 32 0#32, mem := ((List.range 256).map (fun i => BitVec.ofNat 8 (i + 1))).toArray } 50).stop = .ret ∧
    Proofs.Mvp60LdWitness.retApp.instrs.all Model.Mvp60.ldrInstr = true ∧
    Model.Mvp60.StraightLineLdRet Proofs.Mvp60LdWitness.retApp = false ∧
    Proofs.Mvp60LdWitness.obsM (runMvp1 Proofs.Mvp60LdWitness.retApp ⟨Proofs.Mvp60LdWitness.ctxM, 0⟩ 20).halt
        (runMvp1 Proofs.Mvp60LdWitness.retApp ⟨Proofs.Mvp60LdWitness.ctxM, 0⟩ 20).final.ctx =
      (some .ret, [0x04030201#32, 0x44434241#32, 0#32]) ∧
    Proofs.Mvp60LdWitness.obsM (Model.Mvp60.run Proofs.Mvp60LdWitness.retApp Proofs.Mvp60LdWitness.ctxM 1 1 3000).halt
        (Model.Mvp60.run Proofs.Mvp60LdWitness.retApp Proofs.Mvp60LdWitness.ctxM 1 1 3000).final.ctx =
      (some .ret, [0x04030201#32, 0x44434241#32, 0#32]) ∧
    Proofs.Mvp60LdWitness.obsM (Model.Mvp60.run Proofs.Mvp60LdWitness.retApp Proofs.Mvp60LdWitness.ctxM 2 2 3000).halt
        (Model.Mvp60.run Proofs.Mvp60LdWitness.retApp Proofs.Mvp60LdWitness.ctxM 2 2 3000).final.ctx =
      (some .ret, [0x04030201#32, 0x44434241#32, 0#32]) ∧
    Proofs.Mvp60LdWitness.obsM (Model.Mvp60.run Proofs.Mvp60LdWitness.retApp Proofs.Mvp60LdWitness.ctxM 4 4 3000).halt
        (Model.Mvp60.run Proofs.Mvp60LdWitness.retApp Proofs.Mvp60LdWitness.ctxM 4 4 3000).final.ctx =
      (some .ret, [0x04030201#32, 0x44434241#32, 0#32]) :=
  ⟨Proofs.Mvp60LdWitness.ret_wf, Proofs.Mvp60LdWitness.ret_classR, Proofs.Mvp60LdWitness.ret_spec,
   Proofs.Mvp60LdWitness.ret_class.1, Proofs.Mvp60LdWitness.ret_class.2, Proofs.Mvp60LdWitness.ret_seq, Proofs.Mvp60LdWitness.ret_p1,
   Proofs.Mvp60LdWitness.ret_p2, Proofs.Mvp60LdWitness.ret_p4⟩

/-- **Totality for MVP-6.0 on straight-line programs with memory reads and `ret`**: for every parsed program of
`Model.Mvp60.StraightLineLdR`, every initial state related to a specification machine (memory not larger than 2^31 − 64 bytes)
with FRESH scoreboards, and every number `K ≥ 1` of execute and write units: if the specification run is well-formed and ends,
the run of the model ends within some tick budget — with `ret` or past the end, never with a Go panic (no deadlock, no
livelock; straight-line programs cannot raise a defined error).

Why the out-of-order pipeline always moves (`Proofs/Mvp60LdLive.lean`, `Proofs/Mvp60LdTerm.lean`): a measure over the whole
pipeline (`Proofs.Mvp60Ld.psiN`: the fetch unit and the decode bus as in R60c, 406 per runner in the control unit, 403 per runner
on the execute bus, per execute unit 400 for a held runner that has not been looked up and 3 + the countdown for one that waits
for L3 or memory, 1 per result on the write bus) never grows and decreases in every tick that does not end the run
(`tick_normal`, `tick_retA`; the second drain loop after a `ret` by `2·|buffer| + |queue|` of the write bus, `tick_retB`).  A
unit that makes no progress is idle with nothing readable on the execute bus, or holds a runner it cannot prepare: no room on
the write bus (then a write unit takes a result in this tick — what waits in a bus buffer is due at the next `Connect`), or its
line is being fetched (then the fetching unit counts down: `PendMw`, every pending line is being fetched by a unit).  With all
units idle and the execute bus empty the control unit issues the oldest runner — nothing in flight means no scoreboard entry
(`BackU`, the converse of `BackO.sbW/sbR`) —, or the decode unit decodes, or the fetch unit emits or counts down; or everything
is empty and the run ends.  A decode unit that has seen the `ret` cannot be the reason of a standstill in the normal loop: the
`ret` is then in flight (`RetPend`). -/
theorem mvp60_readonly_total (app : App) (hw : WfApp app) (hcls : Model.Mvp60.StraightLineLdR app = true)
    (ctx : Model.Context) (m : Spec.Machine) (hR : Rel ctx m) (hmsz : m.mem.size + 64 ≤ 2 ^ 31)
    (hpw : ∀ r, GoMap.get1 ctx.PendingWriteRegisters r = 0) (hpr : ∀ r, GoMap.get1 ctx.PendingReadRegisters r = 0)
    (K : Nat) (hK : 1 ≤ K) (fuel : Nat) (hwf : ∀ why, (Spec.run (specProg app) m fuel).stop ≠ .notWf why) :
    ∃ ticks hk, (Model.Mvp60.run app ctx K K ticks).halt = some hk ∧ ∀ w, hk ≠ .panic w := by
  have hp := (Proofs.Mvp60Ld.progLd_of_spec app hw hcls ctx m hR hmsz fuel hwf).1
  obtain ⟨ticks, hne⟩ := Proofs.Mvp60Ld.mvp60_ld_terminates app ctx hp K hK hpw hpr
  cases hh : (Model.Mvp60.run app ctx K K ticks).halt with
  | none => exact absurd hh hne
  | some hk =>
    refine ⟨ticks, hk, hh, fun w hc => ?_⟩
    subst hc
    exact Proofs.Mvp60Ld.mvp60_ld_never_panics app ctx hp K ticks hpw hpr w hh

/-- **safety and totality together** for the class `StraightLineLdR`, every number `K ≥ 1` of execute and write units: every
way a run of the model ends agrees with the specification run, and when the specification run is well-formed and ends, the
run of the model ends -/
theorem mvp60_readonly_correct_total (app : App) (hw : WfApp app) (hcls : Model.Mvp60.StraightLineLdR app = true)
    (ctx : Model.Context) (m : Spec.Machine) (hR : Rel ctx m) (hmsz : m.mem.size + 64 ≤ 2 ^ 31)
    (hpw : ∀ r, GoMap.get1 ctx.PendingWriteRegisters r = 0) (hpr : ∀ r, GoMap.get1 ctx.PendingReadRegisters r = 0)
    (K : Nat) (hK : 1 ≤ K) (fuel : Nat) :
    (∀ (ticks : Nat) (hk : Halt), (Model.Mvp60.run app ctx K K ticks).halt = some hk →
      Props.C01.Agree4 (Spec.run (specProg app) m fuel) hk (Model.Mvp60.run app ctx K K ticks).final.ctx) ∧
    ((∀ why, (Spec.run (specProg app) m fuel).stop ≠ .notWf why) →
      ∃ ticks hk, (Model.Mvp60.run app ctx K K ticks).halt = some hk ∧ ∀ w, hk ≠ .panic w) :=
  ⟨fun ticks hk hh => mvp60_readonly_retany_safe app hw hcls ctx m hR hmsz hpw hpr K fuel ticks hk hh,
   fun hwf => mvp60_readonly_total app hw hcls ctx m hR hmsz hpw hpr K hK fuel hwf⟩

/-- Non-vacuity of the totality hypotheses: `Proofs.Mvp60LdWitness.retApp` is well-formed and in the class, its specification run
ends with `ret`, the fresh context has empty scoreboards -/
example : WfApp Proofs.Mvp60LdWitness.retApp ∧ Model.Mvp60.StraightLineLdR Proofs.Mvp60LdWitness.retApp = true ∧
    (Spec.run (specProg Proofs.Mvp60LdWitness.retApp)
      { regs := Array.replicate 32 0#32, mem := ((List.range 256).map (fun i => BitVec.ofNat 8 (i + 1))).toArray } 50).stop = .ret ∧
    (∀ r, GoMap.get1 Proofs.Mvp60LdWitness.ctxM.PendingReadRegisters r = 0) ∧
    (∀ r, GoMap.get1 Proofs.Mvp60LdWitness.ctxM.PendingWriteRegisters r = 0) :=
  ⟨Proofs.Mvp60LdWitness.ret_wf, Proofs.Mvp60LdWitness.ret_classR, Proofs.Mvp60LdWitness.ret_spec, fun _ => rfl, fun _ => rfl⟩

end Props.C05

/-
  Props/C15.lean — C15: speculative register state commits and rolls back by
  program order.

  Objects.  `Model.Context` operations of Model/Txn.lean (hand model of
  risc/app.go, tied by the lock-step stream `c15`), `Model.Rat` (hand model of
  proc/comp/rat.go) and the REGENERATED `Gen.registerRead` (risc/opcodes.go, T1).
  Reference (Model/Txn.lean, `Model.Txn`): the list `ws` of uncommitted writes
  `(tag, reg, value)` in arrival order; *younger* = larger tag (signed int32), among
  equal tags the later write; `refCommit / refRollback s / refRead t` give the value
  of the youngest write (all / tag < s / tag ≤ t), and the old value if there is none.

  Every theorem quantifies over ALL ring lengths `L ≥ 1`, ALL contexts at the start
  of a speculation epoch (`CleanMap` / `CleanRat L`), ALL write sequences, registers,
  tags and values.  Hypotheses, all decidable:
    `WithinSlots n ws`     — at most `n` uncommitted writes per register
                             (n = 1: transaction map, n = L: rename table);
    `TagMonotonePerReg ws` — per register the writes arrive in (weakly) increasing tag order.
  The code keeps the LAST WRITTEN value, not the largest tag, so without
  `TagMonotonePerReg` the statements are false (`not_Full_C15_commit_any_order`, 3
  operations).  In map mode the read ignores the reader's tag, so the read clause is
  false there (`not_Full_C15_map_read_never_younger`, 2 operations).
-/
import MajoranaVerif.Model.Txn
import MajoranaVerif.Proofs.Txn
import MajoranaVerif.Proofs.TxnRead
import MajoranaVerif.Gen.Opcodes
open GoInt Model Model.Txn Model.Context Proofs.Txn

namespace Props.C15

/-! ## Rename table (`rat = true`): ring of `L` slots per register -/

/-- COMMIT (rename table), any `L ≥ 1`, any number of writes (also beyond the slots): every
register gets the value of its youngest uncommitted write, and keeps its value if there is none. -/
theorem rat_commit_youngest_at (L : Nat) (ctx : Context) (hc : CleanRat L ctx) (ws : List SpecWrite)
    (r : Reg) (hm : TagMonotoneAt ws r) :
    archRat (applyRat ctx ws).ratCommit r = refCommit ws r (archRat ctx r) := by
  rw [rat_commit_last hc, refCommit_mono hm]

theorem rat_commit_youngest (L : Nat) (ctx : Context) (hc : CleanRat L ctx) (ws : List SpecWrite)
    (hm : TagMonotonePerReg ws) (r : Reg) :
    archRat (applyRat ctx ws).ratCommit r = refCommit ws r (archRat ctx r) :=
  rat_commit_youngest_at L ctx hc ws r (mono_all hm r)

example : CleanRat 2 { transactionRAT := Rat.new 2 } ∧
    TagMonotonePerReg [⟨1, 5, 10⟩, ⟨2, 6, 20⟩, ⟨3, 5, 30⟩, ⟨3, 5, 31⟩, ⟨7, 5, 32⟩] := by decide

/-- ROLLBACK to tag `s` (rename table), within the slots: every register gets the value of its
youngest uncommitted write OLDER than `s`, and is UNCHANGED if there is none. -/
theorem rat_rollback_older_than_at (L : Nat) (ctx : Context) (hc : CleanRat L ctx) (ws : List SpecWrite)
    (s : Word) (r : Reg) (hs : WithinSlotsAt L ws r) (hm : TagMonotoneAt ws r) :
    archRat ((applyRat ctx ws).ratRollback s) r = refRollback s ws r (archRat ctx r) := by
  rw [rat_rollback_found hc, ringOf_within hs]
  unfold refRollback olderThan
  rw [refCommit_filter_mono _ hm]

theorem rat_rollback_older_than (L : Nat) (ctx : Context) (hc : CleanRat L ctx) (ws : List SpecWrite)
    (hs : WithinSlots L ws) (hm : TagMonotonePerReg ws) (s : Word) (r : Reg) :
    archRat ((applyRat ctx ws).ratRollback s) r = refRollback s ws r (archRat ctx r) :=
  rat_rollback_older_than_at L ctx hc ws s r (within_all hs r) (mono_all hm r)

example : CleanRat 3 { transactionRAT := Rat.new 3 } ∧
    WithinSlots 3 [⟨1, 5, 10⟩, ⟨2, 6, 20⟩, ⟨3, 5, 30⟩, ⟨4, 5, 31⟩] ∧
    TagMonotonePerReg [⟨1, 5, 10⟩, ⟨2, 6, 20⟩, ⟨3, 5, 30⟩, ⟨4, 5, 31⟩] := by decide

/-- "unchanged if there is none", with NO hypothesis on the number or the order of the writes:
if no uncommitted write to `r` is older than `s`, a rollback leaves `r` alone.  (Before the
fix of rat.go a never-written ring slot — tag 0, value 0 — could be "found".) -/
theorem rat_rollback_unchanged (L : Nat) (ctx : Context) (hc : CleanRat L ctx) (ws : List SpecWrite)
    (s : Word) (r : Reg) (hnone : ∀ w ∈ ws, w.reg = r → tagLt w.tag s = false) :
    archRat ((applyRat ctx ws).ratRollback s) r = archRat ctx r := by
  rw [rat_rollback_found hc]
  have : (ringOf L ws r).find? (fun w => tagLt w.tag s) = none := by
    rw [List.find?_eq_none]
    intro w hw
    have := mem_ringOf hw
    simp [hnone w this.1 this.2]
  rw [this]; rfl

example : ∀ w ∈ [(⟨7, 5, 10⟩ : SpecWrite), ⟨9, 5, 20⟩], w.reg = 5 → tagLt w.tag 3 = false := by decide

/-- Beyond the slots a rollback sees only the ring: the newest of the last `L` writes to `r`
whose tag is older than `s`; `r` is left alone if there is none among them.  (All writes,
all orders.) -/
theorem rat_rollback_beyond_slots (L : Nat) (ctx : Context) (hc : CleanRat L ctx) (ws : List SpecWrite)
    (s : Word) (r : Reg) :
    archRat ((applyRat ctx ws).ratRollback s) r =
      valueOr (((writesTo ws r).reverse.take L).find? (fun w => tagLt w.tag s)) (archRat ctx r) :=
  rat_rollback_found hc ws s r

/-- READ with a tag `t ≠ 0` (rename table) NEVER returns a value written by a younger
instruction: it is the value of an uncommitted write to `r` whose tag is `≤ t`, or the committed
value.  No hypothesis on the number or order of the writes. -/
theorem rat_read_never_younger (L : Nat) (ctx : Context) (hc : CleanRat L ctx) (hrat : ctx.rat = true)
    (ws : List SpecWrite) (fwd : Gen.Forward) (r : Reg) (t : Word) (hf : fwd.Register ≠ r) (ht : t ≠ 0) :
    (∃ w ∈ ws, w.reg = r ∧ tagLe w.tag t = true ∧ Gen.registerRead (applyRat ctx ws) fwd r t = w.value) ∨
      Gen.registerRead (applyRat ctx ws) fwd r t = archRat ctx r := by
  rw [Proofs.TxnRead.read_rat_tag _ _ _ _ hf (by rw [(applyRat_frame ctx ws).2.1]; exact hrat) ht,
    rat_txfind hc, (applyRat_frame ctx ws).2.2.1]
  cases hfind : (ringOf L ws r).find? (fun w => (toTU w).sequenceID.sle t) with
  | none => right; rfl
  | some w =>
    left
    have hm := mem_ringOf (List.mem_of_find?_eq_some hfind)
    have hp : (toTU w).sequenceID.sle t = true :=
      List.find?_some (p := fun (w : SpecWrite) => (toTU w).sequenceID.sle t) hfind
    exact ⟨w, hm.1, hm.2, hp, rfl⟩

/-- … and within the slots it is exactly the youngest write not younger than the reader. -/
theorem rat_read_exact_at (L : Nat) (ctx : Context) (hc : CleanRat L ctx) (hrat : ctx.rat = true)
    (ws : List SpecWrite) (fwd : Gen.Forward) (r : Reg) (t : Word) (hf : fwd.Register ≠ r) (ht : t ≠ 0)
    (hs : WithinSlotsAt L ws r) (hm : TagMonotoneAt ws r) :
    Gen.registerRead (applyRat ctx ws) fwd r t = refRead t ws r (archRat ctx r) := by
  rw [Proofs.TxnRead.read_rat_tag _ _ _ _ hf (by rw [(applyRat_frame ctx ws).2.1]; exact hrat) ht,
    rat_txfind hc, (applyRat_frame ctx ws).2.2.1]
  unfold refRead notYoungerThan
  rw [refCommit_filter_mono _ hm, ← ringOf_within hs]
  show _ = valueOr ((ringOf L ws r).find? (fun w => (toTU w).sequenceID.sle t)) _
  cases (ringOf L ws r).find? (fun w => (toTU w).sequenceID.sle t) <;> rfl

theorem rat_read_exact (L : Nat) (ctx : Context) (hc : CleanRat L ctx) (hrat : ctx.rat = true)
    (ws : List SpecWrite) (hs : WithinSlots L ws) (hm : TagMonotonePerReg ws)
    (fwd : Gen.Forward) (r : Reg) (t : Word) (hf : fwd.Register ≠ r) (ht : t ≠ 0) :
    Gen.registerRead (applyRat ctx ws) fwd r t = refRead t ws r (archRat ctx r) :=
  rat_read_exact_at L ctx hc hrat ws fwd r t hf ht (within_all hs r) (mono_all hm r)

example : (Context.mk {} {} {} {} [] false 0 (Rat.new 4) (Rat.new 4) true).rat = true ∧
    (⟨0, 0⟩ : Gen.Forward).Register ≠ 5 ∧ (3 : Word) ≠ 0 := by decide

/-- PLAIN READ (tag 0, rename table), any number of writes: the youngest uncommitted value,
the committed value if there is none. -/
theorem overflow_plain_read_at (L : Nat) (ctx : Context) (hc : CleanRat L ctx) (hrat : ctx.rat = true)
    (ws : List SpecWrite) (fwd : Gen.Forward) (r : Reg) (hf : fwd.Register ≠ r) (hm : TagMonotoneAt ws r) :
    Gen.registerRead (applyRat ctx ws) fwd r 0 = refCommit ws r (archRat ctx r) := by
  rw [Proofs.TxnRead.read_rat_plain _ _ _ hf (by rw [(applyRat_frame ctx ws).2.1]; exact hrat),
    rat_txread hc, (applyRat_frame ctx ws).2.2.1, refCommit_mono hm]
  cases (writesTo ws r).getLast? <;> rfl

theorem overflow_plain_read (L : Nat) (ctx : Context) (hc : CleanRat L ctx) (hrat : ctx.rat = true)
    (ws : List SpecWrite) (hm : TagMonotonePerReg ws) (fwd : Gen.Forward) (r : Reg)
    (hf : fwd.Register ≠ r) :
    Gen.registerRead (applyRat ctx ws) fwd r 0 = refCommit ws r (archRat ctx r) :=
  overflow_plain_read_at L ctx hc hrat ws fwd r hf (mono_all hm r)

/-- COMMIT beyond the slots (`¬ WithinSlots L ws` allowed): still the youngest value. -/
theorem overflow_commit (L : Nat) (ctx : Context) (hc : CleanRat L ctx) (ws : List SpecWrite)
    (hm : TagMonotonePerReg ws) (_hover : ¬ WithinSlots L ws) (r : Reg) :
    archRat (applyRat ctx ws).ratCommit r = refCommit ws r (archRat ctx r) :=
  rat_commit_youngest L ctx hc ws hm r

example : CleanRat 2 { transactionRAT := Rat.new 2 } ∧
    TagMonotonePerReg [⟨1, 5, 10⟩, ⟨2, 5, 20⟩, ⟨3, 5, 30⟩] ∧ ¬ WithinSlots 2 [⟨1, 5, 10⟩, ⟨2, 5, 20⟩, ⟨3, 5, 30⟩] := by
  decide

/-- a forwarded value wins over every table, in both modes -/
theorem read_forward (ctx : Context) (fwd : Gen.Forward) (r : Reg) (t : Word) (h : fwd.Register = r) :
    Gen.registerRead ctx fwd r t = fwd.Value :=
  Proofs.TxnRead.read_forward ctx fwd r t h

/-- commit / rollback start the next epoch clean, so the theorems chain over whole histories -/
theorem rat_epoch_clean (L : Nat) (ctx : Context) (hc : CleanRat L ctx) (e : Epoch) :
    CleanRat L (endRat ctx e) := by
  unfold endRat
  cases e.fin with
  | commit => exact ratCommit_clean hc _
  | rollback s => exact ratRollback_clean hc _ s

/-- ALL HISTORIES (rename table): after any sequence of epochs `writes; commit | rollback s`
the architectural value of every register is the reference's. -/
theorem rat_history (L : Nat) (ctx : Context) (hc : CleanRat L ctx) (es : List Epoch)
    (hok : ∀ e ∈ es, EpochOk L e) (r : Reg) :
    archRat (runRat ctx es) r = refHistory es r (archRat ctx r) := by
  induction es generalizing ctx with
  | nil => rfl
  | cons e rest ih =>
    have he := hok e (by simp)
    unfold runRat refHistory
    rw [List.foldl_cons, List.foldl_cons]
    have := ih (endRat ctx e) (rat_epoch_clean L ctx hc e) (fun e' h' => hok e' (by simp [h']))
    unfold runRat refHistory at this
    rw [this]
    congr 1
    unfold endRat refEnd
    cases hfin : e.fin with
    | commit => exact rat_commit_youngest L ctx hc _ he.1 r
    | rollback s =>
      have hs : WithinSlots L e.writes := by
        rcases he.2 with h | h
        · rw [hfin] at h; cases h
        · exact h
      exact rat_rollback_older_than L ctx hc _ hs he.1 s r

example : ∀ e ∈ [(⟨[⟨1, 5, 10⟩, ⟨2, 5, 20⟩, ⟨3, 5, 30⟩], .commit⟩ : Epoch), ⟨[⟨4, 5, 1⟩, ⟨6, 5, 2⟩], .rollback 5⟩],
    EpochOk 2 e := by decide

/-- `RATFlush` publishes the committed table: every register it knows gets its newest value
(the others keep theirs). -/
theorem rat_flush_publishes (ctx : Context) (hw : RatWf ctx.committedRAT) (r : Reg) :
    archMap ctx.ratFlush r = if (ctx.committedRAT.read r).2 then archRat ctx r else archMap ctx r :=
  ratFlush_arch ctx hw r

/-- `InitRAT` on a fresh committed table takes over the register file. -/
theorem init_rat_takes_registers (L : Nat) (hL : 1 ≤ L) (ctx : Context)
    (hn : (ctx.Registers.entries.map (·.1)).Nodup) (hfresh : ctx.committedRAT = Rat.new L) (r : Reg) :
    archRat ctx.initRAT r = archMap ctx r := by
  have hw : RatWf ctx.committedRAT := by rw [hfresh]; exact wf_new L hL
  unfold archRat archMap
  rw [(initRAT_read ctx hn hw r).2, get1_eq, hfresh]
  cases ctx.Registers.find? r <;> rfl

/-! ## Transaction map (`rat = false`): one slot per register -/

/-- COMMIT (map), any number of writes: the youngest uncommitted value, unchanged if none. -/
theorem map_commit_youngest_at (ctx : Context) (hc : CleanMap ctx) (ws : List SpecWrite)
    (r : Reg) (hm : TagMonotoneAt ws r) :
    archMap (applyMap ctx ws).commit r = refCommit ws r (archMap ctx r) := by
  rw [map_commit_last hc, refCommit_mono hm]

theorem map_commit_youngest (ctx : Context) (hc : CleanMap ctx) (ws : List SpecWrite)
    (hm : TagMonotonePerReg ws) (r : Reg) :
    archMap (applyMap ctx ws).commit r = refCommit ws r (archMap ctx r) :=
  map_commit_youngest_at ctx hc ws r (mono_all hm r)

example : CleanMap {} ∧ TagMonotonePerReg [⟨1, 5, 10⟩, ⟨2, 6, 20⟩, ⟨3, 5, 30⟩] := by decide

/-- ROLLBACK to `s` (map), within its one slot per register: the youngest uncommitted write older
than `s`, UNCHANGED if there is none. -/
theorem map_rollback_older_than_at (ctx : Context) (hc : CleanMap ctx) (ws : List SpecWrite)
    (s : Word) (r : Reg) (hs : WithinSlotsAt 1 ws r) :
    archMap ((applyMap ctx ws).rollback s) r = refRollback s ws r (archMap ctx r) := by
  rw [map_rollback_last hc]
  have hlen : (writesTo ws r).length ≤ 1 := hs
  unfold refRollback olderThan refCommit
  rw [writesTo_filter]
  cases hw : writesTo ws r with
  | nil => rfl
  | cons w rest =>
    rw [hw] at hlen
    have : rest = [] := by
      cases rest with
      | nil => rfl
      | cons _ _ => simp at hlen
    subst this
    simp only [List.getLast?_singleton, List.filter_cons, List.filter_nil]
    cases h : tagLt w.tag s <;> simp [youngest, youngestStep, valueOr]

theorem map_rollback_older_than (ctx : Context) (hc : CleanMap ctx) (ws : List SpecWrite)
    (hs : WithinSlots 1 ws) (s : Word) (r : Reg) :
    archMap ((applyMap ctx ws).rollback s) r = refRollback s ws r (archMap ctx r) :=
  map_rollback_older_than_at ctx hc ws s r (within_all hs r)

example : CleanMap {} ∧ WithinSlots 1 [⟨1, 5, 10⟩, ⟨2, 6, 20⟩, ⟨3, 7, 30⟩] := by decide

/-- "unchanged if there is none" (map), no hypothesis on the writes -/
theorem map_rollback_unchanged (ctx : Context) (hc : CleanMap ctx) (ws : List SpecWrite)
    (s : Word) (r : Reg) (hnone : ∀ w ∈ ws, w.reg = r → tagLt w.tag s = false) :
    archMap ((applyMap ctx ws).rollback s) r = archMap ctx r := by
  rw [map_rollback_last hc]
  cases hl : (writesTo ws r).getLast? with
  | none => rfl
  | some w =>
    have hm := mem_writesTo.mp (List.mem_of_getLast? hl)
    simp [hnone w hm.1 hm.2]

/-- Beyond its slot the map has kept only the NEWEST write to `r`: a rollback applies it if it
is older than `s` and otherwise leaves `r` alone — an older write that should survive is lost.
(All writes, all orders: this is exactly what holds.) -/
theorem map_rollback_beyond_slots_partial (ctx : Context) (hc : CleanMap ctx) (ws : List SpecWrite)
    (s : Word) (r : Reg) :
    archMap ((applyMap ctx ws).rollback s) r =
      match (writesTo ws r).getLast? with
      | some w => if tagLt w.tag s then w.value else archMap ctx r
      | none => archMap ctx r :=
  map_rollback_last hc ws s r

/-- the full rollback clause for the map without `WithinSlots` … -/
def Full_C15_map_rollback_beyond_slots : Prop :=
  ∀ (ctx : Context), CleanMap ctx → ∀ (ws : List SpecWrite), TagMonotonePerReg ws → ∀ (s : Word) (r : Reg),
    archMap ((applyMap ctx ws).rollback s) r = refRollback s ws r (archMap ctx r)

/-- … is false: `write(t0, 11, tag 1); write(t0, 33, tag 3); rollback(2)` must leave `t0 = 11`
(the write older than the branch survives) but the map only kept tag 3: `t0` stays 0.
This is OUTSIDE the property's claim (two uncommitted writes, one slot). -/
theorem not_Full_C15_map_rollback_beyond_slots : ¬ Full_C15_map_rollback_beyond_slots := by
  intro h
  have := h {} (by decide) [⟨1, 5, 11⟩, ⟨3, 5, 33⟩] (by decide) 2 5
  revert this
  decide

/-- … and it does hold when the rollback point does not fall between the writes to `r`. -/
theorem map_rollback_not_straddled_partial (ctx : Context) (hc : CleanMap ctx) (ws : List SpecWrite)
    (hm : TagMonotonePerReg ws) (s : Word) (r : Reg)
    (hns : (∀ w ∈ ws, w.reg = r → tagLt w.tag s = true) ∨ (∀ w ∈ ws, w.reg = r → tagLt w.tag s = false)) :
    archMap ((applyMap ctx ws).rollback s) r = refRollback s ws r (archMap ctx r) := by
  rw [map_rollback_last hc]
  unfold refRollback olderThan
  rw [refCommit_filter_mono _ (mono_all hm r)]
  rcases hns with hall | hnone
  · have : (writesTo ws r).filter (fun w => tagLt w.tag s) = writesTo ws r := by
      rw [List.filter_eq_self]
      intro w hw
      have := mem_writesTo.mp hw
      exact hall w this.1 this.2
    rw [this]
    cases hl : (writesTo ws r).getLast? with
    | none => rfl
    | some w =>
      have hmw := mem_writesTo.mp (List.mem_of_getLast? hl)
      simp [hall w hmw.1 hmw.2, valueOr]
  · have : (writesTo ws r).filter (fun w => tagLt w.tag s) = [] := by
      rw [List.filter_eq_nil_iff]
      intro w hw
      have := mem_writesTo.mp hw
      simp [hnone w this.1 this.2]
    rw [this]
    cases hl : (writesTo ws r).getLast? with
    | none => rfl
    | some w =>
      have hmw := mem_writesTo.mp (List.mem_of_getLast? hl)
      simp [hnone w hmw.1 hmw.2, valueOr]

/-- READ (map): the map entry wins whatever the reader's tag, so every read returns the youngest
uncommitted value (the committed one if there is none) … -/
theorem map_read_youngest_at (ctx : Context) (hc : CleanMap ctx) (hrat : ctx.rat = false)
    (ws : List SpecWrite) (fwd : Gen.Forward) (r : Reg) (t : Word) (hf : fwd.Register ≠ r)
    (hm : TagMonotoneAt ws r) :
    Gen.registerRead (applyMap ctx ws) fwd r t = refCommit ws r (archMap ctx r) := by
  rw [Proofs.TxnRead.read_map _ _ _ _ hf (by rw [(applyMap_frame ctx ws).2.1]; exact hrat),
    applyMap_txn, cleanMap_find hc, (applyMap_frame ctx ws).1, refCommit_mono hm]
  cases (writesTo ws r).getLast? <;> rfl

theorem map_read_youngest (ctx : Context) (hc : CleanMap ctx) (hrat : ctx.rat = false)
    (ws : List SpecWrite) (hm : TagMonotonePerReg ws) (fwd : Gen.Forward) (r : Reg) (t : Word)
    (hf : fwd.Register ≠ r) :
    Gen.registerRead (applyMap ctx ws) fwd r t = refCommit ws r (archMap ctx r) :=
  map_read_youngest_at ctx hc hrat ws fwd r t hf (mono_all hm r)

/-- the read clause for the map … -/
def Full_C15_map_read_never_younger : Prop :=
  ∀ (ctx : Context), CleanMap ctx → ctx.rat = false → ∀ (ws : List SpecWrite), WithinSlots 1 ws →
    ∀ (fwd : Gen.Forward) (r : Reg) (t : Word), fwd.Register ≠ r → t ≠ 0 →
      (∃ w ∈ ws, w.reg = r ∧ tagLe w.tag t = true ∧ Gen.registerRead (applyMap ctx ws) fwd r t = w.value) ∨
        Gen.registerRead (applyMap ctx ws) fwd r t = archMap ctx r

/-- … is false: `write(t0, 7, tag 5); read(t0, tag 3)` returns 7, written by a younger
instruction (`registerRead` never compares the map entry's tag with the reader's). -/
theorem not_Full_C15_map_read_never_younger : ¬ Full_C15_map_read_never_younger := by
  intro h
  have := h {} (by decide) (by decide) [⟨5, 5, 7⟩] (by decide) ⟨0, 0⟩ 5 3 (by decide) (by decide)
  revert this
  decide

/-- … and holds when no uncommitted write to `r` is younger than the reader: then the read is
exactly the reference read. -/
theorem map_read_never_younger_partial (ctx : Context) (hc : CleanMap ctx) (hrat : ctx.rat = false)
    (ws : List SpecWrite) (fwd : Gen.Forward) (r : Reg) (t : Word)
    (hf : fwd.Register ≠ r) (hm : TagMonotoneAt ws r) (hny : NoYoungerPending t r ws) :
    Gen.registerRead (applyMap ctx ws) fwd r t = refRead t ws r (archMap ctx r) := by
  rw [map_read_youngest_at ctx hc hrat ws fwd r t hf hm]
  unfold refRead notYoungerThan refCommit
  rw [writesTo_filter]
  have : (writesTo ws r).filter (fun w => tagLe w.tag t) = writesTo ws r := by
    rw [List.filter_eq_self]
    intro w hw
    have := mem_writesTo.mp hw
    exact hny w this.1 this.2
  rw [this]

example : NoYoungerPending 3 5 [⟨1, 5, 10⟩, ⟨9, 6, 20⟩, ⟨3, 5, 30⟩] := by decide

theorem map_epoch_clean (ctx : Context) (e : Epoch) : CleanMap (endMap ctx e) := by
  unfold endMap
  cases e.fin <;> rfl

/-- ALL HISTORIES (map) -/
theorem map_history (ctx : Context) (hc : CleanMap ctx) (es : List Epoch)
    (hok : ∀ e ∈ es, EpochOk 1 e) (r : Reg) :
    archMap (runMap ctx es) r = refHistory es r (archMap ctx r) := by
  induction es generalizing ctx with
  | nil => rfl
  | cons e rest ih =>
    have he := hok e (by simp)
    unfold runMap refHistory
    rw [List.foldl_cons, List.foldl_cons]
    have := ih (endMap ctx e) (map_epoch_clean ctx e) (fun e' h' => hok e' (by simp [h']))
    unfold runMap refHistory at this
    rw [this]
    congr 1
    unfold endMap refEnd
    cases hfin : e.fin with
    | commit => exact map_commit_youngest ctx hc _ he.1 r
    | rollback s =>
      have hs : WithinSlots 1 e.writes := by
        rcases he.2 with h | h
        · rw [hfin] at h; cases h
        · exact h
      exact map_rollback_older_than ctx hc _ hs s r

/-! ## Arbitrary tag orders: the code keeps the LAST WRITTEN value, not the largest tag -/

/-- the commit clause without `TagMonotonePerReg` … -/
def Full_C15_commit_any_order : Prop :=
  ∀ (ctx : Context), CleanMap ctx → ∀ (ws : List SpecWrite) (r : Reg),
    archMap (applyMap ctx ws).commit r = refCommit ws r (archMap ctx r)

/-- … is false (3 operations): `write(t0, 1, tag 2); write(t0, 2, tag 1); commit` leaves
`t0 = 2`, the value of the OLDER instruction (tag 1), because it was written last. -/
theorem not_Full_C15_commit_any_order : ¬ Full_C15_commit_any_order := by
  intro h
  have := h {} (by decide) [⟨2, 5, 1⟩, ⟨1, 5, 2⟩] 5
  revert this
  decide

/-- … and what holds for every order: commit publishes the last written value. -/
theorem commit_any_order_partial (ctx : Context) (hc : CleanMap ctx) (ws : List SpecWrite) (r : Reg) :
    archMap (applyMap ctx ws).commit r = valueOr (writesTo ws r).getLast? (archMap ctx r) :=
  map_commit_last hc ws r

/-- the same for the rename table … -/
def Full_C15_rat_commit_any_order : Prop :=
  ∀ (L : Nat) (ctx : Context), CleanRat L ctx → ∀ (ws : List SpecWrite) (r : Reg),
    archRat (applyRat ctx ws).ratCommit r = refCommit ws r (archRat ctx r)

theorem not_Full_C15_rat_commit_any_order : ¬ Full_C15_rat_commit_any_order := by
  intro h
  have := h 10 {} (by decide) [⟨2, 5, 1⟩, ⟨1, 5, 2⟩] 5
  revert this
  decide

theorem rat_commit_any_order_partial (L : Nat) (ctx : Context) (hc : CleanRat L ctx) (ws : List SpecWrite)
    (r : Reg) :
    archRat (applyRat ctx ws).ratCommit r = valueOr (writesTo ws r).getLast? (archRat ctx r) :=
  rat_commit_last hc ws r

/-- rollback of the rename table with arbitrary tag orders … -/
def Full_C15_rat_rollback_any_order : Prop :=
  ∀ (L : Nat) (ctx : Context), CleanRat L ctx → ∀ (ws : List SpecWrite), WithinSlots L ws →
    ∀ (s : Word) (r : Reg), archRat ((applyRat ctx ws).ratRollback s) r = refRollback s ws r (archRat ctx r)

/-- … is false: `write(t0, 1, tag 2); write(t0, 2, tag 1); rollback(3)` keeps 2 (written last),
the reference keeps 1 (largest tag below 3). -/
theorem not_Full_C15_rat_rollback_any_order : ¬ Full_C15_rat_rollback_any_order := by
  intro h
  have := h 10 {} (by decide) [⟨2, 5, 1⟩, ⟨1, 5, 2⟩] (by decide) 3 5
  revert this
  decide

/-! ## The clauses of the property, both tables together -/

/-- COMMIT: youngest write, unchanged if none — rename table of any length and map, any number
of writes. -/
theorem commit_youngest :
    (∀ (L : Nat) (ctx : Context), CleanRat L ctx → ∀ ws, TagMonotonePerReg ws → ∀ r,
      archRat (applyRat ctx ws).ratCommit r = refCommit ws r (archRat ctx r)) ∧
    (∀ (ctx : Context), CleanMap ctx → ∀ ws, TagMonotonePerReg ws → ∀ r,
      archMap (applyMap ctx ws).commit r = refCommit ws r (archMap ctx r)) :=
  ⟨rat_commit_youngest, map_commit_youngest⟩

/-- ROLLBACK to `s`: youngest write older than `s`, unchanged if none — within the slots. -/
theorem rollback_older_than (s : Word) :
    (∀ (L : Nat) (ctx : Context), CleanRat L ctx → ∀ ws, WithinSlots L ws → TagMonotonePerReg ws → ∀ r,
      archRat ((applyRat ctx ws).ratRollback s) r = refRollback s ws r (archRat ctx r)) ∧
    (∀ (ctx : Context), CleanMap ctx → ∀ ws, WithinSlots 1 ws → ∀ r,
      archMap ((applyMap ctx ws).rollback s) r = refRollback s ws r (archMap ctx r)) :=
  ⟨fun L ctx hc ws hs hm r => rat_rollback_older_than L ctx hc ws hs hm s r,
   fun ctx hc ws hs r => map_rollback_older_than ctx hc ws hs s r⟩

/-- READ with tag `t ≠ 0`: never a younger value — rename table unconditionally; map only when no
younger write is pending (`not_Full_C15_map_read_never_younger`). -/
theorem read_never_younger (t : Word) (ht : t ≠ 0) :
    (∀ (L : Nat) (ctx : Context), CleanRat L ctx → ctx.rat = true → ∀ ws (fwd : Gen.Forward) r, fwd.Register ≠ r →
      (∃ w ∈ ws, w.reg = r ∧ tagLe w.tag t = true ∧ Gen.registerRead (applyRat ctx ws) fwd r t = w.value) ∨
        Gen.registerRead (applyRat ctx ws) fwd r t = archRat ctx r) ∧
    (∀ (ctx : Context), CleanMap ctx → ctx.rat = false → ∀ ws (fwd : Gen.Forward) r, fwd.Register ≠ r →
      TagMonotoneAt ws r → NoYoungerPending t r ws →
      Gen.registerRead (applyMap ctx ws) fwd r t = refRead t ws r (archMap ctx r)) :=
  ⟨fun L ctx hc hrat ws fwd r hf => rat_read_never_younger L ctx hc hrat ws fwd r t hf ht,
   fun ctx hc hrat ws fwd r hf hm hny => map_read_never_younger_partial ctx hc hrat ws fwd r t hf hm hny⟩

/-! ## Order independence of the `range`-over-a-map loops of risc/app.go (reused by C08) -/

/-- `Commit`: any iteration order of `range ctx.Transaction` gives an equivalent context -/
theorem commit_order_irrelevant (ctx : Context) (hn : (ctx.Transaction.entries.map (·.1)).Nodup)
    (es : List (Reg × transactionUnit)) (hp : ctx.Transaction.entries.Perm es) :
    CtxEquiv ctx.commit (commitWith es ctx) := commitWith_perm hp hn ctx

theorem rollback_order_irrelevant (ctx : Context) (hn : (ctx.Transaction.entries.map (·.1)).Nodup)
    (s : Word) (es : List (Reg × transactionUnit)) (hp : ctx.Transaction.entries.Perm es) :
    CtxEquiv (ctx.rollback s) (rollbackWith es ctx s) := rollbackWith_perm hp hn ctx s

theorem initRAT_order_irrelevant (ctx : Context) (hn : (ctx.Registers.entries.map (·.1)).Nodup)
    (es : List (Reg × Word)) (hp : ctx.Registers.entries.Perm es) :
    CtxEquiv ctx.initRAT (initRATWith es ctx) := initRATWith_perm hp hn ctx

theorem ratCommit_order_irrelevant (ctx : Context) (hn : (ctx.transactionRAT.tab.entries.map (·.1)).Nodup)
    (es : List (Reg × transactionUnit)) (hp : ctx.transactionRAT.values.Perm es) :
    CtxEquiv ctx.ratCommit (ratApplyWith es ctx) := ratApplyWith_perm hp (keysNodup_values _ hn) ctx

theorem ratRollback_order_irrelevant (ctx : Context) (hn : (ctx.transactionRAT.tab.entries.map (·.1)).Nodup)
    (s : Word) (es : List (Reg × transactionUnit))
    (hp : (ctx.transactionRAT.findValues (fun u => u.sequenceID.slt s)).Perm es) :
    CtxEquiv (ctx.ratRollback s) (ratApplyWith es ctx) :=
  ratApplyWith_perm hp (keysNodup_findValues _ _ hn) ctx

theorem ratFlush_order_irrelevant (ctx : Context) (hn : (ctx.committedRAT.tab.entries.map (·.1)).Nodup)
    (es : List (Reg × Word)) (hp : ctx.committedRAT.values.Perm es) :
    CtxEquiv ctx.ratFlush (ratFlushWith es ctx) := ratFlushWith_perm hp (keysNodup_values _ hn) ctx

example : ([(5, (⟨1, 2⟩ : transactionUnit)), (6, ⟨3, 4⟩)].map (·.1)).Nodup ∧
    [(5, (⟨1, 2⟩ : transactionUnit)), (6, ⟨3, 4⟩)].Perm [(6, ⟨3, 4⟩), (5, ⟨1, 2⟩)] := by decide

end Props.C15

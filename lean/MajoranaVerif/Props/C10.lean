/-
  Props/C10.lean — C10 for MVP-4 (proved on the cycle-accurate model `Model.Mvp4`, tied to the Go code
  cycle-exactly): memory dependences between in-flight loads and stores are honoured on the write-buffer path.

  In MVP-4 a store whose line is resident in L1D is performed in the execute stage; a store whose line is not
  resident is queued (write bus → write unit) and performed in `ctx.Memory` later, announced meanwhile in
  `ctx.pendingWriteMemoryIntention` under its line and a fresh id.  A load stalls while its line is announced.
    * `interlock_excludes_queued_store`: no announcement for a line ⇒ no queued store touches that line;
    * `queued_stores_not_resident`: a queued store never lies in a line that is resident in L1D (so neither a
      hit nor a victim write-back can meet a stale line);
    * `load_sees_latest_older_store` (store → load): when the memory read of a load completes — L1D hit at
      issue or line fetched after the miss latency — the bytes handed to `Run` are the architectural bytes
      (all older stores included), and the load then performs exactly the sequential step;
    * `stores_commit_in_program_order` (store → store, load → store): the write unit performs the queued stores
      oldest first without changing the architectural memory — a younger store can never be overtaken, and a
      store cannot affect an older load, which has already executed (in-order execute);
    * `final_memory_sequential`: final memory = memory of the unpipelined machine (after the cache write-back).
-/
import MajoranaVerif.Proofs.Mvp4Run
import MajoranaVerif.Proofs.Mvp5Run
import MajoranaVerif.Proofs.MsiCoherence
open GoInt Model Model.Mvp4 Model.Seq Proofs.Mvp4

namespace Props.C10

/-- the store→load interlock is sound: `PendingWriteMemoryIntention(line)` false ⇒ no queued store on that line -/
theorem interlock_excludes_queued_store (s : State) (a : Arch) (hb : Back s a) (line : Int)
    (h : pendingWriteMemoryIntention s.pwmi line = false) :
    ∀ ec ∈ s.writeBus.inside, isStore ec = true → ∀ p ∈ ec.execution.MemoryChanges, lineOf p.1 ≠ line := by
  intro ec hec hs p hp heq
  have hb' : BackRel s.ctx s.pwmi s.writeBus.inside s.mmu.l1d s.eu.storeID a := hb
  have := hb'.stPw ec hec hs p hp
  rw [heq] at this
  exact pending_false h _ this

/-- a queued store never lies in a resident line of L1D -/
theorem queued_stores_not_resident (s : State) (a : Arch) (hb : Back s a) :
    ∀ ec ∈ s.writeBus.inside, isStore ec = true → ∀ p ∈ ec.execution.MemoryChanges,
      ∀ y ∈ s.mmu.l1d.lines, y.covers p.1.toInt = false := by
  have hb' : BackRel s.ctx s.pwmi s.writeBus.inside s.mmu.l1d s.eu.storeID a := hb
  exact hb'.stUncached

/-- **a load sees the latest older store**: completion of the memory read of the load `r` (the unit is in the
state `PendOk` established at issue) executes `r` with the architectural bytes — `EuPost` says the result is the
sequential step of `r` on the architectural state, whose memory includes every older store. -/
theorem load_sees_latest_older_store (app : App) (s s2 : State) (a : Arch) (eu : ExecUnit) (r : Runner) (out : EuOut)
    (hb : Back s a) (hsid : eu.storeID = s.eu.storeID) (hp : PendOk s a r)
    (hmem : eu.memory = s.eu.memory) (haddrs : eu.addrs = s.eu.addrs) (hpe : eu.pendingMemoryRead = false)
    (hpc : r.pc = a.pc) (hi : instrAt app r.pc = .ok r.instr) (hnf : NoFwd app) (hok : stepOk app a = true)
    (h : euMemDone app s eu r = .ok (s2, out)) :
    ∃ s1 : State, s1.eu.processing = eu.processing ∧ s1.fu = s.fu ∧ s1.decodeBus = s.decodeBus ∧
      s1.executeBus = s.executeBus ∧ s1.wu = s.wu ∧ s1.mode = s.mode ∧ s1.cycles = s.cycles ∧
      s1.eu.pendingMemoryRead = false ∧ s1.eu.memory = none ∧ s1.writeBus = s.writeBus ∧ Frame s1 s2 ∧
      EuPost app s1 a s2 out :=
  euMemDone_sim hb hsid hp hmem haddrs hpe hpc hi hnf hok h

/-- **stores commit in program order**: a cycle of the write unit leaves the architectural registers and memory
unchanged (the queue is consumed oldest first). -/
theorem stores_commit_in_program_order (s s1 : State) (a : Arch) (hb : Back s a)
    (h : writeCycle s = .ok s1) :
    Back s1 a ∧ (∀ ec ∈ s1.writeBus.inside, ec ∈ s.writeBus.inside) :=
  ⟨(writeCycle_back hb h).1, (writeCycle_back hb h).2.2.2.2.2.2.2.2.2.1⟩

/-- **final memory**: after the run (write buffer drained, L1D written back) `ctx.Memory` is the memory of the
unpipelined machine. -/
theorem final_memory_sequential (app : App) (hnf : NoFwd app) (ctx : Model.Context) (hc : CtxOk ctx) (fuel : Nat)
    (hok : seqOk app fuel ⟨ctx, 0#32⟩ = true) (hk : Halt)
    (hh : (Model.Mvp4.run app ctx fuel).halt = some hk) (hnp : ∀ w, hk ≠ .panic w) (hne : hk ≠ .err) :
    ∃ n, (runMvp1 app ⟨ctx, 0#32⟩ n).halt = some hk ∧
      (Model.Mvp4.run app ctx fuel).final.ctx.Memory = (runMvp1 app ⟨ctx, 0#32⟩ n).final.ctx.Memory := by
  obtain ⟨n, h1, h2⟩ := mvp4_refines_mvp1 app hnf ctx hc fuel hok hk hh hnp
  exact ⟨n, h1, (h2 hne).2⟩

/-! non-vacuity: store → load and store → store → load to one word at distance 1, uncached then cached -/

/-- `li x5,77 ; sw x5,0(x0) ; lw x6,0(x0) ; li x7,5 ; sw x7,0(x0) ; lw x8,0(x0) ; ret` -/
def exApp : App :=
  { instrs := [.li_ { rd := 5, imm := 77#32 }, .sw_ { rs := 5, rd := 0, offset := 0#32 },
               .lw_ { rd := 6, rs := 0, offset := 0#32 }, .li_ { rd := 7, imm := 5#32 },
               .sw_ { rs := 7, rd := 0, offset := 0#32 }, .lw_ { rd := 8, rs := 0, offset := 0#32 }, .ret_ {}],
    labels := {} }
def exCtx : Model.Context := { Memory := List.replicate 128 0#8 }

example : NoFwd exApp := by unfold NoFwd exApp; decide
example : CtxOk exCtx := ⟨rfl, rfl, fun r => by simp [exCtx, GoMap.get1, GoMap.get, GoMap.find?]⟩
set_option maxRecDepth 100000 in
example : seqOk exApp 8000 ⟨exCtx, 0#32⟩ = true := by decide
set_option maxRecDepth 100000 in
example : (Model.Mvp4.run exApp exCtx 8000).halt = some .ret ∧
    GoMap.get1 (Model.Mvp4.run exApp exCtx 8000).final.ctx.Registers 6 = 77#32 ∧
    GoMap.get1 (Model.Mvp4.run exApp exCtx 8000).final.ctx.Registers 8 = 5#32 ∧
    (Model.Mvp4.run exApp exCtx 8000).final.ctx.Memory.take 4 = [5#8, 0#8, 0#8, 0#8] := by decide

end Props.C10

/-! ## MVP-5 (work package MVP5)

  C10 for MVP-5, proved on the cycle-accurate model `Model.Mvp5` (tied to the Go code cycle-exactly).  Loads and
  stores take the same path as in MVP-4 (`Model.Mvp5` runs `Model.Mvp4`'s execute-unit code for every instruction
  that is not an unconditional jump — `Proofs.Mvp5.euMemDone_nonjump`, `euIssue_nonjump` — and MVP-4's write unit);
  jumps neither load nor store (`Proofs.Mvp5.jump_no_load`, `run_jump`).  The MVP-5 counterparts of the theorems
  above. -/

namespace Props.C10

/-- (MVP-5) the store→load interlock is sound -/
theorem mvp5_interlock_excludes_queued_store (s : Model.Mvp5.State) (a : Arch) (hb : Back s.base a) (line : Int)
    (h : pendingWriteMemoryIntention s.base.pwmi line = false) :
    ∀ ec ∈ s.base.writeBus.inside, isStore ec = true → ∀ p ∈ ec.execution.MemoryChanges, lineOf p.1 ≠ line :=
  interlock_excludes_queued_store s.base a hb line h

/-- (MVP-5) a queued store never lies in a resident line of L1D -/
theorem mvp5_queued_stores_not_resident (s : Model.Mvp5.State) (a : Arch) (hb : Back s.base a) :
    ∀ ec ∈ s.base.writeBus.inside, isStore ec = true → ∀ p ∈ ec.execution.MemoryChanges,
      ∀ y ∈ s.base.mmu.l1d.lines, y.covers p.1.toInt = false :=
  queued_stores_not_resident s.base a hb

/-- **a load sees the latest older store** (MVP-5): completion of the memory read of the load `r` (not a jump: jumps
do not load) is MVP-4's completion on the common part of the state, and executes `r` with the architectural bytes. -/
theorem mvp5_load_sees_latest_older_store (app : App) (s s2 : Model.Mvp5.State) (a : Arch) (eu : ExecUnit) (r : Runner)
    (out : EuOut) (hj : Proofs.Mvp5.isJump r = false)
    (hb : Back s.base a) (hsid : eu.storeID = s.base.eu.storeID) (hp : PendOk s.base a r)
    (hmem : eu.memory = s.base.eu.memory) (haddrs : eu.addrs = s.base.eu.addrs) (hpe : eu.pendingMemoryRead = false)
    (hpc : r.pc = a.pc) (hi : instrAt app r.pc = .ok r.instr) (hnf : NoFwd app) (hok : stepOk app a = true)
    (h : Model.Mvp5.euMemDone app s eu r = .ok (s2, out)) :
    ∃ b : State, s2 = { s with base := b } ∧ euMemDone app s.base eu r = .ok (b, out) ∧
    ∃ s1 : State, s1.eu.processing = eu.processing ∧ s1.fu = s.base.fu ∧ s1.decodeBus = s.base.decodeBus ∧
      s1.executeBus = s.base.executeBus ∧ s1.wu = s.base.wu ∧ s1.mode = s.base.mode ∧ s1.cycles = s.base.cycles ∧
      s1.eu.pendingMemoryRead = false ∧ s1.eu.memory = none ∧ s1.writeBus = s.base.writeBus ∧ Frame s1 b ∧
      EuPost app s1 a b out := by
  rw [Proofs.Mvp5.euMemDone_nonjump app s eu r hj] at h
  obtain ⟨b, hb4, rfl⟩ := Proofs.Mvp5.map_lift_ok h
  exact ⟨b, rfl, hb4, euMemDone_sim hb hsid hp hmem haddrs hpe hpc hi hnf hok hb4⟩

/-- **stores commit in program order** (MVP-5) -/
theorem mvp5_stores_commit_in_program_order (s s1 : Model.Mvp5.State) (a : Arch) (hb : Back s.base a)
    (h : Model.Mvp5.writeCycle s = .ok s1) :
    Back s1.base a ∧ (∀ ec ∈ s1.base.writeBus.inside, ec ∈ s.base.writeBus.inside) := by
  obtain ⟨b, hw, rfl, hb1, _⟩ := Proofs.Mvp5.writeCycle5_rel (app := { instrs := [], labels := {} }) hb h
  exact ⟨hb1, (writeCycle_back hb hw).2.2.2.2.2.2.2.2.2.1⟩

/-- **final memory** (MVP-5): after the run `ctx.Memory` is the memory of the unpipelined machine. -/
theorem mvp5_final_memory_sequential (app : App) (hnf : NoFwd app) (ctx : Model.Context) (hc : CtxOk ctx) (fuel : Nat)
    (hok : seqOk app fuel ⟨ctx, 0#32⟩ = true) (hk : Halt)
    (hh : (Model.Mvp5.run app ctx fuel).halt = some hk) (hnp : ∀ w, hk ≠ .panic w) (hne : hk ≠ .err) :
    ∃ n, (runMvp1 app ⟨ctx, 0#32⟩ n).halt = some hk ∧
      (Model.Mvp5.run app ctx fuel).final.base.ctx.Memory = (runMvp1 app ⟨ctx, 0#32⟩ n).final.ctx.Memory := by
  obtain ⟨n, h1, h2⟩ := Proofs.Mvp5.mvp5_refines_mvp1 app hnf ctx hc fuel hok hk hh hnp
  exact ⟨n, h1, (h2 hne).2⟩

/-! non-vacuity: store → jump → load and store → store → load to one word, across a call and its return -/

/-- `li x5,77 ; sw x5,0(x0) ; jal x1,F ; li x7,5 ; sw x7,0(x0) ; lw x8,0(x0) ; ret ; F: lw x6,0(x0) ; jalr x0,x1,0` -/
def exApp5 : App :=
  { instrs := [.li_ { rd := 5, imm := 77#32 }, .sw_ { rs := 5, rd := 0, offset := 0#32 }, .jal_ { rd := 1, label := "F" },
               .li_ { rd := 7, imm := 5#32 }, .sw_ { rs := 7, rd := 0, offset := 0#32 },
               .lw_ { rd := 8, rs := 0, offset := 0#32 }, .ret_ {},
               .lw_ { rd := 6, rs := 0, offset := 0#32 }, .jalr_ { rd := 0, rs := 1, imm := 0#32 }],
    labels := ⟨[("F", 28#32)]⟩ }

example : NoFwd exApp5 := by unfold NoFwd exApp5; decide
set_option maxRecDepth 100000 in
example : seqOk exApp5 8000 ⟨exCtx, 0#32⟩ = true := by decide
set_option maxRecDepth 100000 in
example : (Model.Mvp5.run exApp5 exCtx 8000).halt = some .ret ∧
    GoMap.get1 (Model.Mvp5.run exApp5 exCtx 8000).final.base.ctx.Registers 6 = 77#32 ∧
    GoMap.get1 (Model.Mvp5.run exApp5 exCtx 8000).final.base.ctx.Registers 8 = 5#32 ∧
    (Model.Mvp5.run exApp5 exCtx 8000).final.base.ctx.Memory.take 4 = [5#8, 0#8, 0#8, 0#8] := by decide

end Props.C10

/-! ## C10 on the multi-core variants (MVP-7.0 / 7.1 / 8), at the level of the MSI protocol (work package COH)

On the abstract protocol model `Model.Msi` (tied to the real cache controllers by the refinement replay of the C06 check;
invariant `Proofs.Msi.Inv`): a store takes effect exactly when its write request completes — from then on the current
value of its line (`Proofs.MsiCoherence.cur`: the Modified holder's copy, else the next level) is the stored value, for
EVERY core, until the next write to that line completes; a load that completes in between returns it, whichever core
issues it and however the line travels (write-back to the next level, refill, upgrade).  Proofs: `Proofs/MsiCoherence.lean`. -/

namespace Props.C10
open Model.Msi Proofs.Msi Proofs.MsiCoherence

variable {D : Type}

/-- **a store is visible as soon as it completes**: after `complete c v` of a write request on line `l` the current value
of `l` is `v` (and the writer's own copy is `v`: it holds the line Modified) -/
theorem Msi.write_takes_effect (σ : Model.Msi.State D) (h : Inv σ) (c : Core) (v : D) (r : Req D) (hr : σ.req c = some r)
    (hs : r.stage = .l1) (hw : r.mode.isRead = false) :
    cur (Model.Msi.step σ (.complete c v)) r.line = v := by
  rw [cur_step h (.complete c v) (Or.inl rfl)]
  have : written σ (.complete c v) = some (r.line, v) := by
    simp only [written, hr, hs, hw, Bool.false_eq_true, if_false]
  rw [this]
  simp [applyWrite]

/-- **a load sees the latest older store**: if a write of `v` to line `l` has completed (state `σ`, `cur σ l = v`) and no
write to `l` completes during the safe history `as` that follows, then every read of `l` that is about to complete at the
end of `as` — by any core — returns `v` -/
theorem Msi.read_after_write (σ : Model.Msi.State D) (h : Inv σ) (as : List (Action D)) (hs : SafeRun σ as)
    (l : Model.Msi.Line) (hnone : ∀ w ∈ writesOf σ as, w.1 ≠ l)
    (c : Core) (r : Req D) (hr : (Model.Msi.run σ as).req c = some r) (hl : r.line = l) (hst : r.stage = .l1)
    (hrd : r.mode.isRead = true) :
    (Model.Msi.run σ as).l1 c l = some (cur σ l) := by
  have hi := inv_run h as hs
  have h1 := Proofs.MsiCoherence.read_returns_cur hi c r hr hst hrd
  rw [hl] at h1
  rw [h1, cur_run h as hs l]
  congr 1
  unfold lastWrite
  generalize writesOf σ as = ws at hnone
  generalize cur σ = f
  induction ws generalizing f with
  | nil => rfl
  | cons w ws ih =>
    simp only [List.foldl_cons]
    rw [ih (fun w' hw' => hnone w' (List.mem_cons_of_mem _ hw'))]
    have := hnone w (by simp)
    simp [Ne.symm this]

/-- the order of two stores to one line is the order of their completions: the current value after both is the second one's -/
theorem Msi.last_write_wins (f : Model.Msi.Line → D) (ws : List (Model.Msi.Line × D)) (l : Model.Msi.Line) (v : D) :
    lastWrite f (ws ++ [(l, v)]) l = v := by
  unfold lastWrite
  rw [List.foldl_append]
  simp

/-- two cores, line 7: core 0 stores 11; core 1 loads (snoop write-back of core 0); core 1 stores 22; core 0 loads -/
def Msi.cohActions : List (Action Nat) :=
  [.start 0 7 true, .proceed 0, .push 0 none, .complete 0 11,
   .start 1 7 false, .snoop 0 7 .writeBack, .proceed 1, .push 1 none, .complete 1 0,
   .start 1 7 true, .proceed 1, .complete 1 22,
   .start 0 7 false, .snoop 1 7 .writeBack, .proceed 0, .push 0 none]

def Msi.cohAt (k : Nat) : Model.Msi.State Nat := Model.Msi.run (Model.Msi.init 2 (fun l => l + 100)) (Msi.cohActions.take k)

/-- Non-vacuity: after core 0's store of 11 core 1's load returns 11; after core 1's store of 22 core 0's load returns 22 -/
example : ((Msi.cohAt 8).l1 1 7, (Msi.cohAt 16).l1 0 7) = (some 11, some 22) := by decide

end Props.C10

/-
  Props/C12.lean — C12: cycle accounting follows the documented latency model
  (the part that is proved: MVP-1 exact, MVP-2 ≤ MVP-1, positivity and the
  instruction lower bound for both; the other variants are covered by the
  differential check only — see DESIGN §4 C12).

  The theorems are about `Model.Seq` (Model/SeqMachine.lean), the cycle-accurate hand
  model of proc/mvp1 and proc/mvp2 built from REGENERATED pieces: `Gen.Instr.run`,
  `Gen.InstructionType.Cycles`, `Gen.Latency.*`, `Gen.Consts.*`.  The model is tied to
  the Go machines on every run by comparing status, cycle count and final state on
  generated programs (C12/C01 correspondence).  A changed latency constant or
  `Cycles()` entry changes the generated definitions and re-opens these proofs.
-/
import MajoranaVerif.Proofs.SeqMachine
import MajoranaVerif.Proofs.Mvp3Cycles
import MajoranaVerif.Proofs.CycleTrace
import MajoranaVerif.Proofs.CycleTraceMvp3
import MajoranaVerif.Proofs.Mvp5Cycles
import MajoranaVerif.Proofs.Mvp4ValueIndep
import MajoranaVerif.Proofs.Mvp5ValueIndep
import MajoranaVerif.Proofs.Mvp60
import MajoranaVerif.Proofs.Mvp60Witness
import MajoranaVerif.Proofs.Mvp61
import MajoranaVerif.Proofs.Mvp61Witness2
import MajoranaVerif.Proofs.Mvp62
import MajoranaVerif.Proofs.Mvp62Witness
import MajoranaVerif.Proofs.Mvp63
import MajoranaVerif.Proofs.Mvp63Witness
import MajoranaVerif.Proofs.Mvp61Fwd
import MajoranaVerif.Proofs.Mvp61Cfg
import MajoranaVerif.Proofs.Mvp63MapOrder
import MajoranaVerif.Proofs.Mvp70
import MajoranaVerif.Proofs.Mvp70Witness
import MajoranaVerif.Proofs.Mvp71
import MajoranaVerif.Proofs.Mvp80
open GoInt Model.Seq Proofs.Seq

namespace Props.C12

/-- Two machines that differ only in their fetch policy go through the same architectural
states; if every fetch of the second costs at most what any fetch of the first costs, the
second is never slower. -/
theorem policy_compare {σ1 σ2} (fp1 : FetchPolicy σ1) (fp2 : FetchPolicy σ2) (dc : Int) (app : App)
    (hle : ∀ s1 s2 pc, (fp2.cost s2 pc).2 ≤ (fp1.cost s1 pc).2) :
    ∀ (fuel : Nat) (a : Arch) (s1 : σ1) (s2 : σ2) (c1 c2 : Int) (n : Nat), c2 ≤ c1 →
      (run.go fp2 dc app fuel a s2 c2 n).halt = (run.go fp1 dc app fuel a s1 c1 n).halt ∧
      (run.go fp2 dc app fuel a s2 c2 n).final = (run.go fp1 dc app fuel a s1 c1 n).final ∧
      (run.go fp2 dc app fuel a s2 c2 n).steps = (run.go fp1 dc app fuel a s1 c1 n).steps ∧
      (run.go fp2 dc app fuel a s2 c2 n).cycles ≤ (run.go fp1 dc app fuel a s1 c1 n).cycles := by
  intro fuel
  induction fuel with
  | zero => intro a s1 s2 c1 c2 n h; simp [run.go, h]
  | succ k ih =>
    intro a s1 s2 c1 c2 n h
    unfold run.go
    have hl := hle s1 s2 a.pc
    cases h1 : fp1.cost s1 a.pc with
    | mk t1 f1 =>
    cases h2 : fp2.cost s2 a.pc with
    | mk t2 f2 =>
    rw [h1, h2] at hl
    simp only at hl
    cases hs : stepArch dc app a with
    | next a' c =>
      simp only [h1, h2]
      exact ih a' t1 t2 _ _ _ (by omega)
    | halt hh c =>
      cases hh with
      | offEnd => exact ⟨rfl, rfl, rfl, h⟩
      | ret => simp only [h1, h2, true_and]; omega
      | err => simp only [h1, h2, true_and]; omega
      | panic w => simp only [h1, h2, true_and]; omega

/-- **MVP-2 is never slower than MVP-1 on the same run** — for every program, initial state and
fuel; both end the same way, in the same architectural state, after the same number of instructions. -/
theorem mvp2_le_mvp1 (app : App) (a : Arch) (fuel : Nat) :
    (runMvp2 app a fuel).halt = (runMvp1 app a fuel).halt ∧
    (runMvp2 app a fuel).final = (runMvp1 app a fuel).final ∧
    (runMvp2 app a fuel).steps = (runMvp1 app a fuel).steps ∧
    (runMvp2 app a fuel).cycles ≤ (runMvp1 app a fuel).cycles := by
  unfold runMvp2 runMvp1 run
  rw [decode_eq]
  apply policy_compare
  · intro s1 s2 pc
    simp only [mvp2Fetch, mvp1Fetch]
    split <;> simp <;> exact l1_le_mem
  · exact Int.le_refl 0

/-- the per-iteration costs (fetch excluded) of a run, in execution order -/
def costTrace (dc : Int) (app : App) : Nat → Arch → List StepCost
  | 0, _ => []
  | fuel + 1, a =>
    match stepArch dc app a with
    | .halt .offEnd _ => []
    | .halt _ c => [c]
    | .next a' c => c :: costTrace dc app fuel a'

theorem go_mvp1_sum (dc : Int) (app : App) :
    ∀ (fuel : Nat) (a : Arch) (cyc : Int) (n : Nat),
      (run.go mvp1Fetch dc app fuel a () cyc n).cycles =
        cyc + ((costTrace dc app fuel a).map (fun c => Gen.Latency.MemoryAccess + c.total)).sum := by
  intro fuel
  induction fuel with
  | zero => intro a cyc n; simp [run.go, costTrace]
  | succ k ih =>
    intro a cyc n
    unfold run.go costTrace
    cases hs : stepArch dc app a with
    | next a' c =>
      simp only [List.map_cons, List.sum_cons]
      have := ih a' (cyc + Gen.Latency.MemoryAccess + c.total) (n + 1)
      simp only [mvp1Fetch] at this ⊢
      rw [this]
      omega
    | halt hh c =>
      cases hh <;> simp [mvp1Fetch] <;> omega

/-- **MVP-1, exact**: the returned cycle count is the sum, over the executed instructions, of
fetch (`MemoryAccess`) + decode + optional memory read + execute + write-back, where each term is
the one the latency table / `Cycles()` gives (`Proofs.Seq.stepArch_next_inv` spells the terms out:
decode = `cyclesDecode`; memory read = `MemoryAccess` iff the instruction reads memory; execute =
`Cycles(type)`; write-back = `RegisterAccess` for a register result, `MemoryAccess` for a store, 0
otherwise and for the final `ret`). -/
theorem mvp1_exact (app : App) (a : Arch) (fuel : Nat) :
    (runMvp1 app a fuel).cycles =
      ((costTrace Gen.Consts.mvp1.cyclesDecode app fuel a).map
        (fun c => Gen.Latency.MemoryAccess + c.decode + c.memRead + c.execute + c.writeBack)).sum := by
  unfold runMvp1 run
  rw [go_mvp1_sum]
  simp only [StepCost.total, Int.zero_add]
  congr 1
  apply List.map_congr_left
  intro c _
  omega

/-- every started instruction costs at least one cycle, whatever the fetch policy, as long as
fetches cost something: `cycles ≥ cyc₀ + instructions` -/
theorem go_lower_bound {σ} (fp : FetchPolicy σ) (dc : Int) (hdc : 0 ≤ dc) (app : App)
    (hpos : ∀ s pc, 0 < (fp.cost s pc).2) :
    ∀ (fuel : Nat) (a : Arch) (fs : σ) (cyc : Int) (n : Nat),
      cyc + ((run.go fp dc app fuel a fs cyc n).steps : Int) - n ≤ (run.go fp dc app fuel a fs cyc n).cycles := by
  intro fuel
  induction fuel with
  | zero => intro a fs cyc n; simp [run.go]
  | succ k ih =>
    intro a fs cyc n
    unfold run.go
    have hp := hpos fs a.pc
    cases h1 : fp.cost fs a.pc with
    | mk t f =>
    rw [h1] at hp
    simp only at hp
    cases hs : stepArch dc app a with
    | next a' c =>
      simp only [h1]
      have hc := (next_cost_nonneg dc hdc app a a' c hs).2
      have := ih a' t (cyc + f + c.total) (n + 1)
      omega
    | halt hh c =>
      have hc := halt_cost_nonneg dc hdc app a hh c hs
      unfold StepCost.nonneg at hc
      cases hh <;> simp only [h1, StepCost.total] <;> omega

/-- **lower bound and positivity, MVP-1 and MVP-2**: the cycle count is at least the number of
executed instructions (issue width 1), hence positive as soon as one instruction runs. -/
theorem mvp1_lower_bound (app : App) (a : Arch) (fuel : Nat) :
    ((runMvp1 app a fuel).steps : Int) ≤ (runMvp1 app a fuel).cycles := by
  have := go_lower_bound mvp1Fetch _ (Int.le_of_lt decode1_pos) app (fun _ _ => memAccess_pos) fuel a mvp1Fetch.init 0 0
  unfold runMvp1 run
  omega

theorem mvp2_lower_bound (app : App) (a : Arch) (fuel : Nat) :
    ((runMvp2 app a fuel).steps : Int) ≤ (runMvp2 app a fuel).cycles := by
  have := go_lower_bound mvp2Fetch _ (Int.le_of_lt decode2_pos) app
    (fun s pc => by simp only [mvp2Fetch]; split <;> simp <;> first | exact l1_pos | exact memAccess_pos) fuel a
    mvp2Fetch.init 0 0
  unfold runMvp2 run
  omega

/-- **the documented latency model**, pinned: the latency table (common/latency) and the execute
latencies (`InstructionType.Cycles`): loads take 50 cycles, every other instruction 1.  The theorems
above hold for ANY table; this one states which table is the documented one, so that a changed entry
(which the regenerated model would silently follow) re-opens an obligation. -/
theorem latency_table :
    Gen.Latency.MemoryAccess = 309 ∧ Gen.Latency.L1Access = 3 ∧ Gen.Latency.L3Access = 50 ∧
    Gen.Latency.RegisterAccess = 1 ∧ Gen.Latency.Flush = 1 ∧ Gen.Consts.mvp1.cyclesDecode = 1 ∧
    Gen.Consts.mvp2.cyclesDecode = 1 := by decide

theorem cycles_table (t : Gen.InstructionType) :
    Gen.InstructionType.Cycles t = .ok (if t = .Lb ∨ t = .Lh ∨ t = .Lw then 50 else 1) := by
  cases t <;> rfl

/-- Non-vacuity: a two-instruction program on MVP-1 costs 309+1+1+1 for `li` and 309+1+1 for `ret`. -/
example :
    (runMvp1 { instrs := [.li_ { rd := 5, imm := 7#32 }, .ret_ {}], labels := {} } ⟨{}, 0#32⟩ 10).cycles = 623 ∧
    (runMvp1 { instrs := [.li_ { rd := 5, imm := 7#32 }, .ret_ {}], labels := {} } ⟨{}, 0#32⟩ 10).steps = 2 := by
  decide

/-! ### MVP-3 (work package MVP3)

`Model.Mvp3` is the cycle-accurate model of proc/mvp3 (tied to the Go machine on every run: status, CYCLE COUNT and
final state, the `m3=` field).  Its accounting per started iteration: fetch = `L1Access` on an L1I hit, `MemoryAccess`
on a miss; decode = `cyclesDecode`; memory read = `L1Access`, plus `MemoryAccess` on an L1D miss; execute = `Cycles()`;
write-back = `RegisterAccess`, or for a store `L1Access` (all bytes cached) / `MemoryAccess`; after the loop one
`MemoryAccess` per resident L1D line (`Proofs.Mvp3.step_sim` relates the terms to MVP-1's, `Proofs.Mvp3Cycles` bounds
them).  Both bounds hold for EVERY program, initial state and fuel. -/

/-- **lower bound and positivity, MVP-3**: the cycle count is at least the number of executed instructions -/
theorem mvp3_lower_bound (app : App) (a : Arch) (fuel : Nat) :
    ((Model.Mvp3.runMvp3 app a fuel).steps : Int) ≤ (Model.Mvp3.runMvp3 app a fuel).cycles :=
  (Proofs.Mvp3Cycles.runMvp3_cycles app a fuel).1

/-- **upper bound, MVP-3**: per executed instruction at most fetch miss + decode + L1D miss + slowest execute + store
miss, plus the final flush of at most 16 lines -/
theorem mvp3_upper_bound (app : App) (a : Arch) (fuel : Nat) :
    (Model.Mvp3.runMvp3 app a fuel).cycles ≤
      (Gen.Latency.MemoryAccess + Gen.Consts.mvp3.cyclesDecode + (Gen.Latency.L1Access + Gen.Latency.MemoryAccess) + 50 +
        Gen.Latency.MemoryAccess) * (Model.Mvp3.runMvp3 app a fuel).steps + 16 * Gen.Latency.MemoryAccess :=
  (Proofs.Mvp3Cycles.runMvp3_cycles app a fuel).2

/-- the constants of proc/mvp3 the model reads, pinned (a changed constant re-opens this) -/
theorem mvp3_constants :
    Gen.Consts.mvp3.cyclesDecode = 1 ∧ Gen.Consts.mvp3.l1DCacheLineSize = 64 ∧ Gen.Consts.mvp3.l1DCacheSize = 1024 ∧
    Gen.Consts.mvp3.l1ICacheLineSize = 64 ∧ Gen.Consts.mvp3.l1ICacheSize = 1024 := by decide

/-- Non-vacuity: `li; ret` on MVP-3 costs 309+1+1+1 (fetch miss) and 3+1+1 (fetch hit in the pc line), no flush. -/
example :
    (Model.Mvp3.runMvp3 { instrs := [.li_ { rd := 5, imm := 7#32 }, .ret_ {}], labels := {} } ⟨{}, 0#32⟩ 10).cycles = 317 ∧
    (Model.Mvp3.runMvp3 { instrs := [.li_ { rd := 5, imm := 7#32 }, .ret_ {}], labels := {} } ⟨{}, 0#32⟩ 10).steps = 2 := by
  decide +kernel

/-! ### value independence (work package C12-VI): the cycle count does not depend on operand values

The *timing trace* of a run (`Model/TimingTrace.lean`, computable) records per started iteration the pc, the instruction,
the addresses it reads (`MemoryRead`), the addresses it stores to (keys of `MemoryChanges`) and which way the iteration went
(stopped / `Run` failed / `ret` / register, memory or no write-back), plus how the run ended — no register value, no memory
byte.  The cycle count of each model is a FUNCTION of the trace and of the memory size (`mvp1_cycles_of_trace`, …): for MVP-1
the latency table, for MVP-2 additionally the fetch window driven by the recorded pcs, for MVP-3 the real memory-management unit
run on zeroed data along the recorded addresses (hits, misses, LRU order, evictions, panics never look at data bytes:
`Proofs/CycleTraceMvp3.lean`, erasure lemmas).  Hence two runs of one program with equal traces — same path, same accessed
addresses, same halt — on memories of equal size return the same cycle count, whatever registers and memory contain. -/

open Model.Timing in
/-- MVP-1: the cycle count is `costOfTrace` of the timing trace and the memory size -/
theorem mvp1_cycles_of_trace (app : App) (a : Arch) (fuel : Nat) :
    (runMvp1 app a fuel).cycles =
      costOfTrace mvp1Fetch Gen.Consts.mvp1.cyclesDecode a.ctx.Memory.length
        (traceSeq Gen.Consts.mvp1.cyclesDecode app fuel a).1 mvp1Fetch.init :=
  Proofs.CycleTrace.run_cost _ _ app a fuel

open Model.Timing in
/-- MVP-2: the same with the fetch window folded over the recorded pcs -/
theorem mvp2_cycles_of_trace (app : App) (a : Arch) (fuel : Nat) :
    (runMvp2 app a fuel).cycles =
      costOfTrace mvp2Fetch Gen.Consts.mvp2.cyclesDecode a.ctx.Memory.length
        (traceSeq Gen.Consts.mvp2.cyclesDecode app fuel a).1 mvp2Fetch.init :=
  Proofs.CycleTrace.run_cost _ _ app a fuel

open Model.Timing in
/-- MVP-3: the cycle count is `tcostRun` of the timing trace and the memory size (L1I / L1D hit-miss pattern, LRU order,
evictions and the final flush recomputed from the recorded pcs and addresses on zeroed caches) -/
theorem mvp3_cycles_of_trace (app : App) (a : Arch) (fuel : Nat) :
    (Model.Mvp3.runMvp3 app a fuel).cycles =
      tcostRun Model.Mmu.mvp3Config Gen.Consts.mvp3.cyclesDecode a.ctx.Memory.length
        (traceRun3 Model.Mmu.mvp3Config Gen.Consts.mvp3.cyclesDecode app a fuel) :=
  Proofs.CycleTraceMvp3.run_tcost _ _ app a fuel

/-- **C12, value independence, MVP-1**: for one program and two initial states — any registers, any memory contents of
the same size — and every fuel: equal timing traces give equal cycle counts. -/
theorem mvp1_cycles_value_independent (app : App) (a1 a2 : Arch) (fuel : Nat)
    (hlen : a1.ctx.Memory.length = a2.ctx.Memory.length)
    (htr : Model.Timing.traceSeq Gen.Consts.mvp1.cyclesDecode app fuel a1 = Model.Timing.traceSeq Gen.Consts.mvp1.cyclesDecode app fuel a2) :
    (runMvp1 app a1 fuel).cycles = (runMvp1 app a2 fuel).cycles :=
  Proofs.CycleTrace.run_value_independent _ _ app a1 a2 fuel hlen htr

/-- **C12, value independence, MVP-2** -/
theorem mvp2_cycles_value_independent (app : App) (a1 a2 : Arch) (fuel : Nat)
    (hlen : a1.ctx.Memory.length = a2.ctx.Memory.length)
    (htr : Model.Timing.traceSeq Gen.Consts.mvp2.cyclesDecode app fuel a1 = Model.Timing.traceSeq Gen.Consts.mvp2.cyclesDecode app fuel a2) :
    (runMvp2 app a1 fuel).cycles = (runMvp2 app a2 fuel).cycles :=
  Proofs.CycleTrace.run_value_independent _ _ app a1 a2 fuel hlen htr

/-- **C12, value independence, MVP-3**: the contents of the caches differ between the two runs, but the resident line
addresses and the LRU order evolve identically -/
theorem mvp3_cycles_value_independent (app : App) (a1 a2 : Arch) (fuel : Nat)
    (hlen : a1.ctx.Memory.length = a2.ctx.Memory.length)
    (htr : Model.Timing.traceRun3 Model.Mmu.mvp3Config Gen.Consts.mvp3.cyclesDecode app a1 fuel =
           Model.Timing.traceRun3 Model.Mmu.mvp3Config Gen.Consts.mvp3.cyclesDecode app a2 fuel) :
    (Model.Mvp3.runMvp3 app a1 fuel).cycles = (Model.Mvp3.runMvp3 app a2 fuel).cycles :=
  Proofs.CycleTraceMvp3.run3_value_independent _ _ app a1 a2 fuel hlen htr

/-- load a word, double it, store it next to it, return -/
def viApp : App :=
  { instrs := [.lw_ { rd := 6, offset := 0#32, rs := 5 }, .add_ { rd := 7, rs1 := 6, rs2 := 6 },
               .sw_ { rs := 7, rd := 5, offset := 4#32 }, .ret_ {}], labels := {} }
/-- two initial states with the same address register but different memory contents and different other registers -/
def viState1 : Arch := ⟨{ Registers := ⟨[(5, 64#32), (28, 1#32)]⟩, Memory := List.replicate 128 1#8 }, 0#32⟩
def viState2 : Arch := ⟨{ Registers := ⟨[(5, 64#32), (28, 99#32), (29, 7#32)]⟩, Memory := List.replicate 128 200#8 }, 0#32⟩

/-- Non-vacuity (MVP-1, MVP-2): different register files and memories, different results, equal timing traces -/
example :
    Model.Timing.traceSeq Gen.Consts.mvp1.cyclesDecode viApp 10 viState1 = Model.Timing.traceSeq Gen.Consts.mvp1.cyclesDecode viApp 10 viState2 ∧
    Model.Timing.traceSeq Gen.Consts.mvp2.cyclesDecode viApp 10 viState1 = Model.Timing.traceSeq Gen.Consts.mvp2.cyclesDecode viApp 10 viState2 ∧
    (runMvp1 viApp viState1 10).final.ctx.Memory ≠ (runMvp1 viApp viState2 10).final.ctx.Memory ∧
    (runMvp1 viApp viState1 10).halt = some .ret := by
  decide +kernel

/-- Non-vacuity (MVP-3): the same two states have equal MVP-3 timing traces (one L1D miss, one cached store, flush) -/
example :
    Model.Timing.traceRun3 Model.Mmu.mvp3Config Gen.Consts.mvp3.cyclesDecode viApp viState1 10 =
      Model.Timing.traceRun3 Model.Mmu.mvp3Config Gen.Consts.mvp3.cyclesDecode viApp viState2 10 ∧
    (Model.Mvp3.runMvp3 viApp viState1 10).final.ctx.Memory ≠ (Model.Mvp3.runMvp3 viApp viState2 10).final.ctx.Memory ∧
    (Model.Mvp3.runMvp3 viApp viState1 10).halt = some .ret := by
  decide +kernel

/-- … and a trace DOES distinguish runs whose accessed addresses differ (so equality of traces is a real condition) -/
example :
    Model.Timing.traceSeq Gen.Consts.mvp1.cyclesDecode viApp 10 viState1 ≠
      Model.Timing.traceSeq Gen.Consts.mvp1.cyclesDecode viApp 10 ⟨{ viState1.ctx with Registers := ⟨[(5, 32#32)]⟩ }, 0#32⟩ := by
  decide +kernel

/-! ### MVP-3, exact: the cycle count is the sum of the per-iteration terms plus the flush -/

/-- the per-iteration costs of a run of MVP-3, in execution order: (fetch, decode / memory read / execute / write-back) -/
def costTrace3 (cfg : Model.Mmu.Config) (dc : Int) (app : App) : Nat → Model.Mvp3.State → List (Int × StepCost)
  | 0, _ => []
  | fuel + 1, s =>
    match Model.Mvp3.step cfg dc app s with
    | .halt .offEnd _ _ _ => []
    | .halt _ _ f c => [(f, c)]
    | .next s' f c => (f, c) :: costTrace3 cfg dc app fuel s'

/-- what `flush()` adds in state `s`: one `MemoryAccess` per resident L1D line (nothing when it panics) -/
def flushOf (cfg : Model.Mmu.Config) (s : Model.Mvp3.State) : Int :=
  match Model.Mmu.flush cfg s.mmu s.arch.ctx.Memory with
  | .ok (_, fc) => fc
  | .error _ => 0

/-- the flush cost at the end of the run (0 unless the loop ends by `ret` or by running past the last instruction) -/
def flushCost3 (cfg : Model.Mmu.Config) (dc : Int) (app : App) : Nat → Model.Mvp3.State → Int
  | 0, _ => 0
  | fuel + 1, s =>
    match Model.Mvp3.step cfg dc app s with
    | .halt .offEnd s' _ _ => flushOf cfg s'
    | .halt .ret s' _ _ => flushOf cfg s'
    | .halt _ _ _ _ => 0
    | .next s' _ _ => flushCost3 cfg dc app fuel s'

theorem finish_flushOf (cfg : Model.Mmu.Config) (h : Halt) (s : Model.Mvp3.State) (cyc : Int) (n : Nat) :
    (Model.Mvp3.finish cfg h s cyc n).cycles = cyc + flushOf cfg s := by
  unfold Model.Mvp3.finish flushOf
  cases Model.Mmu.flush cfg s.mmu s.arch.ctx.Memory with
  | error f => simp
  | ok p => rfl

theorem go3_sum (cfg : Model.Mmu.Config) (dc : Int) (app : App) :
    ∀ (fuel : Nat) (s : Model.Mvp3.State) (cyc : Int) (n : Nat),
      (Model.Mvp3.go cfg dc app fuel s cyc n).cycles =
        cyc + ((costTrace3 cfg dc app fuel s).map (fun p => p.1 + p.2.total)).sum + flushCost3 cfg dc app fuel s := by
  intro fuel
  induction fuel with
  | zero => intro s cyc n; simp [Model.Mvp3.go, costTrace3, flushCost3]
  | succ k ih =>
    intro s cyc n
    unfold Model.Mvp3.go costTrace3 flushCost3
    cases hs : Model.Mvp3.step cfg dc app s with
    | next s' f c =>
      simp only [List.map_cons, List.sum_cons]
      rw [ih s' _ _]
      omega
    | halt h s' f c =>
      cases h with
      | offEnd => simp only [List.map_nil, List.sum_nil, finish_flushOf]; omega
      | ret => simp only [List.map_cons, List.map_nil, List.sum_cons, List.sum_nil, finish_flushOf]; omega
      | err => simp only [List.map_cons, List.map_nil, List.sum_cons, List.sum_nil]; omega
      | panic w => simp only [List.map_cons, List.map_nil, List.sum_cons, List.sum_nil]; omega

/-- **MVP-3, exact**: the returned cycle count is the sum, over the executed instructions, of fetch (`L1Access` on an L1I
hit, `MemoryAccess` on a miss) + decode + memory read (`L1Access`, plus `MemoryAccess` on an L1D miss) + execute (`Cycles()`)
+ write-back (`RegisterAccess`; a store: `L1Access` when all its bytes are cached, else `MemoryAccess`), plus the cost of the
final `flush()` (one `MemoryAccess` per resident L1D line).  `u` is the unit `NewCPU` builds. -/
theorem mvp3_exact (app : App) (a : Arch) (fuel : Nat) :
    ∃ u, Model.Mmu.new Model.Mmu.mvp3Config = .ok u ∧
      (Model.Mvp3.runMvp3 app a fuel).cycles =
        ((costTrace3 Model.Mmu.mvp3Config Gen.Consts.mvp3.cyclesDecode app fuel ⟨a, u⟩).map
          (fun p => p.1 + p.2.decode + p.2.memRead + p.2.execute + p.2.writeBack)).sum +
        flushCost3 Model.Mmu.mvp3Config Gen.Consts.mvp3.cyclesDecode app fuel ⟨a, u⟩ := by
  obtain ⟨u, hnew, _⟩ := Proofs.Mvp3.mvp3Config_ok.new
  refine ⟨u, hnew, ?_⟩
  unfold Model.Mvp3.runMvp3 Model.Mvp3.run
  simp only [hnew]
  rw [go3_sum]
  simp only [StepCost.total, Int.zero_add]
  congr 2
  apply List.map_congr_left
  intro p _
  omega

/-- the terms of `mvp3_exact`: in every started iteration the fetch is an `L1Access` or a `MemoryAccess` and the whole
iteration costs between 1 and fetch miss + decode + L1D miss + slowest execute + store miss (`Proofs.Mvp3Cycles.step_shape`);
the flush of a state costs one `MemoryAccess` per resident line -/
theorem flushOf_le (cfg : Model.Mmu.Config) (s : Model.Mvp3.State) :
    flushOf cfg s = 0 ∨ flushOf cfg s = s.mmu.l1d.lines.length * Gen.Latency.MemoryAccess := by
  unfold flushOf
  cases hf : Model.Mmu.flush cfg s.mmu s.arch.ctx.Memory with
  | error f => exact Or.inl rfl
  | ok p =>
    right
    unfold Model.Mmu.flush LineCache.lines at hf
    have := Proofs.Mvp3Cycles.flushLines_cost cfg _ _ _ _ _ hf
    simpa using this

/-- Non-vacuity of `mvp3_exact`: the run `lw; add; sw; ret` above costs
(309+1+(3+309)+50+1) + (3+1+0+1+1) + (3+1+0+1+3) + (3+1+1) + 309 (one line flushed). -/
example : (Model.Mvp3.runMvp3 viApp viState1 10).cycles = 673 + 6 + 8 + 5 + 309 := by decide +kernel

end Props.C12

/-! ### MVP-4 and MVP-5 (work package CYC45): lower bound of the pipelined machines

`Model.Mvp4` / `Model.Mvp5` are the cycle-accurate models of proc/mvp4 and proc/mvp5 (tied to the Go machines on every
run: status, CYCLE COUNT, final state — the `m4=` / `m5=` fields).  Issue width 1: a tick runs `executeUnit.run` at
most once (`Proofs.Mvp4.executeCycle_cnt`, `Proofs.Mvp5.executeCycle5_cnt`), and only a tick of the outer loop that
counts a cycle does (`Proofs.Mvp4.TickCnt`); the drain loop after `ret` counts no cycles and executes nothing.
  * `mvp4_lower_bound` / `mvp5_lower_bound`: for EVERY program, initial context and tick budget the returned cycle count
    is at least the number of `executeUnit.run` calls (the model's counter `executed`), and positive whenever the run
    ends without a Go panic;
  * `mvp4_lower_bound_spec` / `mvp5_lower_bound_spec`: along a well-formed specification run the returned cycle count is
    at least the number of instructions the SPECIFICATION executes (every visit of an architectural state starts with
    a tick that counts a cycle). -/

namespace Props.C12

/-- **lower bound and positivity, MVP-4**, every run -/
theorem mvp4_lower_bound (app : App) (ctx : Model.Context) (ticks : Nat) :
    ((Model.Mvp4.run app ctx ticks).final.executed : Int) ≤ (Model.Mvp4.run app ctx ticks).final.cycles ∧
    (∀ hk, (Model.Mvp4.run app ctx ticks).halt = some hk → (∀ w, hk ≠ .panic w) →
      1 ≤ (Model.Mvp4.run app ctx ticks).final.cycles) :=
  ⟨Proofs.Mvp4.run_executed_le_cycles app ctx ticks, fun hk hh hnp => Proofs.Mvp4.run_cycles_pos app ctx ticks hk hh hnp⟩

/-- **lower bound and positivity, MVP-5**, every run -/
theorem mvp5_lower_bound (app : App) (ctx : Model.Context) (ticks : Nat) :
    ((Model.Mvp5.run app ctx ticks).final.base.executed : Int) ≤ (Model.Mvp5.run app ctx ticks).final.base.cycles ∧
    (∀ hk, (Model.Mvp5.run app ctx ticks).halt = some hk → (∀ w, hk ≠ .panic w) →
      1 ≤ (Model.Mvp5.run app ctx ticks).final.base.cycles) :=
  ⟨Proofs.Mvp5.run5_executed_le_cycles app ctx ticks, fun hk hh hnp => Proofs.Mvp5.run5_cycles_pos app ctx ticks hk hh hnp⟩

/-- **lower bound against the specification, MVP-4**: if the specification run is well-formed and ends after `n`
executed instructions, every MVP-4 run that ends has counted at least `n` cycles. -/
theorem mvp4_lower_bound_spec (app : App) (hw : Proofs.Refine.WfApp app) (ctx : Model.Context) (m : Spec.Machine)
    (hR : Proofs.Refine.Rel ctx m) (hsz : m.mem.size + 64 ≤ 2 ^ 31)
    (hpw : ∀ r, GoMap.get1 ctx.PendingWriteRegisters r = 0) (fuel : Nat)
    (hwf : ∀ why, (Spec.run (Proofs.Refine.specProg app) m fuel).stop ≠ .notWf why) (ticks : Nat) (hk : Halt)
    (hh : (Model.Mvp4.run app ctx ticks).halt = some hk) :
    ((Spec.run (Proofs.Refine.specProg app) m fuel).steps : Int) ≤ (Model.Mvp4.run app ctx ticks).final.cycles :=
  (Proofs.Mvp4.mvp4_cycles_of_halt app hw ctx m hR hsz hpw fuel hwf ticks hk hh).1

/-- **lower bound against the specification, MVP-5** -/
theorem mvp5_lower_bound_spec (app : App) (hw : Proofs.Refine.WfApp app) (ctx : Model.Context) (m : Spec.Machine)
    (hR : Proofs.Refine.Rel ctx m) (hsz : m.mem.size + 64 ≤ 2 ^ 31)
    (hpw : ∀ r, GoMap.get1 ctx.PendingWriteRegisters r = 0) (fuel : Nat)
    (hwf : ∀ why, (Spec.run (Proofs.Refine.specProg app) m fuel).stop ≠ .notWf why) (ticks : Nat) (hk : Halt)
    (hh : (Model.Mvp5.run app ctx ticks).halt = some hk) :
    ((Spec.run (Proofs.Refine.specProg app) m fuel).steps : Int) ≤ (Model.Mvp5.run app ctx ticks).final.base.cycles :=
  (Proofs.Mvp5.mvp5_cycles_of_halt app hw ctx m hR hsz hpw fuel hwf ticks hk hh).1

/-- Non-vacuity: `li ; addi ; ret` on MVP-4 and MVP-5 — 3 instructions executed, 314 cycles (one line fetch of the
instruction cache, 309, plus the pipeline). -/
example :
    (Model.Mvp4.run { instrs := [.li_ { rd := 5, imm := 7#32 }, .addi_ { rd := 6, rs := 5, imm := 1#32 }, .ret_ {}], labels := {} }
        { Memory := List.replicate 64 0#8 } 4000).final.executed = 3 ∧
    (Model.Mvp5.run { instrs := [.li_ { rd := 5, imm := 7#32 }, .addi_ { rd := 6, rs := 5, imm := 1#32 }, .ret_ {}], labels := {} }
        { Memory := List.replicate 64 0#8 } 4000).final.base.executed = 3 ∧
    (Model.Mvp4.run { instrs := [.li_ { rd := 5, imm := 7#32 }, .addi_ { rd := 6, rs := 5, imm := 1#32 }, .ret_ {}], labels := {} }
        { Memory := List.replicate 64 0#8 } 4000).final.cycles = 314 ∧
    (Model.Mvp5.run { instrs := [.li_ { rd := 5, imm := 7#32 }, .addi_ { rd := 6, rs := 5, imm := 1#32 }, .ret_ {}], labels := {} }
        { Memory := List.replicate 64 0#8 } 4000).final.base.cycles = 314 := by
  decide +kernel

end Props.C12

/-! ### value independence of the pipelined machine MVP-4 (work package VI45)

Two runs of one program on the cycle-accurate model `Model.Mvp4` are compared tick by tick (`Proofs/Mvp4ValueIndep.lean`).
*Shape equality* `Proofs.Mvp4.Sh` of two machine states: all control state equal — mode of the `Run` loop, counters and
flags of the four units, the pcs and instructions in the buses, both scoreboards, the cycle counter, the resident L1I /
L1D line addresses and their LRU order — everything except register values, memory bytes, cache line data and the values
of queued results.  Fetch, decode, write unit, drain / flush and the final cache flush preserve it unconditionally
(`fetchCycle_sh`, `decodeCycle_sh`, `writeCycle_sh`, `afterExecute_sh`; the memory-management unit through the erasure
lemmas of `Proofs.CycleTraceMvp3`); the execute unit preserves it when the two architectural states give the same timing
event (`executeCycle_sh`): its operands are the architectural ones (register interlock, store→load interlock), so load
addresses, kind of result, store addresses and next pc are those of the trace (`resOk_of_events`).  The two runs execute
their instructions in the same ticks (`cycleM_x`: the count of `executeUnit.run` calls tells a stutter tick from an
executing one), hence stay at the same position of the common trace (`runFrom_vi`). -/

namespace Props.C12

/-- **C12, value independence, MVP-4**: one program, two initial contexts — any registers, any memory contents of the
same size, empty scoreboards —, both specification runs well-formed and ending within `fuel`, EQUAL timing traces of the
unpipelined machine (same pcs, instructions, load / store addresses, write-back kinds, same end): then for EVERY tick
budget the two MVP-4 runs end the same way, after the same number of ticks, with the same cycle count. -/
theorem mvp4_cycles_value_independent (app : App) (hw : Proofs.Refine.WfApp app) (ctx1 ctx2 : Model.Context)
    (m1 m2 : Spec.Machine) (hR1 : Proofs.Refine.Rel ctx1 m1) (hR2 : Proofs.Refine.Rel ctx2 m2)
    (hsz1 : m1.mem.size + 64 ≤ 2 ^ 31) (hsz2 : m2.mem.size + 64 ≤ 2 ^ 31)
    (hpw1 : ctx1.PendingWriteRegisters = {}) (hpw2 : ctx2.PendingWriteRegisters = {})
    (hlen : ctx1.Memory.length = ctx2.Memory.length) (fuel : Nat)
    (hwf1 : ∀ why, (Spec.run (Proofs.Refine.specProg app) m1 fuel).stop ≠ .notWf why)
    (hwf2 : ∀ why, (Spec.run (Proofs.Refine.specProg app) m2 fuel).stop ≠ .notWf why)
    (htr : Model.Timing.traceSeq Gen.Consts.mvp1.cyclesDecode app fuel ⟨ctx1, 0#32⟩ =
           Model.Timing.traceSeq Gen.Consts.mvp1.cyclesDecode app fuel ⟨ctx2, 0#32⟩)
    (ticks : Nat) :
    (Model.Mvp4.run app ctx1 ticks).halt = (Model.Mvp4.run app ctx2 ticks).halt ∧
    (Model.Mvp4.run app ctx1 ticks).final.cycles = (Model.Mvp4.run app ctx2 ticks).final.cycles ∧
    (Model.Mvp4.run app ctx1 ticks).ticks = (Model.Mvp4.run app ctx2 ticks).ticks :=
  Proofs.Mvp4.mvp4_value_independent app hw ctx1 ctx2 m1 m2 hR1 hR2 hsz1 hsz2 hpw1 hpw2 hlen fuel hwf1 hwf2 htr ticks

/-- Non-vacuity (MVP-4): the two states of the examples above — different register files, different memory contents, equal
timing traces — give different final memories and THE SAME cycle count (load miss, add, store to the cached line, `ret`,
final flush of one line) -/
example :
    Model.Timing.traceSeq Gen.Consts.mvp1.cyclesDecode viApp 10 viState1 = Model.Timing.traceSeq Gen.Consts.mvp1.cyclesDecode viApp 10 viState2 ∧
    (Model.Mvp4.run viApp viState1.ctx 4000).final.ctx.Memory ≠ (Model.Mvp4.run viApp viState2.ctx 4000).final.ctx.Memory ∧
    (Model.Mvp4.run viApp viState1.ctx 4000).halt = some .ret ∧
    (Model.Mvp4.run viApp viState1.ctx 4000).final.cycles = (Model.Mvp4.run viApp viState2.ctx 4000).final.cycles ∧
    0 < (Model.Mvp4.run viApp viState1.ctx 4000).final.cycles := by
  decide +kernel

end Props.C12

/-! ### value independence of MVP-5 (work package VI45)

`Proofs/Mvp5ValueIndep.lean`: shape equality `Proofs.Mvp5.Sh5` = MVP-4's on the common part of the state, plus equal
cleaning flag of the fetch unit, equal decode-stall flag and EQUAL branch target buffers (the BTB holds pcs and jump
targets — both part of the timing trace).  Instructions that are not unconditional jumps go through MVP-4's execute
unit (`euIssue_nonjump`, `euMemDone_nonjump`); for a jump the BTB lookup, the redirection of the fetch unit at issue,
the target learnt and the redirection at execution are the same in both runs because the target is the next pc of the
common trace (`resOk_jump`, `euIssueTail_jump_sh`). -/

namespace Props.C12

/-- **C12, value independence, MVP-5** (same statement as for MVP-4) -/
theorem mvp5_cycles_value_independent (app : App) (hw : Proofs.Refine.WfApp app) (ctx1 ctx2 : Model.Context)
    (m1 m2 : Spec.Machine) (hR1 : Proofs.Refine.Rel ctx1 m1) (hR2 : Proofs.Refine.Rel ctx2 m2)
    (hsz1 : m1.mem.size + 64 ≤ 2 ^ 31) (hsz2 : m2.mem.size + 64 ≤ 2 ^ 31)
    (hpw1 : ctx1.PendingWriteRegisters = {}) (hpw2 : ctx2.PendingWriteRegisters = {})
    (hlen : ctx1.Memory.length = ctx2.Memory.length) (fuel : Nat)
    (hwf1 : ∀ why, (Spec.run (Proofs.Refine.specProg app) m1 fuel).stop ≠ .notWf why)
    (hwf2 : ∀ why, (Spec.run (Proofs.Refine.specProg app) m2 fuel).stop ≠ .notWf why)
    (htr : Model.Timing.traceSeq Gen.Consts.mvp1.cyclesDecode app fuel ⟨ctx1, 0#32⟩ =
           Model.Timing.traceSeq Gen.Consts.mvp1.cyclesDecode app fuel ⟨ctx2, 0#32⟩)
    (ticks : Nat) :
    (Model.Mvp5.run app ctx1 ticks).halt = (Model.Mvp5.run app ctx2 ticks).halt ∧
    (Model.Mvp5.run app ctx1 ticks).final.base.cycles = (Model.Mvp5.run app ctx2 ticks).final.base.cycles ∧
    (Model.Mvp5.run app ctx1 ticks).ticks = (Model.Mvp5.run app ctx2 ticks).ticks :=
  Proofs.Mvp5.mvp5_value_independent app hw ctx1 ctx2 m1 m2 hR1 hR2 hsz1 hsz2 hpw1 hpw2 hlen fuel hwf1 hwf2 htr ticks

/-- a loop with a jump executed twice (BTB miss, then hit), a call and a return through `jalr`; the loop bound is an
immediate, the data registers differ between the two states below -/
def viApp5 : App :=
  { instrs := [.li_ { rd := 5, imm := 0#32 }, .li_ { rd := 9, imm := 2#32 }, .j_ { label := "A" },
               .li_ { rd := 6, imm := 99#32 }, .add_ { rd := 10, rs1 := 28, rs2 := 29 }, .div_ { rd := 8, rs1 := 6, rs2 := 0 },
               .addi_ { rd := 5, rs := 5, imm := 1#32 }, .bne_ { rs1 := 5, rs2 := 9, label := "L" },
               .jal_ { rd := 1, label := "F" }, .add_ { rd := 7, rs1 := 28, rs2 := 29 }, .ret_ {},
               .jalr_ { rd := 0, rs := 1, imm := 0#32 }],
    labels := ⟨[("L", 8#32), ("A", 24#32), ("F", 44#32)]⟩ }

/-- Non-vacuity (MVP-5): different register files and memory contents, equal timing traces, different results, THE
SAME cycle count -/
example :
    Model.Timing.traceSeq Gen.Consts.mvp1.cyclesDecode viApp5 30 viState1 = Model.Timing.traceSeq Gen.Consts.mvp1.cyclesDecode viApp5 30 viState2 ∧
    GoMap.get1 (Model.Mvp5.run viApp5 viState1.ctx 6000).final.base.ctx.Registers 7 ≠
      GoMap.get1 (Model.Mvp5.run viApp5 viState2.ctx 6000).final.base.ctx.Registers 7 ∧
    (Model.Mvp5.run viApp5 viState1.ctx 6000).halt = some .ret ∧
    (Model.Mvp5.run viApp5 viState1.ctx 6000).final.base.cycles = (Model.Mvp5.run viApp5 viState2.ctx 6000).final.base.cycles ∧
    0 < (Model.Mvp5.run viApp5 viState1.ctx 6000).final.base.cycles := by
  decide +kernel

end Props.C12

/-! ## MVP-6.0 (package M60): the lower bound for the first superscalar variant

`Model.Mvp60` is the cycle-accurate model of `proc/mvp6-0` (`eu` execute units, `wu` write units; one `cycle` per
`ctx.VerifTick()`), tied to the Go machine by exact agreement of status, cycle count, tick count and final registers and
memory on every generated case (fields `m60pK` of the driver; `Model.Mvp60.runFast`, the same run with the idle
stretches skipped). -/
namespace Props.C12

/-- **C12 lower bound, MVP-6.0.**  A machine with `eu` execute units executes at most `eu` instructions per tick
(`executed` counts the calls of an instruction's `Run`, wrong-path instructions included), and a run that does not end in
a Go panic returns a cycle count of at least its number of ticks: `executed ≤ eu · cycles` — no generated program can
finish faster than `steps / eu` cycles. -/
theorem mvp60_lower_bound (app : App) (ctx : Model.Context) (eu wu fuel : Nat) :
    (Model.Mvp60.run app ctx eu wu fuel).final.executed ≤ eu * (Model.Mvp60.run app ctx eu wu fuel).ticks ∧
    (Proofs.Mvp60.Clean (Model.Mvp60.run app ctx eu wu fuel).halt →
      ((Model.Mvp60.run app ctx eu wu fuel).ticks : Int) ≤ (Model.Mvp60.run app ctx eu wu fuel).final.cycles ∧
      ((Model.Mvp60.run app ctx eu wu fuel).final.executed : Int) ≤ eu * (Model.Mvp60.run app ctx eu wu fuel).final.cycles) :=
  Proofs.Mvp60.run_executed_le app ctx eu wu fuel

/-- **what the tie evaluates is the model the theorems are about.**  The driver evaluates `Model.Mvp60.runFast` (idle
stretches — all units waiting for a counter, or dead-locked — are skipped in one step); it is the tick-by-tick run. -/
theorem mvp60_fast_run_is_run (app : App) (ctx : Model.Context) (eu wu fuel : Nat) :
    Model.Mvp60.runFast app ctx eu wu fuel = Model.Mvp60.run app ctx eu wu fuel :=
  Proofs.Mvp60Fast.runFast_eq_run app ctx eu wu fuel

/-- Non-vacuity: a run that ends normally (`Clean`) with instructions executed — the two-unit run of
`Proofs.Mvp60Witness.dropApp` ends `offEnd` after 319 cycles with one instruction executed -/
example : Proofs.Mvp60.Clean (Model.Mvp60.run Proofs.Mvp60Witness.dropApp (Proofs.Mvp60Witness.ctxS0 64) 2 2 1000).halt ∧
    (Model.Mvp60.run Proofs.Mvp60Witness.dropApp (Proofs.Mvp60Witness.ctxS0 64) 2 2 1000).final.executed = 1 := by
  obtain ⟨h1, _, h2, _⟩ := Proofs.Mvp60Witness.obs_eq Proofs.Mvp60Witness.drop_p2
  exact ⟨by rw [h1]; trivial, h2⟩

end Props.C12

/-! ## MVP-6.1 (package M61): lower bound, forwarding, and the known wrong results as theorems

`Model.Mvp61` is the cycle-accurate model of `proc/mvp6-1` (MVP-6.0 plus operand forwarding; `eu` execute units, `wu`
write units; one `cycle` per `ctx.VerifTick()`), tied to the Go machine by exact agreement of status, cycle count, tick
count and final registers and memory on every generated case (fields `m61pK` of the driver, which evaluates
`Model.Mvp61.run` itself) — inside and outside the finding regions: the model reproduces the wrong results. -/
namespace Props.C12

/-- **C12 lower bound, MVP-6.1.**  A machine with `eu` execute units executes at most `eu` instructions per tick
(`executed` counts the calls of an instruction's `Run`, wrong-path instructions included), and the cycle counter is at
least `executed / eu`.  Holds for every run (halted, out of fuel, Go panic; on a run that ends with an instruction error
Go returns 0 next to the error — the model's counter is the one `Run` had reached).
Unlike MVP-6.0, `ticks ≤ cycles` is false here: the ticks of the write units' drain loops inside the flush path do not
advance the cycle counter (no instruction runs in them).
(Before the fix of M61-defect-1 — `return 0, nil` in the flush path's loop — the statement needed the disjunct
`cycles = 0`.) -/
theorem mvp61_lower_bound (app : App) (ctx : Model.Context) (eu wu fuel : Nat) :
    (Model.Mvp61.run app ctx eu wu fuel).final.executed ≤ eu * (Model.Mvp61.run app ctx eu wu fuel).ticks ∧
    ((Model.Mvp61.run app ctx eu wu fuel).final.executed : Int) ≤ eu * (Model.Mvp61.run app ctx eu wu fuel).final.cycles :=
  Proofs.Mvp61.run_executed_le app ctx eu wu fuel

/-- Non-vacuity: a run with a positive cycle count and instructions executed, close to the bound's shape — the
two-unit run of `Proofs.Mvp61Witness.fwdApp` executes 4 instructions in 318 cycles -/
example : (Model.Mvp61.run Proofs.Mvp61Witness.fwdApp (Proofs.Mvp61Witness.ctx0 64) 2 2 1000).final.cycles = 318 ∧
    (Model.Mvp61.run Proofs.Mvp61Witness.fwdApp (Proofs.Mvp61Witness.ctx0 64) 2 2 1000).final.executed = 4 := by
  obtain ⟨_, a, _, b, _⟩ := Proofs.Mvp61Witness.obs_eq Proofs.Mvp61Witness.fwd_p2
  exact ⟨a, b⟩

/-- **KF-ooo-shadow as a theorem on the tied model.**  On the pinned witness
`lw t5, 104(zero); bnez t5, l3; auipc a4, 232414541; l3:` (memory all `0x11`) the unpipelined machine takes the branch
and leaves `a4 = 0`; so does MVP-6.1 with two units; with THREE units the run ends normally (`offEnd`) with all three
instructions executed and `a4 = 0xa5d4d008`: the `auipc` in the shadow of the slow branch is committed. -/
theorem mvp61_commits_shadow :
    (Model.Seq.runMvp1 Proofs.Mvp61Witness.shadowApp ⟨Proofs.Mvp61Witness.ctx0 128, 0⟩ 10).final.ctx.Registers.get1 14 = 0#32 ∧
    (Model.Mvp61.run Proofs.Mvp61Witness.shadowApp (Proofs.Mvp61Witness.ctx0 128) 2 2 1000).final.ctx.Registers.get1 14 = 0#32 ∧
    (Model.Mvp61.run Proofs.Mvp61Witness.shadowApp (Proofs.Mvp61Witness.ctx0 128) 3 3 1000).halt = some .offEnd ∧
    (Model.Mvp61.run Proofs.Mvp61Witness.shadowApp (Proofs.Mvp61Witness.ctx0 128) 3 3 1000).final.executed = 3 ∧
    (Model.Mvp61.run Proofs.Mvp61Witness.shadowApp (Proofs.Mvp61Witness.ctx0 128) 3 3 1000).final.ctx.Registers.get1 30 = 0x11111111#32 ∧
    (Model.Mvp61.run Proofs.Mvp61Witness.shadowApp (Proofs.Mvp61Witness.ctx0 128) 3 3 1000).final.ctx.Registers.get1 14 = 0xa5d4d008#32 := by
  obtain ⟨_, a, _⟩ := Proofs.Mvp61Witness.obsSeq_eq Proofs.Mvp61Witness.shadow_seq
  obtain ⟨_, _, _, _, _, b, _⟩ := Proofs.Mvp61Witness.obs_eq Proofs.Mvp61Witness.shadow_p2
  obtain ⟨c, _, _, d, _, e, f, _⟩ := Proofs.Mvp61Witness.obs_eq Proofs.Mvp61Witness.shadow_p3
  exact ⟨a, b, c, d, f, e⟩

/-- **KF-ooo-mem as a theorem on the tied model.**  `lb t2, 7(zero); sh zero, 4, zero` (memory all `0x11`): the
unpipelined machine and MVP-6.1 with one unit store the half word (`Proofs.Mvp61Witness.stored`); with two units the run
ends normally, both instructions executed, and the first eight bytes of memory are unchanged: the store is lost. -/
theorem mvp61_loses_store :
    (Model.Seq.runMvp1 Proofs.Mvp61Witness.memApp ⟨Proofs.Mvp61Witness.ctx0 128, 0⟩ 10).final.ctx.Memory.take 8 = Proofs.Mvp61Witness.stored ∧
    (Model.Mvp61.run Proofs.Mvp61Witness.memApp (Proofs.Mvp61Witness.ctx0 128) 1 1 1000).final.ctx.Memory.take 8 = Proofs.Mvp61Witness.stored ∧
    (Model.Mvp61.run Proofs.Mvp61Witness.memApp (Proofs.Mvp61Witness.ctx0 128) 2 2 1000).halt = some .offEnd ∧
    (Model.Mvp61.run Proofs.Mvp61Witness.memApp (Proofs.Mvp61Witness.ctx0 128) 2 2 1000).final.executed = 2 ∧
    (Model.Mvp61.run Proofs.Mvp61Witness.memApp (Proofs.Mvp61Witness.ctx0 128) 2 2 1000).final.ctx.Memory.take 8 = Proofs.Mvp61Witness.m11 := by
  obtain ⟨_, _, _, a⟩ := Proofs.Mvp61Witness.obsSeq_eq Proofs.Mvp61Witness.mem_seq
  obtain ⟨_, _, _, _, _, _, _, b⟩ := Proofs.Mvp61Witness.obs_eq Proofs.Mvp61Witness.mem_p1
  obtain ⟨c, _, _, d, _, _, _, e⟩ := Proofs.Mvp61Witness.obs_eq Proofs.Mvp61Witness.mem_p2
  exact ⟨a, b, c, d, e⟩

/-- **KF-ooo-2branch as a theorem on the tied model** (the finding's witness is pinned on MVP-6.2; the same program goes
wrong on MVP-6.1 with two units).  The loop of `Proofs.Mvp61Witness.twoApp` runs four rounds on the unpipelined machine
(`s10 = 0`) and on MVP-6.1 with three units; with two units the run ends normally after 12 executed instructions with
`s10 = 2`: the `ble` behind the loop branch took effect while the loop branch was still waiting. -/
theorem mvp61_second_branch_wins :
    (Model.Seq.runMvp1 Proofs.Mvp61Witness.twoApp ⟨Proofs.Mvp61Witness.ctx0 256, 0⟩ 100).final.ctx.Registers.get1 26 = 0#32 ∧
    (Model.Mvp61.run Proofs.Mvp61Witness.twoApp (Proofs.Mvp61Witness.ctx0 256) 3 3 1500).final.ctx.Registers.get1 26 = 0#32 ∧
    (Model.Mvp61.run Proofs.Mvp61Witness.twoApp (Proofs.Mvp61Witness.ctx0 256) 2 2 1500).halt = some .offEnd ∧
    (Model.Mvp61.run Proofs.Mvp61Witness.twoApp (Proofs.Mvp61Witness.ctx0 256) 2 2 1500).final.executed = 12 ∧
    (Model.Mvp61.run Proofs.Mvp61Witness.twoApp (Proofs.Mvp61Witness.ctx0 256) 2 2 1500).final.ctx.Registers.get1 26 = 2#32 := by
  obtain ⟨_, a, _⟩ := Proofs.Mvp61Witness.obsSeq_eq Proofs.Mvp61Witness.two_seq
  obtain ⟨_, _, _, _, _, b, _⟩ := Proofs.Mvp61Witness.obs_eq Proofs.Mvp61Witness.two_p3
  obtain ⟨c, _, _, d, _, e, _⟩ := Proofs.Mvp61Witness.obs_eq Proofs.Mvp61Witness.two_p2
  exact ⟨a, b, c, d, e⟩

/-- **MVP-6.0's lost load (KF-ooo-flush-load) does not happen on MVP-6.1.**  On the programs of
`Props.C01.mvp60_flush_drops_older_load` and `Props.C07.mvp60_deadlock_after_cancelled_load` (`s0 = 1`, memory all
`0x11`) MVP-6.1 with two units ends normally with the loaded values: its flush path lets the busy units finish first.
With three units the wrong-path `addi a3, zero, 5` is executed (three `Run`s) but not committed (`a3 = 0`). -/
theorem mvp61_keeps_older_load :
    (Model.Mvp61.run Proofs.Mvp61Witness.dropApp (Proofs.Mvp61Witness.ctxS0 64) 2 2 1000).halt = some .offEnd ∧
    (Model.Mvp61.run Proofs.Mvp61Witness.dropApp (Proofs.Mvp61Witness.ctxS0 64) 2 2 1000).final.ctx.Registers.get1 11 = 0x11#32 ∧
    (Model.Mvp61.run Proofs.Mvp61Witness.dropApp (Proofs.Mvp61Witness.ctxS0 64) 3 3 1000).final.executed = 3 ∧
    (Model.Mvp61.run Proofs.Mvp61Witness.dropApp (Proofs.Mvp61Witness.ctxS0 64) 3 3 1000).final.ctx.Registers.get1 11 = 0x11#32 ∧
    (Model.Mvp61.run Proofs.Mvp61Witness.dropApp (Proofs.Mvp61Witness.ctxS0 64) 3 3 1000).final.ctx.Registers.get1 13 = 0#32 ∧
    (Model.Mvp61.run Proofs.Mvp61Witness.deadApp (Proofs.Mvp61Witness.ctxS0 64) 2 2 1000).halt = some .offEnd ∧
    (Model.Mvp61.run Proofs.Mvp61Witness.deadApp (Proofs.Mvp61Witness.ctxS0 64) 2 2 1000).final.ctx.Registers.get1 12 = 0x11#32 := by
  obtain ⟨a, _, _, _, _, b, _⟩ := Proofs.Mvp61Witness.obs_eq Proofs.Mvp61Witness.drop_p2
  obtain ⟨_, _, _, c, _, d, e, _⟩ := Proofs.Mvp61Witness.obs_eq Proofs.Mvp61Witness.drop_p3
  obtain ⟨f, _, _, _, _, _, g, _⟩ := Proofs.Mvp61Witness.obs_eq Proofs.Mvp61Witness.dead_p2
  exact ⟨a, b, c, d, e, f, g⟩

/-- **forwarding, producer side (the C04 clause for the forwarded operand, first half).**  An execute unit that runs an
instruction whose runner carries a forwarding channel `ch` (set by the control unit when it pushed the consumer), and
whose execution `e` is neither a return nor a memory change, queues `e` for write-back and sends EXACTLY
`e.RegisterValue` on `ch`; the register file is untouched. -/
theorem mvp61_forwarding_sends_result {app : App} {s s' : Model.Mvp61.State} {i : Nat} {eu : Model.Mvp61.ExecUnit}
    {r : Model.Mvp61.Runner} {c : Int} {out : Model.Mvp61.EuOut} {ch : Nat} {e : Gen.Execution}
    (hf : r.forwarder = some ch)
    (he : (Model.Mvp61.instrOf s r).run s.ctx app.labels r.pc eu.memory (if s.v71 then r.seq else 0#32) = .ok e)
    (hR : e.Return = false) (hM : e.MemoryChange = false)
    (h : Model.Mvp61.euRun app s i eu r c = .ok (s', out)) :
    out = .none ∧ s'.chans = s.chans ++ [(ch, e.RegisterValue)] ∧ s'.ctx = s.ctx ∧
    s'.writeBus = s.writeBus.add { seq := r.seq, execution := e, itype := r.instr.instructionType,
                                   writeRegisters := r.instr.writeRegisters,
                                   readRegisters := r.instr.readRegisters } c :=
  Proofs.Mvp61.euRun_sends_result hf he hR hM h

/-- **forwarding, consumer side (second half).**  A value sent on a fresh channel is what the receiver finds; a unit
whose runner waits on `ch`, once `v` is there, continues in the same cycle with the forward slot of its instruction set
to `{fwdReg ↦ v}` — `Run` and `MemoryRead` are called on `r.instr.setForward {Register := r.fwdReg, Value := v}` — and
the generated `registerRead` of `fwdReg` under that slot IS `v`, whatever the register file holds. -/
theorem mvp61_forwarding_delivers {app : App} {s : Model.Mvp61.State} {i : Nat} {eu : Model.Mvp61.ExecUnit} {r : Model.Mvp61.Runner}
    {c : Int} {ch : Nat} {v : Word} (l : List (Nat × Word)) (hfresh : Model.Mvp61.chanGet l ch = none)
    (hs : s.chans = l ++ [(ch, v)]) (hw : s.writeBus.canAdd = true) (hr : r.receiver = some ch) :
    (∃ s1 eu1 r1, Model.Mvp61.euPrepare app s i eu r c = Model.Mvp61.euAfterReceive app s1 i eu1 r1 c ∧
      s1.ctx = s.ctx ∧ r1.instr = r.instr ∧ r1.pc = r.pc ∧ r1.receiver = none ∧ Model.Mvp61.chanGet s1.chans ch = none ∧
      (∀ s2 : Model.Mvp61.State, s2.fwds = s1.fwds →
        Model.Mvp61.instrOf s2 r1 = r.instr.setForward { Register := r.fwdReg, Value := v })) ∧
    (∀ (cx : Model.Context) (seq : Word), Gen.registerRead cx { Register := r.fwdReg, Value := v } r.fwdReg seq = v) :=
  ⟨Proofs.Mvp61.euPrepare_receives hw hr (by rw [hs]; exact Proofs.Mvp61.chanGet_append l ch v hfresh),
   fun cx seq => Proofs.Mvp61.registerRead_forwarded cx r.fwdReg v seq⟩

/-- Forwarding at work, on the tied model: `li t0, 7; addi t1, t0, 1; addi t2, t1, 2; ret` — two operands are forwarded
(with one unit and with two), and the results are those of the unpipelined machine (`t1 = 8`, `t2 = 10`) -/
theorem mvp61_forwarding_witness :
    (Model.Seq.runMvp1 Proofs.Mvp61Witness.fwdApp ⟨Proofs.Mvp61Witness.ctx0 64, 0⟩ 10).final.ctx.Registers.get1 7 = 10#32 ∧
    (Model.Mvp61.run Proofs.Mvp61Witness.fwdApp (Proofs.Mvp61Witness.ctx0 64) 1 1 1000).final.forwarded = 2 ∧
    (Model.Mvp61.run Proofs.Mvp61Witness.fwdApp (Proofs.Mvp61Witness.ctx0 64) 1 1 1000).final.ctx.Registers.get1 7 = 10#32 ∧
    (Model.Mvp61.run Proofs.Mvp61Witness.fwdApp (Proofs.Mvp61Witness.ctx0 64) 2 2 1000).halt = some .ret ∧
    (Model.Mvp61.run Proofs.Mvp61Witness.fwdApp (Proofs.Mvp61Witness.ctx0 64) 2 2 1000).final.forwarded = 2 ∧
    (Model.Mvp61.run Proofs.Mvp61Witness.fwdApp (Proofs.Mvp61Witness.ctx0 64) 2 2 1000).final.ctx.Registers.get1 6 = 8#32 ∧
    (Model.Mvp61.run Proofs.Mvp61Witness.fwdApp (Proofs.Mvp61Witness.ctx0 64) 2 2 1000).final.ctx.Registers.get1 7 = 10#32 := by
  obtain ⟨_, _, a, _⟩ := Proofs.Mvp61Witness.obsSeq_eq Proofs.Mvp61Witness.fwd_seq
  obtain ⟨_, _, _, _, b, _, c, _⟩ := Proofs.Mvp61Witness.obs_eq Proofs.Mvp61Witness.fwd_p1
  obtain ⟨d, _, _, _, e, f, g, _⟩ := Proofs.Mvp61Witness.obs_eq Proofs.Mvp61Witness.fwd_p2
  exact ⟨a, b, c, d, e, f, g⟩

/-- **M61-defect-1 (fixed in /repo) on the tied model: an error inside the flush loop is reported.**  On
`lw t0, 0(zero); div t1, t2, t0; beqz zero, l; nop; l:` with memory all zero the unpipelined machine ends with the error
(division by zero), and so does MVP-6.1 with two AND with three units.  With three units the `div` fails inside the
flush path's loop "executing previous unit cycles" (the branch behind it has already asked for the flush; 3 instructions
executed); before the fix `cpu.go` said `if resp.err != nil { return 0, nil }` there and the run was reported successful
with 0 cycles. -/
theorem mvp61_error_in_flush_reported :
    (Model.Seq.runMvp1 Proofs.Mvp61Witness.zeroApp ⟨Proofs.Mvp61Witness.ctxZ 64, 0⟩ 10).halt = some .err ∧
    (Model.Mvp61.run Proofs.Mvp61Witness.zeroApp (Proofs.Mvp61Witness.ctxZ 64) 2 2 1000).halt = some .err ∧
    (Model.Mvp61.run Proofs.Mvp61Witness.zeroApp (Proofs.Mvp61Witness.ctxZ 64) 3 3 1000).halt = some .err ∧
    (Model.Mvp61.run Proofs.Mvp61Witness.zeroApp (Proofs.Mvp61Witness.ctxZ 64) 3 3 1000).final.executed = 3 := by
  obtain ⟨a, _⟩ := Proofs.Mvp61Witness.obsSeq_eq Proofs.Mvp61Witness.zero_seq
  obtain ⟨b, _⟩ := Proofs.Mvp61Witness.obs_eq Proofs.Mvp61Witness.zero_p2
  obtain ⟨c, _, _, e, _⟩ := Proofs.Mvp61Witness.obs_eq Proofs.Mvp61Witness.zero_p3
  exact ⟨a, b, c, e⟩

end Props.C12

/-! ## MVP-6.2 (package M62): lower bound, and the transaction map's behaviours as theorems

`Model.Mvp62` is the cycle-accurate model of `proc/mvp6-2` — `Model.Mvp61` with the configuration flag `v62` set: results
go to the transaction map, a resolved conditional branch commits or rolls back (`Model.Mvp61.condCtx`), the run ends with
a commit.  Tied to the Go machine like `Model.Mvp61` (fields `m62pK` of the driver). -/
namespace Props.C12

/-- **C12 lower bound, MVP-6.2**: at most `eu` instructions executed per tick; the cycle counter is at least
`executed / eu`.  For every run. -/
theorem mvp62_lower_bound (app : App) (ctx : Model.Context) (eu wu fuel : Nat) :
    (Model.Mvp62.run app ctx eu wu fuel).final.executed ≤ eu * (Model.Mvp62.run app ctx eu wu fuel).ticks ∧
    ((Model.Mvp62.run app ctx eu wu fuel).final.executed : Int) ≤ eu * (Model.Mvp62.run app ctx eu wu fuel).final.cycles :=
  Proofs.Mvp62.run_executed_le app ctx eu wu fuel

/-- Non-vacuity: the three-unit run of `Proofs.Mvp62Witness.txApp` executes 4 instructions in 937 cycles -/
example : (Model.Mvp62.run Proofs.Mvp62Witness.txApp (Proofs.Mvp61Witness.ctx0 128) 3 3 1000).final.cycles = 937 ∧
    (Model.Mvp62.run Proofs.Mvp62Witness.txApp (Proofs.Mvp61Witness.ctx0 128) 3 3 1000).final.executed = 4 := by
  obtain ⟨_, a, _, b, _⟩ := Proofs.Mvp61Witness.obs_eq Proofs.Mvp62Witness.tx_p3
  exact ⟨a, b⟩

/-- **KF-ooo-txmap as a theorem on the tied model.**  `ori a7, s3, 1; lw t4, 12(s1); bnez t4, l2; addi a7, zero, 8; l2:`
(memory all `0x11`: the branch is taken): the unpipelined machine and MVP-6.2 with two units leave `a7 = 1`; MVP-6.2 with
THREE units ends normally with four instructions executed and `a7 = 0` — the wrong-path `addi` replaced the `ori`'s
uncommitted entry in the transaction map (one entry per register) and the rollback dropped it.  MVP-6.1 with three units
leaves `a7 = 8` on the same program (it commits the shadow). -/
theorem mvp62_txmap_loses_write :
    (Model.Seq.runMvp1 Proofs.Mvp62Witness.txApp ⟨Proofs.Mvp61Witness.ctx0 128, 0⟩ 10).final.ctx.Registers.get1 17 = 1#32 ∧
    (Model.Mvp62.run Proofs.Mvp62Witness.txApp (Proofs.Mvp61Witness.ctx0 128) 2 2 1000).final.ctx.Registers.get1 17 = 1#32 ∧
    (Model.Mvp62.run Proofs.Mvp62Witness.txApp (Proofs.Mvp61Witness.ctx0 128) 3 3 1000).halt = some .offEnd ∧
    (Model.Mvp62.run Proofs.Mvp62Witness.txApp (Proofs.Mvp61Witness.ctx0 128) 3 3 1000).final.executed = 4 ∧
    (Model.Mvp62.run Proofs.Mvp62Witness.txApp (Proofs.Mvp61Witness.ctx0 128) 3 3 1000).final.ctx.Registers.get1 17 = 0#32 ∧
    (Model.Mvp61.run Proofs.Mvp62Witness.txApp (Proofs.Mvp61Witness.ctx0 128) 3 3 1000).final.ctx.Registers.get1 17 = 8#32 := by
  obtain ⟨_, a, _⟩ := Proofs.Mvp61Witness.obsSeq_eq Proofs.Mvp62Witness.tx_seq
  obtain ⟨_, _, _, _, _, b, _⟩ := Proofs.Mvp61Witness.obs_eq Proofs.Mvp62Witness.tx_p2
  obtain ⟨c, _, _, d, _, e, _⟩ := Proofs.Mvp61Witness.obs_eq Proofs.Mvp62Witness.tx_p3
  obtain ⟨_, _, _, _, _, f, _⟩ := Proofs.Mvp61Witness.obs_eq Proofs.Mvp62Witness.tx61_p3
  exact ⟨a, b, c, d, e, f⟩

/-- **MVP-6.2 rolls back the shadow of a slow branch** (the documented fix of KF-ooo-shadow): on the witness of
`mvp61_commits_shadow` MVP-6.2 with three units executes the same three instructions and ends with `a4 = 0`, as the
unpipelined machine does. -/
theorem mvp62_rolls_back_shadow :
    (Model.Mvp62.run Proofs.Mvp61Witness.shadowApp (Proofs.Mvp61Witness.ctx0 128) 3 3 1000).halt = some .offEnd ∧
    (Model.Mvp62.run Proofs.Mvp61Witness.shadowApp (Proofs.Mvp61Witness.ctx0 128) 3 3 1000).final.executed = 3 ∧
    (Model.Mvp62.run Proofs.Mvp61Witness.shadowApp (Proofs.Mvp61Witness.ctx0 128) 3 3 1000).final.ctx.Registers.get1 30 = 0x11111111#32 ∧
    (Model.Mvp62.run Proofs.Mvp61Witness.shadowApp (Proofs.Mvp61Witness.ctx0 128) 3 3 1000).final.ctx.Registers.get1 14 = 0#32 := by
  obtain ⟨a, _, _, b, _, c, d, _⟩ := Proofs.Mvp61Witness.obs_eq Proofs.Mvp62Witness.shadow62_p3
  exact ⟨a, b, d, c⟩

/-- **KF-ooo-2branch on its pinned variant**: the loop of `Proofs.Mvp61Witness.twoApp` (four rounds, `s10 = 0` on the
unpipelined machine) ends after two rounds on MVP-6.2 with two units: normal end, 12 instructions executed, `s10 = 2`. -/
theorem mvp62_second_branch_wins :
    (Model.Seq.runMvp1 Proofs.Mvp61Witness.twoApp ⟨Proofs.Mvp61Witness.ctx0 256, 0⟩ 100).final.ctx.Registers.get1 26 = 0#32 ∧
    (Model.Mvp62.run Proofs.Mvp61Witness.twoApp (Proofs.Mvp61Witness.ctx0 256) 2 2 1500).halt = some .offEnd ∧
    (Model.Mvp62.run Proofs.Mvp61Witness.twoApp (Proofs.Mvp61Witness.ctx0 256) 2 2 1500).final.executed = 12 ∧
    (Model.Mvp62.run Proofs.Mvp61Witness.twoApp (Proofs.Mvp61Witness.ctx0 256) 2 2 1500).final.ctx.Registers.get1 26 = 2#32 := by
  obtain ⟨_, a, _⟩ := Proofs.Mvp61Witness.obsSeq_eq Proofs.Mvp61Witness.two_seq
  obtain ⟨c, _, _, d, _, e, _⟩ := Proofs.Mvp61Witness.obs_eq Proofs.Mvp62Witness.two62_p2
  exact ⟨a, c, d, e⟩

end Props.C12

/-! ## MVP-6.3 (package M63): lower bound, and register renaming's behaviours as theorems

`Model.Mvp63` is the cycle-accurate model of `proc/mvp6-3` — `Model.Mvp61` with the configuration flags `v62`, `v63` set,
on a context in rename-table mode: results go to the transaction rename table, a resolved conditional branch does
`RATCommit` / `RATRollback`, the control unit pushes a runner whose only hazard is write-after-write / write-after-read.
The Go machine is NOT deterministic: a consumer pushed one cycle after TWO writers of its operand is forwarded the result
of whichever writer Go's map iteration yields first.  The model does not choose: such a run ends with the distinguished
halt `Model.Mvp63.isMapOrder` (field `m63pK=maporder,…` of the driver; the check gives no verdict: about 4 % of the generated
runs).  On every other run status, cycles, ticks and final state agree with the Go machine. -/
namespace Props.C12

/-- **C12 lower bound, MVP-6.3**: at most `eu` instructions executed per tick; the cycle counter is at least
`executed / eu`.  For every run. -/
theorem mvp63_lower_bound (app : App) (ctx : Model.Context) (eu wu fuel : Nat) :
    (Model.Mvp63.run app ctx eu wu fuel).final.executed ≤ eu * (Model.Mvp63.run app ctx eu wu fuel).ticks ∧
    ((Model.Mvp63.run app ctx eu wu fuel).final.executed : Int) ≤ eu * (Model.Mvp63.run app ctx eu wu fuel).final.cycles :=
  Proofs.Mvp63.run_executed_le app ctx eu wu fuel

/-- Non-vacuity: the two-unit run of `Proofs.Mvp63Witness.renApp` executes 4 instructions in 317 cycles -/
example : (Model.Mvp63.run Proofs.Mvp63Witness.renApp (Proofs.Mvp61Witness.ctx0 64) 2 2 1000).final.cycles = 317 ∧
    (Model.Mvp63.run Proofs.Mvp63Witness.renApp (Proofs.Mvp61Witness.ctx0 64) 2 2 1000).final.executed = 4 := by
  obtain ⟨_, a, _, b, _⟩ := Proofs.Mvp61Witness.obs_eq Proofs.Mvp63Witness.ren_p2
  exact ⟨a, b⟩

/-- **KF-ooo-rename as a theorem on the tied model.**  `li t0, 1; li t0, 2; mv t1, t0; ret`: the unpipelined machine
leaves `t1 = 2`; MVP-6.3 with one unit AND with two units ends with `ret`, `t0 = 2` and `t1 = 1` — the second `li` is
admitted by renaming while the first is in flight, and the `mv` is forwarded the FIRST `li`'s result (one operand
forwarded). -/
theorem mvp63_rename_forwards_older_writer :
    (Model.Seq.runMvp1 Proofs.Mvp63Witness.renApp ⟨Proofs.Mvp61Witness.ctx0 64, 0⟩ 10).final.ctx.Registers.get1 6 = 2#32 ∧
    (Model.Mvp63.run Proofs.Mvp63Witness.renApp (Proofs.Mvp61Witness.ctx0 64) 1 1 1000).halt = some .ret ∧
    (Model.Mvp63.run Proofs.Mvp63Witness.renApp (Proofs.Mvp61Witness.ctx0 64) 1 1 1000).final.ctx.Registers.get1 6 = 1#32 ∧
    (Model.Mvp63.run Proofs.Mvp63Witness.renApp (Proofs.Mvp61Witness.ctx0 64) 2 2 1000).halt = some .ret ∧
    (Model.Mvp63.run Proofs.Mvp63Witness.renApp (Proofs.Mvp61Witness.ctx0 64) 2 2 1000).final.forwarded = 1 ∧
    (Model.Mvp63.run Proofs.Mvp63Witness.renApp (Proofs.Mvp61Witness.ctx0 64) 2 2 1000).final.ctx.Registers.get1 5 = 2#32 ∧
    (Model.Mvp63.run Proofs.Mvp63Witness.renApp (Proofs.Mvp61Witness.ctx0 64) 2 2 1000).final.ctx.Registers.get1 6 = 1#32 := by
  obtain ⟨_, _, a, _⟩ := Proofs.Mvp61Witness.obsSeq_eq Proofs.Mvp63Witness.ren_seq
  obtain ⟨b, _, _, _, _, _, c, _⟩ := Proofs.Mvp61Witness.obs_eq Proofs.Mvp63Witness.ren_p1
  obtain ⟨d, _, _, _, e, f, g, _⟩ := Proofs.Mvp61Witness.obs_eq Proofs.Mvp63Witness.ren_p2
  exact ⟨a, b, c, d, e, f, g⟩

/-- **the non-determinism of MVP-6.3, located.**  The same program behind one `nop`, two units: the two writers of `t0`
are pushed in ONE cycle, the `mv` (one read-after-write hazard) matches both in the control unit's
`for previousRunner := range u.pushedRunnersInPreviousCycle`; the model stops after 314 ticks with the halt `maporder`.
(On the Go machine 24 runs of this input gave `t1 = 1` 19 times and `t1 = 2` 5 times.) -/
theorem mvp63_map_order_witness :
    Model.Mvp63.isMapOrder (Model.Mvp63.run Proofs.Mvp63Witness.moApp (Proofs.Mvp61Witness.ctx0 64) 2 2 1000) = true ∧
    (Model.Mvp63.run Proofs.Mvp63Witness.moApp (Proofs.Mvp61Witness.ctx0 64) 2 2 1000).ticks = 314 :=
  Proofs.Mvp63Witness.mo_p2

/-- **KF-ooo-spec-error as a theorem on the tied model.**  `li s1, 0; lw t6, 64(s1); bnez t6, l2; j nowhere; l2:`
(memory `0x11…`): the unpipelined machine takes the branch and falls off the end, as does MVP-6.3 with two units; with
three units the wrong-path `j` to an undefined label is executed in the shadow of the slow branch and the whole run
returns its error. -/
theorem mvp63_wrong_path_error :
    (Model.Seq.runMvp1 Proofs.Mvp63Witness.specErrApp ⟨Proofs.Mvp61Witness.ctx0 128, 0⟩ 10).halt = some .offEnd ∧
    (Model.Mvp63.run Proofs.Mvp63Witness.specErrApp (Proofs.Mvp61Witness.ctx0 128) 2 2 1000).halt = some .offEnd ∧
    (Model.Mvp63.run Proofs.Mvp63Witness.specErrApp (Proofs.Mvp61Witness.ctx0 128) 3 3 1000).halt = some .err ∧
    (Model.Mvp63.run Proofs.Mvp63Witness.specErrApp (Proofs.Mvp61Witness.ctx0 128) 3 3 1000).final.executed = 2 := by
  obtain ⟨a, _⟩ := Proofs.Mvp61Witness.obsSeq_eq Proofs.Mvp63Witness.spec_seq
  obtain ⟨b, _⟩ := Proofs.Mvp61Witness.obs_eq Proofs.Mvp63Witness.spec_p2
  obtain ⟨c, _, _, d, _⟩ := Proofs.Mvp61Witness.obs_eq Proofs.Mvp63Witness.spec_p3
  exact ⟨a, b, c, d⟩

/-- **KF-ooo-2branch on MVP-6.3** (two units: normal end, 12 instructions executed, `s10 = 2`; MVP-1: `s10 = 0`), and
**the shadow of a slow branch is rolled back** (the witness of `mvp61_commits_shadow`, three units: `a4 = 0`). -/
theorem mvp63_second_branch_wins_and_shadow_rolled_back :
    (Model.Seq.runMvp1 Proofs.Mvp61Witness.twoApp ⟨Proofs.Mvp61Witness.ctx0 256, 0⟩ 100).final.ctx.Registers.get1 26 = 0#32 ∧
    (Model.Mvp63.run Proofs.Mvp61Witness.twoApp (Proofs.Mvp61Witness.ctx0 256) 2 2 1500).halt = some .offEnd ∧
    (Model.Mvp63.run Proofs.Mvp61Witness.twoApp (Proofs.Mvp61Witness.ctx0 256) 2 2 1500).final.executed = 12 ∧
    (Model.Mvp63.run Proofs.Mvp61Witness.twoApp (Proofs.Mvp61Witness.ctx0 256) 2 2 1500).final.ctx.Registers.get1 26 = 2#32 ∧
    (Model.Mvp63.run Proofs.Mvp61Witness.shadowApp (Proofs.Mvp61Witness.ctx0 128) 3 3 1000).final.executed = 3 ∧
    (Model.Mvp63.run Proofs.Mvp61Witness.shadowApp (Proofs.Mvp61Witness.ctx0 128) 3 3 1000).final.ctx.Registers.get1 14 = 0#32 := by
  obtain ⟨_, a, _⟩ := Proofs.Mvp61Witness.obsSeq_eq Proofs.Mvp61Witness.two_seq
  obtain ⟨c, _, _, d, _, e, _⟩ := Proofs.Mvp61Witness.obs_eq Proofs.Mvp63Witness.two63_p2
  obtain ⟨_, _, _, f, _, g, _⟩ := Proofs.Mvp61Witness.obs_eq Proofs.Mvp63Witness.shadow63_p3
  exact ⟨a, c, d, e, f, g⟩

end Props.C12

/-! ## MVP-6.1 / 6.2: what a forwarded operand means (follow-up of package M61)

`mvp61_forwarding_sends_result` and `mvp61_forwarding_delivers` say WHICH value reaches the consumer and where it is put.
This section says what it does there, for all 45 regenerated instruction structs. -/
namespace Props.C12

/-- **forwarding is an early write-back (the C04 clause for the forwarded operand).**  Let `e` be the producer's execution
(a register result for a register other than `x0`).  The consumer — any instruction, forward slot empty before — run with
the slot `{e.Register ↦ e.RegisterValue}` (what `euPrepare_receives` installs) on a context in map mode with nothing
uncommitted computes EXACTLY what it computes, slot empty, on the context after the producer's write-back
(`Model.Seq.writeRegister c e` = `ctx.WriteRegister(e)`); the same for the addresses `MemoryRead` returns. -/
theorem mvp61_forwarded_run_is_run_after_writeback (i : Gen.Instr) (hf : Model.fwdOf i = {}) (c : Model.Context)
    (hr : c.rat = false) (ht : c.Transaction.entries = []) (h00 : GoInt.GoMap.get1 c.Registers 0 = 0#32)
    (e : Gen.Execution) (hreg : e.Register ≠ 0)
    (labels : GoInt.GoMap String Word) (pc : Word) (mem : List Byte) (seq : Word) :
    (i.setForward { Register := e.Register, Value := e.RegisterValue }).run c labels pc mem seq =
      i.run (Model.Seq.writeRegister c e) labels pc mem seq ∧
    (i.setForward { Register := e.Register, Value := e.RegisterValue }).memoryRead c seq =
      i.memoryRead (Model.Seq.writeRegister c e) seq :=
  ⟨Proofs.Mvp61Fwd.run_forward_eq_write i hf c hr ht h00 e.Register e.RegisterValue hreg labels pc mem seq,
   Proofs.Mvp61Fwd.memoryRead_forward_eq_write i hf c hr ht h00 e.Register e.RegisterValue hreg seq⟩

/-- Non-vacuity: `addi t1, t0, 1` with `t0 = 0` in the register file and the slot `{t0 ↦ 7}` gives `t1 = 8` -/
example : (match ((Gen.Instr.addi_ { rd := 6, rs := 5, imm := 1#32 }).setForward { Register := 5, Value := 7#32 }).run
      ({} : Model.Context) {} 4#32 [] 0#32 with
    | .ok e => e.RegisterChange && e.Register == 6 && e.RegisterValue == 8#32
    | .error _ => false) = true := by
  decide +kernel

/-- **RAW through forwarding: the consumer gets the sequential operand values** (the counterpart, for the forwarded
operand, of `Props.C04.hazard_interlock_sequential_operands`).  `c` is the pipeline's context when the consumer runs, `a`
the architectural one (all older results applied).  If they agree on every register the consumer reads except the forwarded
`fr` — the control unit forwards only when the RAW hazard on `fr` is the consumer's ONLY hazard — and the forwarded value
is the architectural value of `fr`, then the consumer's `Run` / `MemoryRead` with the slot `{fr ↦ v}` on `c` are its
`Run` / `MemoryRead` on `a`. -/
theorem mvp61_forwarded_operands_sequential (i : Gen.Instr) (hf : Model.fwdOf i = {}) (c a : Model.Context)
    (hr : c.rat = false) (ht : c.Transaction.entries = []) (h00 : GoInt.GoMap.get1 c.Registers 0 = 0#32)
    (har : a.rat = false) (hat : a.Transaction.entries = [])
    (fr : Reg) (v : Word) (hfr : fr ≠ 0) (hv : GoInt.GoMap.get1 a.Registers fr = v)
    (hsame : ∀ r ∈ i.readRegisters, r ≠ 0 → r ≠ fr → GoInt.GoMap.get1 c.Registers r = GoInt.GoMap.get1 a.Registers r)
    (labels : GoInt.GoMap String Word) (pc : Word) (mem : List Byte) (seq : Word) :
    (i.setForward { Register := fr, Value := v }).run c labels pc mem seq = i.run a labels pc mem seq ∧
    (i.setForward { Register := fr, Value := v }).memoryRead c seq = i.memoryRead a seq :=
  Proofs.Mvp61Fwd.forwarded_operands_sequential i hf c a hr ht h00 har hat fr v hfr hv hsame labels pc mem seq

/-- **the three models never mix.**  `Model.Mvp62` and `Model.Mvp63` are `Model.Mvp61` with the configuration flags `v62`,
`v63` set by their `init`; no tick changes a flag, so every state of a run is in the configuration of its initial state:
`(false, false)` for MVP-6.1, `(true, false)` for MVP-6.2, `(true, true)` for MVP-6.3. -/
theorem mvp6x_configuration_is_constant (app : App) (ctx : Model.Context) (eu wu fuel : Nat) (s : Model.Mvp61.State) :
    (Model.Mvp61.init ctx eu wu = .ok s →
      (Model.Mvp61.runFrom app fuel s 0).final.v62 = false ∧ (Model.Mvp61.runFrom app fuel s 0).final.v63 = false) ∧
    (Model.Mvp62.init ctx eu wu = .ok s →
      (Model.Mvp61.runFrom app fuel s 0).final.v62 = true ∧ (Model.Mvp61.runFrom app fuel s 0).final.v63 = false) ∧
    (Model.Mvp63.init ctx eu wu = .ok s →
      (Model.Mvp61.runFrom app fuel s 0).final.v62 = true ∧ (Model.Mvp61.runFrom app fuel s 0).final.v63 = true) := by
  have h := Proofs.Mvp61Cfg.run_cfg app fuel s
  refine ⟨fun hi => ?_, fun hi => ?_, fun hi => ?_⟩
  · have := Proofs.Mvp61Cfg.init61_cfg hi; exact ⟨h.1.trans this.1, h.2.trans this.2.1⟩
  · have := Proofs.Mvp61Cfg.init62_cfg hi; exact ⟨h.1.trans this.1, h.2.trans this.2.1⟩
  · have := Proofs.Mvp61Cfg.init63_cfg hi; exact ⟨h.1.trans this.1, h.2.trans this.2.1⟩

end Props.C12

/-! ## MVP-6.3: the "no verdict" class of the tie, made precise (follow-up of package M63)

The model signals a Go result that depends on map iteration order through the ghost field `State.mapOrder`
(`Model.Mvp63.isMapOrder r = r.final.mapOrder.isSome`): `shouldUseForwarding` answers `ambiguous p q`, `handleRunner` records
`(candidate, p, q)`, and `cycleM` ends the run right after the control unit with the distinguished panic. -/
namespace Props.C12

/-- **`maporder` iff two producers.**  `shouldUseForwarding` — the only place where MVP-6.3's result depends on Go's map
iteration order — answers `ambiguous` EXACTLY when forwarding is tried at all (the candidate has exactly one hazard, of
type read-after-write) and two runners with different identities among those pushed in the previous cycle each write a
register the candidate reads (`fwdCandidates`: the matching runners with the matched register). -/
theorem mvp63_maporder_iff_two_producers (prev : List Model.Mvp61.Runner) (r : Model.Mvp61.Runner)
    (hz : List (Model.Mvp61.HazardType × Reg)) :
    (∃ p q, Model.Mvp61.shouldUseForwarding prev r hz = .ambiguous p q) ↔
      (∃ reg, hz = [(.raw, reg)]) ∧
      ∃ c1 ∈ Model.Mvp61.fwdCandidates prev r, ∃ c2 ∈ Model.Mvp61.fwdCandidates prev r, c1.1.uid ≠ c2.1.uid :=
  Proofs.Mvp63MapOrder.ambiguous_iff prev r hz

/-- **in every other case Go's map iteration order is irrelevant**: if the answer for the runners in push order is
`one p reg`, every matching runner has `p`'s identity and the answer for ANY permutation of the runners is `one` with that
identity; if it is `no`, it is `no` for any permutation. -/
theorem mvp63_forwarding_choice_order_independent {prev prev' : List Model.Mvp61.Runner} {r : Model.Mvp61.Runner}
    {hz : List (Model.Mvp61.HazardType × Reg)} (hp : prev'.Perm prev) :
    (∀ p reg, Model.Mvp61.shouldUseForwarding prev r hz = .one p reg →
      (∀ c ∈ Model.Mvp61.fwdCandidates prev r, c.1.uid = p.uid) ∧
      ∃ p' reg', Model.Mvp61.shouldUseForwarding prev' r hz = .one p' reg' ∧ p'.uid = p.uid) ∧
    (Model.Mvp61.shouldUseForwarding prev r hz = .no → Model.Mvp61.shouldUseForwarding prev' r hz = .no) :=
  ⟨fun _ _ h => Proofs.Mvp63MapOrder.one_of_perm h hp, fun h => Proofs.Mvp63MapOrder.no_of_perm h hp⟩

/-- **a run marked `maporder` met two producers.**  If a run of MVP-6.3 (likewise 6.1, 6.2: the statement is about
`runFrom` from any state without marker) ends with the marker `(r, p, q)`, then it ended with the distinguished panic, and
in its last tick the control unit examined the candidate `r` while `p` and `q` — different identities, both in
`pushedRunnersInPreviousCycle` (the final state's `cuPrev`) — each write a register `r` reads.  No other unit ever sets the
marker (`Proofs.Mvp61Cfg.Cfg.mo` for the fetch, decode, execute and write units and every branch of `cycleM`). -/
theorem mvp63_maporder_only_with_two_producers (app : App) (ctx : Model.Context) (eu wu fuel : Nat)
    (w : Model.Mvp61.Runner × Model.Mvp61.Runner × Model.Mvp61.Runner)
    (h : (Model.Mvp63.run app ctx eu wu fuel).final.mapOrder = some w) :
    (Model.Mvp63.run app ctx eu wu fuel).halt = some (.panic Model.Mvp61.mapOrderMsg) ∧
    w.2.1 ∈ (Model.Mvp63.run app ctx eu wu fuel).final.cuPrev ∧ w.2.2 ∈ (Model.Mvp63.run app ctx eu wu fuel).final.cuPrev ∧
    w.2.1.uid ≠ w.2.2.uid ∧
    (Model.Mvp61.fwdMatch w.2.1 w.1).isSome = true ∧ (Model.Mvp61.fwdMatch w.2.2 w.1).isSome = true := by
  unfold Model.Mvp63.run at h ⊢
  split at h
  · rename_i s hs
    exact Proofs.Mvp61Cfg.runFrom_mapOrder app fuel s 0 (Proofs.Mvp61Cfg.init63_cfg hs).2.2 w h
  · cases h

end Props.C12

/-! ## MVP-7.0 (package M70): lower bound, and the MSI protocol at work

`Model.Mvp70` is the cycle-accurate model of `proc/mvp7-0`: `Model.Mvp61` in MVP-6.3's configuration for the fetch, decode,
control and write units, the branch unit and the rename tables, plus one L1D per core behind a cache controller (`cc.go`:
the closure states of its read / write / snoop coroutines) and the MSI directory (`msi.go`: states, semaphores, snoop
commands).  Tied to the Go machine with 1, 2, 3 and 4 cores by exact agreement of status, cycle count, tick count and final
registers and memory on every generated case (fields `m70pK` of the driver, thorough tier) whose result does not depend on
Go's map iteration order (`maporder`: the forwarding choice inherited from MVP-6.3, or two snoop requests pending to one
core). -/
namespace Props.C12

/-- **C12 lower bound, MVP-7.0**: with `par` cores at most `par` instructions are executed per tick, and the cycle counter
is at least `executed / par`.  For every run. -/
theorem mvp70_lower_bound (app : App) (ctx : Model.Context) (par fuel : Nat) :
    (Model.Mvp70.run app ctx par fuel).final.base.executed ≤ par * (Model.Mvp70.run app ctx par fuel).ticks ∧
    ((Model.Mvp70.run app ctx par fuel).final.base.executed : Int) ≤
      par * (Model.Mvp70.run app ctx par fuel).final.base.cycles :=
  Proofs.Mvp70.run_executed_le app ctx par fuel

/-- Non-vacuity: the two-core run of `Proofs.Mvp61Witness.memApp` executes 2 instructions in 1249 cycles -/
example : (Model.Mvp70.run Proofs.Mvp61Witness.memApp (Proofs.Mvp61Witness.ctx0 128) 2 2000).final.base.cycles = 1249 ∧
    (Model.Mvp70.run Proofs.Mvp61Witness.memApp (Proofs.Mvp61Witness.ctx0 128) 2 2000).final.base.executed = 2 := by
  obtain ⟨_, a, _, b, _⟩ := Proofs.Mvp70Witness.obs_eq Proofs.Mvp70Witness.mem_p2
  exact ⟨a, b⟩

/-- **the MSI protocol keeps the store MVP-6.1 loses** (the witness of KF-ooo-mem / `mvp61_loses_store`:
`lb t2, 7(zero); sh zero, 4, zero`, memory all `0x11`).  MVP-7.0 with one core and with two cores ends normally with the
half word stored (`Proofs.Mvp61Witness.stored`, as the unpipelined machine); with two cores the load runs on core 0 and the
store on core 1, whose `lock` sends core 0 ONE snoop command (none with one core), at the price of 310 more cycles. -/
theorem mvp70_msi_keeps_store :
    (Model.Mvp70.run Proofs.Mvp61Witness.memApp (Proofs.Mvp61Witness.ctx0 128) 1 2000).halt = some .offEnd ∧
    (Model.Mvp70.run Proofs.Mvp61Witness.memApp (Proofs.Mvp61Witness.ctx0 128) 1 2000).final.msi.nextCmd = 0 ∧
    (Model.Mvp70.run Proofs.Mvp61Witness.memApp (Proofs.Mvp61Witness.ctx0 128) 1 2000).final.base.ctx.Memory.take 8 = Proofs.Mvp61Witness.stored ∧
    (Model.Mvp70.run Proofs.Mvp61Witness.memApp (Proofs.Mvp61Witness.ctx0 128) 2 2000).halt = some .offEnd ∧
    (Model.Mvp70.run Proofs.Mvp61Witness.memApp (Proofs.Mvp61Witness.ctx0 128) 2 2000).final.base.executed = 2 ∧
    (Model.Mvp70.run Proofs.Mvp61Witness.memApp (Proofs.Mvp61Witness.ctx0 128) 2 2000).final.msi.nextCmd = 1 ∧
    (Model.Mvp70.run Proofs.Mvp61Witness.memApp (Proofs.Mvp61Witness.ctx0 128) 2 2000).final.base.ctx.Memory.take 8 = Proofs.Mvp61Witness.stored := by
  obtain ⟨a, _, _, _, b, _, c⟩ := Proofs.Mvp70Witness.obs_eq Proofs.Mvp70Witness.mem_p1
  obtain ⟨d, _, _, e, f, _, g⟩ := Proofs.Mvp70Witness.obs_eq Proofs.Mvp70Witness.mem_p2
  exact ⟨a, b, c, d, e, f, g⟩

end Props.C12

/-! ## MVP-7.1 (package M71): lower bound, and the control unit's synchronisation cycle

`Model.Mvp71` is `Model.Mvp70` with the configuration flag `v71`: the control unit keeps a COPY of the MSI states (renewed,
at the price of one skipped control cycle, after every evict request), gives loads / stores a preferred core from it
(`Model.Mvp61.euPreference`), the execute units pick by preference and read registers tagged with the runner's sequence id.
Tied to the Go machine with 1 … 4 cores like `Model.Mvp70` (fields `m71pK`, thorough tier). -/
namespace Props.C12

/-- **C12 lower bound, MVP-7.1** -/
theorem mvp71_lower_bound (app : App) (ctx : Model.Context) (par fuel : Nat) :
    (Model.Mvp71.run app ctx par fuel).final.base.executed ≤ par * (Model.Mvp71.run app ctx par fuel).ticks ∧
    ((Model.Mvp71.run app ctx par fuel).final.base.executed : Int) ≤
      par * (Model.Mvp71.run app ctx par fuel).final.base.cycles :=
  Proofs.Mvp71.run_executed_le app ctx par fuel

/-- **the synchronisation cycle, on the tied models.**  `li s1, 64; li s4, 128; lb s0, 18(s4); sw a2, 24, s4; sw s0, 16, s1`
with two cores (memory `0x11…`): the first store makes core 0 evict the line the load brought in; MVP-7.1's control unit
then spends one cycle copying the MSI states.  Both machines execute the 5 instructions, create one snoop command and end
with the same `s0`; MVP-7.0 needs 1561 cycles, MVP-7.1 1562. -/
theorem mvp71_sync_cycle :
    (Model.Mvp70.run Proofs.Mvp71.syncApp (Proofs.Mvp61Witness.ctx0 256) 2 2000).halt = some .offEnd ∧
    (Model.Mvp70.run Proofs.Mvp71.syncApp (Proofs.Mvp61Witness.ctx0 256) 2 2000).final.base.cycles = 1561 ∧
    (Model.Mvp71.run Proofs.Mvp71.syncApp (Proofs.Mvp61Witness.ctx0 256) 2 2000).halt = some .offEnd ∧
    (Model.Mvp71.run Proofs.Mvp71.syncApp (Proofs.Mvp61Witness.ctx0 256) 2 2000).final.base.cycles = 1562 ∧
    (Model.Mvp71.run Proofs.Mvp71.syncApp (Proofs.Mvp61Witness.ctx0 256) 2 2000).final.base.executed = 5 ∧
    (Model.Mvp71.run Proofs.Mvp71.syncApp (Proofs.Mvp61Witness.ctx0 256) 2 2000).final.msi.nextCmd = 1 ∧
    (Model.Mvp71.run Proofs.Mvp71.syncApp (Proofs.Mvp61Witness.ctx0 256) 2 2000).final.base.ctx.Registers.get1 8 = 0x11#32 := by
  obtain ⟨a, b, _⟩ := Proofs.Mvp70Witness.obs_eq Proofs.Mvp71.sync_p2_70
  obtain ⟨c, d, _, e, f, g, _⟩ := Proofs.Mvp70Witness.obs_eq Proofs.Mvp71.sync_p2_71
  exact ⟨a, b, c, d, e, f, g⟩

end Props.C12

/-! ## MVP-8.0 (package M80): lower bound, and the shared L3 at work

`Model.Mvp80` is `Model.Mvp71` with a shared L3 (32 lines of 128 bytes) between the L1Ds and memory (`Model.Mvp70`:
`ccRead80`, `ccWrite80`, the snoop jobs `l3Evict` / `l1WriteBack80` / `l3WriteBack`, `finish80`; flag `Msi.v80`).  Tied to
the Go machine with 1 … 4 cores like `Model.Mvp70` (fields `m80pK`, thorough tier). -/
namespace Props.C12

/-- **C12 lower bound, MVP-8.0** -/
theorem mvp80_lower_bound (app : App) (ctx : Model.Context) (par fuel : Nat) :
    (Model.Mvp80.run app ctx par fuel).final.base.executed ≤ par * (Model.Mvp80.run app ctx par fuel).ticks ∧
    ((Model.Mvp80.run app ctx par fuel).final.base.executed : Int) ≤
      par * (Model.Mvp80.run app ctx par fuel).final.base.cycles :=
  Proofs.Mvp80.run_executed_le app ctx par fuel

/-- **the write-back between two cores goes through the L3.**  On the witness of KF-ooo-mem
(`lb t2, 7(zero); sh zero, 4, zero`, memory `0x11…`) MVP-8.0 ends with the half word stored with one core (1089 cycles, no
snoop command) and with two cores (1093 cycles, one snoop command: core 0 writes the line back into the L3 in 50 cycles —
MVP-7.0 writes it to memory and needs 1249 cycles, `mvp70_msi_keeps_store`); the L3 holds one block at the end, which
`l3WriteBack` copies to memory. -/
theorem mvp80_write_back_through_l3 :
    (Model.Mvp80.run Proofs.Mvp61Witness.memApp (Proofs.Mvp61Witness.ctx0 128) 1 2000).final.base.cycles = 1089 ∧
    (Model.Mvp80.run Proofs.Mvp61Witness.memApp (Proofs.Mvp61Witness.ctx0 128) 1 2000).final.base.ctx.Memory.take 8 = Proofs.Mvp61Witness.stored ∧
    (Model.Mvp80.run Proofs.Mvp61Witness.memApp (Proofs.Mvp61Witness.ctx0 128) 2 2000).halt = some .offEnd ∧
    (Model.Mvp80.run Proofs.Mvp61Witness.memApp (Proofs.Mvp61Witness.ctx0 128) 2 2000).final.base.cycles = 1093 ∧
    (Model.Mvp80.run Proofs.Mvp61Witness.memApp (Proofs.Mvp61Witness.ctx0 128) 2 2000).final.msi.nextCmd = 1 ∧
    (Model.Mvp80.run Proofs.Mvp61Witness.memApp (Proofs.Mvp61Witness.ctx0 128) 2 2000).final.l3.lines.length = 1 ∧
    (Model.Mvp80.run Proofs.Mvp61Witness.memApp (Proofs.Mvp61Witness.ctx0 128) 2 2000).final.base.ctx.Memory.take 8 = Proofs.Mvp61Witness.stored := by
  have h1 := Proofs.Mvp80.mem_p1
  have h2 := Proofs.Mvp80.mem_p2
  simp only [Proofs.Mvp80.obs, Prod.mk.injEq] at h1 h2
  obtain ⟨_, a, _, _, _, _, b⟩ := Proofs.Mvp70Witness.obs_eq h1.1
  obtain ⟨c, d, _, _, e, _, f⟩ := Proofs.Mvp70Witness.obs_eq h2.1
  exact ⟨a, b, c, d, e, h2.2, f⟩

end Props.C12

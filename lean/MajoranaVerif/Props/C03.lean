/-
  Props/C03.lean — C03 for MVP-4 (proved on the cycle-accurate model `Model.Mvp4`, tied to the Go code
  cycle-exactly): wrong-path instructions leave no architectural trace.

  MVP-4 fetches sequentially (`simpleBranchUnit` expects `pc + 4` after a conditional branch and nothing after
  a jump), so everything behind a taken branch or a jump is wrong-path.  The argument:
    * the in-flight instructions (execute unit, execute bus, decode bus, fetch pc) are always a run of
      CONSECUTIVE pcs starting at the architectural pc (`NormalOk.consec`, part of the relation `Rel`);
    * `tick_is_zero_or_one_sequential_step`: in every tick the machine performs zero or one step of the
      unpipelined machine on the architectural state — the execute unit only ever runs the instruction at the
      architectural pc, so a wrong-path instruction (register write, store, load from any address, `jal`,
      division by zero, undefined label — whatever it is) never reaches `Run`, cannot fail the run and cannot
      touch registers, memory, the caches' data or the scoreboards;
    * `redirect_flushes_everything_younger`: the flush after a redirect leaves the decode bus, the execute bus
      and the write bus empty, both scoreboards empty, the fetch unit at the target — and
      `redirect_restores_relation`: the relation holds again with the front end empty;
    * `wrong_path_leaves_no_architectural_trace`: end to end, final registers and memory are those of the
      unpipelined machine, which never sees the wrong path.
-/
import MajoranaVerif.Proofs.Mvp4Run
open GoInt Model Model.Mvp4 Model.Seq Proofs.Mvp4

namespace Props.C03

/-- every tick is zero or one step of the unpipelined machine (see `TickPost`): nothing else moves the
architectural state, and the run ends only the way the unpipelined run ends. -/
theorem tick_is_zero_or_one_sequential_step (app : App) (s s' : State) (a : Arch) (ev : Event)
    (hR : Rel app s a) (hnf : NoFwd app) (hok : stepOk app a = true) (h : cycle app s = (s', ev)) :
    TickPost app a s' ev := cycle_sim hR hnf hok h

/-- the in-flight pcs are consecutive from the architectural pc: what is in the pipeline behind a branch is
exactly the fall-through path -/
theorem in_flight_window_is_sequential (app : App) (s : State) (a : Arch) (hR : Rel app s a) (hm : s.mode = .normal) :
    Consec a.pc (window s) := by
  have := hR.front; rw [hm] at this; exact this.consec

/-- `CPU.flush(pc)`: nothing of the wrong path is left — no bus content, no scoreboard entry; registers and
memory are untouched; fetching restarts at the target. -/
theorem redirect_flushes_everything_younger (s : State) (pc : Word) :
    (flushAll s pc).decodeBus.isEmpty = true ∧ (flushAll s pc).executeBus.isEmpty = true ∧
    (flushAll s pc).writeBus.isEmpty = true ∧ (flushAll s pc).pwmi = [] ∧
    (flushAll s pc).ctx.PendingWriteRegisters.entries = [] ∧
    (flushAll s pc).fu.pc = pc ∧ (flushAll s pc).fu.processing = false ∧ (flushAll s pc).fu.complete = false ∧
    (flushAll s pc).ctx.Registers = s.ctx.Registers ∧ (flushAll s pc).ctx.Memory = s.ctx.Memory ∧
    (flushAll s pc).mmu = s.mmu :=
  ⟨rfl, rfl, rfl, rfl, rfl, rfl, rfl, rfl, rfl, rfl, rfl⟩

/-- after the drain and the flush the simulation relation holds with the architectural pc at the target -/
theorem redirect_restores_relation (app : App) (s : State) (a : Arch) (pc : Word) (hb : Back s a)
    (he : s.writeBus.isEmpty = true) (hpc : a.pc = pc) (hproc : s.eu.processing = false)
    (hpe : s.eu.pendingMemoryRead = false) (hm : s.eu.memory = none) :
    Back (flushAll s pc) a ∧ NormalOk app (flushAll s pc) a := flushAll_rel hb he hpc hproc hpe hm

/-- **end to end**: registers and memory after the run are those of the unpipelined machine. -/
theorem wrong_path_leaves_no_architectural_trace (app : App) (hnf : NoFwd app) (ctx : Model.Context) (hc : CtxOk ctx)
    (fuel : Nat) (hok : seqOk app fuel ⟨ctx, 0#32⟩ = true) (hk : Halt)
    (hh : (Model.Mvp4.run app ctx fuel).halt = some hk) (hnp : ∀ w, hk ≠ .panic w) :
    ∃ n, (runMvp1 app ⟨ctx, 0#32⟩ n).halt = some hk ∧
      (hk ≠ .err →
        (Model.Mvp4.run app ctx fuel).final.ctx.Registers = (runMvp1 app ⟨ctx, 0#32⟩ n).final.ctx.Registers ∧
        (Model.Mvp4.run app ctx fuel).final.ctx.Memory = (runMvp1 app ⟨ctx, 0#32⟩ n).final.ctx.Memory) :=
  mvp4_refines_mvp1 app hnf ctx hc fuel hok hk hh hnp

/-! non-vacuity: a taken branch whose shadow holds a register write, a store, a division by zero and a `jal` -/

/-- `li x5,0 ; beqz x5,L ; li x6,99 ; sw x6,0(x0) ; div x8,x6,x0 ; jal x1,L ; L: li x7,1 ; ret` -/
def exApp : App :=
  { instrs := [.li_ { rd := 5, imm := 0#32 }, .beqz_ { rs := 5, label := "L" }, .li_ { rd := 6, imm := 99#32 },
               .sw_ { rs := 6, rd := 0, offset := 0#32 }, .div_ { rd := 8, rs1 := 6, rs2 := 0 },
               .jal_ { rd := 1, label := "L" }, .li_ { rd := 7, imm := 1#32 }, .ret_ {}],
    labels := ⟨[("L", 24#32)]⟩ }
def exCtx : Model.Context := { Memory := List.replicate 64 0#8 }

example : NoFwd exApp := by unfold NoFwd exApp; decide
example : CtxOk exCtx := ⟨rfl, rfl, fun r => by simp [exCtx, GoMap.get1, GoMap.get, GoMap.find?]⟩
set_option maxRecDepth 100000 in
example : seqOk exApp 6000 ⟨exCtx, 0#32⟩ = true := by decide
set_option maxRecDepth 100000 in
example : (Model.Mvp4.run exApp exCtx 6000).halt = some .ret ∧
    GoMap.get1 (Model.Mvp4.run exApp exCtx 6000).final.ctx.Registers 6 = 0#32 ∧
    GoMap.get1 (Model.Mvp4.run exApp exCtx 6000).final.ctx.Registers 1 = 0#32 ∧
    GoMap.get1 (Model.Mvp4.run exApp exCtx 6000).final.ctx.Registers 7 = 1#32 ∧
    (Model.Mvp4.run exApp exCtx 6000).final.ctx.Memory = List.replicate 64 0#8 := by decide

end Props.C03

/-
  Props/C03.lean — C03 for MVP-4 (proved on the cycle-accurate model `Model.Mvp4`, tied to the Go code
  cycle-exactly): wrong-path instructions leave no architectural trace.

  MVP-4 fetches sequentially (`simpleBranchUnit` expects `pc + 4` after a conditional branch and nothing after
  a jump), so everything behind a taken branch or a jump is wrong-path.  The argument:
    * the in-flight instructions (execute unit, execute bus, decode bus, fetch pc) are always a run of
      CONSECUTIVE pcs starting at the architectural pc (`NormalOk.consec`, part of the relation `Rel`);
    * `tick_is_zero_or_one_sequential_step`: in every tick the machine performs zero or one step of the
      unpipelined machine on the architectural state — the execute unit only ever runs the instruction at the
      architectural pc, so a wrong-path instruction (register write, store, load from any address, `jal`,
      division by zero, undefined label — whatever it is) never reaches `Run`, cannot fail the run and cannot
      touch registers, memory, the caches' data or the scoreboards;
    * `redirect_flushes_everything_younger`: the flush after a redirect leaves the decode bus, the execute bus
      and the write bus empty, both scoreboards empty, the fetch unit at the target — and
      `redirect_restores_relation`: the relation holds again with the front end empty;
    * `wrong_path_leaves_no_architectural_trace`: end to end, final registers and memory are those of the
      unpipelined machine, which never sees the wrong path.
-/
import MajoranaVerif.Proofs.Mvp4Run
import MajoranaVerif.Proofs.Mvp5Run
import MajoranaVerif.Proofs.Mvp60SlRun
import MajoranaVerif.Proofs.Mvp60Flush
import MajoranaVerif.Proofs.Mvp60Jump
open GoInt Model Model.Mvp4 Model.Seq Proofs.Mvp4

namespace Props.C03

/-- every tick is zero or one step of the unpipelined machine (see `TickPost`): nothing else moves the
architectural state, and the run ends only the way the unpipelined run ends. -/
theorem tick_is_zero_or_one_sequential_step (app : App) (s s' : State) (a : Arch) (ev : Event)
    (hR : Rel app s a) (hnf : NoFwd app) (hok : stepOk app a = true) (h : cycle app s = (s', ev)) :
    TickPost app a s' ev := cycle_sim hR hnf hok h

/-- the in-flight pcs are consecutive from the architectural pc: what is in the pipeline behind a branch is
exactly the fall-through path -/
theorem in_flight_window_is_sequential (app : App) (s : State) (a : Arch) (hR : Rel app s a) (hm : s.mode = .normal) :
    Consec a.pc (window s) := by
  have := hR.front; rw [hm] at this; exact this.consec

/-- `CPU.flush(pc)`: nothing of the wrong path is left — no bus content, no scoreboard entry; registers and
memory are untouched; fetching restarts at the target. -/
theorem redirect_flushes_everything_younger (s : State) (pc : Word) :
    (flushAll s pc).decodeBus.isEmpty = true ∧ (flushAll s pc).executeBus.isEmpty = true ∧
    (flushAll s pc).writeBus.isEmpty = true ∧ (flushAll s pc).pwmi = [] ∧
    (flushAll s pc).ctx.PendingWriteRegisters.entries = [] ∧
    (flushAll s pc).fu.pc = pc ∧ (flushAll s pc).fu.processing = false ∧ (flushAll s pc).fu.complete = false ∧
    (flushAll s pc).ctx.Registers = s.ctx.Registers ∧ (flushAll s pc).ctx.Memory = s.ctx.Memory ∧
    (flushAll s pc).mmu = s.mmu :=
  ⟨rfl, rfl, rfl, rfl, rfl, rfl, rfl, rfl, rfl, rfl, rfl⟩

/-- after the drain and the flush the simulation relation holds with the architectural pc at the target -/
theorem redirect_restores_relation (app : App) (s : State) (a : Arch) (pc : Word) (hb : Back s a)
    (he : s.writeBus.isEmpty = true) (hpc : a.pc = pc) (hproc : s.eu.processing = false)
    (hpe : s.eu.pendingMemoryRead = false) (hm : s.eu.memory = none) :
    Back (flushAll s pc) a ∧ NormalOk app (flushAll s pc) a := flushAll_rel hb he hpc hproc hpe hm

/-- **end to end**: registers and memory after the run are those of the unpipelined machine. -/
theorem wrong_path_leaves_no_architectural_trace (app : App) (hnf : NoFwd app) (ctx : Model.Context) (hc : CtxOk ctx)
    (fuel : Nat) (hok : seqOk app fuel ⟨ctx, 0#32⟩ = true) (hk : Halt)
    (hh : (Model.Mvp4.run app ctx fuel).halt = some hk) (hnp : ∀ w, hk ≠ .panic w) :
    ∃ n, (runMvp1 app ⟨ctx, 0#32⟩ n).halt = some hk ∧
      (hk ≠ .err →
        (Model.Mvp4.run app ctx fuel).final.ctx.Registers = (runMvp1 app ⟨ctx, 0#32⟩ n).final.ctx.Registers ∧
        (Model.Mvp4.run app ctx fuel).final.ctx.Memory = (runMvp1 app ⟨ctx, 0#32⟩ n).final.ctx.Memory) :=
  mvp4_refines_mvp1 app hnf ctx hc fuel hok hk hh hnp

/-! non-vacuity: a taken branch whose shadow holds a register write, a store, a division by zero and a `jal` -/

/-- `li x5,0 ; beqz x5,L ; li x6,99 ; sw x6,0(x0) ; div x8,x6,x0 ; jal x1,L ; L: li x7,1 ; ret` -/
def exApp : App :=
  { instrs := [.li_ { rd := 5, imm := 0#32 }, .beqz_ { rs := 5, label := "L" }, .li_ { rd := 6, imm := 99#32 },
               .sw_ { rs := 6, rd := 0, offset := 0#32 }, .div_ { rd := 8, rs1 := 6, rs2 := 0 },
               .jal_ { rd := 1, label := "L" }, .li_ { rd := 7, imm := 1#32 }, .ret_ {}],
    labels := ⟨[("L", 24#32)]⟩ }
def exCtx : Model.Context := { Memory := List.replicate 64 0#8 }

example : NoFwd exApp := by unfold NoFwd exApp; decide
example : CtxOk exCtx := ⟨rfl, rfl, fun r => by simp [exCtx, GoMap.get1, GoMap.get, GoMap.find?]⟩
set_option maxRecDepth 100000 in
example : seqOk exApp 6000 ⟨exCtx, 0#32⟩ = true := by decide
set_option maxRecDepth 100000 in
example : (Model.Mvp4.run exApp exCtx 6000).halt = some .ret ∧
    GoMap.get1 (Model.Mvp4.run exApp exCtx 6000).final.ctx.Registers 6 = 0#32 ∧
    GoMap.get1 (Model.Mvp4.run exApp exCtx 6000).final.ctx.Registers 1 = 0#32 ∧
    GoMap.get1 (Model.Mvp4.run exApp exCtx 6000).final.ctx.Registers 7 = 1#32 ∧
    (Model.Mvp4.run exApp exCtx 6000).final.ctx.Memory = List.replicate 64 0#8 := by decide

end Props.C03

/-! ## MVP-5 (work package MVP5)

  C03 for MVP-5, proved on the cycle-accurate model `Model.Mvp5` (tied to the Go code cycle-exactly).  MVP-5 adds
  a branch target buffer: the decode unit stops decoding behind an unconditional jump until the jump is executed
  (`pendingBranchResolution`); a BTB hit at issue restarts the fetch unit at the PREDICTED target, the execution of
  the jump restarts it at the REAL target (always — `notifyJumpAddressResolved`), and both tell the fetch unit to
  clean the decode bus first.  Wrong path = everything fetched behind a taken branch (flushed as in MVP-4) and
  everything fetched behind a jump, predicted or not (never decoded, cleaned off the decode bus).
    * `mvp5_in_flight_window_is_sequential`: the decoded instructions in flight, followed — unless the decode unit
      waits for a jump — by the fetched pcs that will still be decoded and the fetch pc, are consecutive from the
      architectural pc; `mvp5_jump_is_youngest_decoded`: nothing is decoded behind a jump;
    * `mvp5_tick_is_zero_or_one_sequential_step`: in every tick the machine performs zero or one step of the
      unpipelined machine on the architectural state;
    * `mvp5_jump_restarts_fetch_at_target`: executing a jump restarts the fetch unit at the next ARCHITECTURAL pc
      whether or not the BTB predicted it, discards the fetched pcs and releases the decode unit;
    * `mvp5_redirect_flushes_everything_younger`, `mvp5_redirect_restores_relation`: the flush after a redirect;
    * `mvp5_wrong_path_leaves_no_architectural_trace`: end to end. -/

namespace Props.C03

/-- every tick of MVP-5 is zero or one step of the unpipelined machine (see `Proofs.Mvp5.TickPost5`) -/
theorem mvp5_tick_is_zero_or_one_sequential_step (app : App) (s s' : Model.Mvp5.State) (a : Arch) (ev : Event)
    (hR : Proofs.Mvp5.Rel5 app s a) (hnf : NoFwd app) (hok : stepOk app a = true)
    (h : Model.Mvp5.cycle app s = (s', ev)) : Proofs.Mvp5.TickPost5 app a s' ev :=
  Proofs.Mvp5.cycle5_sim hR hnf hok h

/-- the decoded instructions in flight (execute unit, execute bus) and — unless the decode unit waits for a jump —
the pcs the decode unit will still see (none when the fetch unit has been told to clean the bus) and the fetch pc
are consecutive from the architectural pc -/
theorem mvp5_in_flight_window_is_sequential (app : App) (s : Model.Mvp5.State) (a : Arch)
    (hR : Proofs.Mvp5.Rel5 app s a) (hm : s.base.mode = .normal) :
    Consec a.pc ((Proofs.Mvp5.runners s.base).map (·.pc) ++ Proofs.Mvp5.tailW s) := by
  have := hR.front; rw [hm] at this; exact this.consec

/-- an unconditional jump is the youngest decoded instruction, and the decode unit waits exactly while one is in
flight: nothing behind a jump is ever decoded -/
theorem mvp5_jump_is_youngest_decoded (app : App) (s : Model.Mvp5.State) (a : Arch)
    (hR : Proofs.Mvp5.Rel5 app s a) (hm : s.base.mode = .normal) :
    (∀ l x l', Proofs.Mvp5.runners s.base = l ++ x :: l' → Proofs.Mvp5.isJump x = true → l' = [] ∧ s.duPending = true) ∧
    (s.duPending = true → ∃ l x, Proofs.Mvp5.runners s.base = l ++ [x] ∧ Proofs.Mvp5.isJump x = true) := by
  have := hR.front; rw [hm] at this; exact ⟨this.jumpLast, this.pendJump⟩

/-- **a jump restarts the front end at its target**: issuing the unconditional jump at the architectural pc either
stalls (register interlock; the architectural state stays), or fails with the error of the unpipelined machine, or
performs the sequential step — then the fetch unit is at the next ARCHITECTURAL pc and has been told to clean the
decode bus, the decode unit is released, the BTB has learnt the target; `flush` is signalled in addition exactly
when the prediction was wrong or missing. -/
theorem mvp5_jump_restarts_fetch_at_target (app : App) (s s2 : Model.Mvp5.State) (a : Arch) (eu : ExecUnit)
    (r : Runner) (out : EuOut) (hb : Back s.base a) (hsid : eu.storeID = s.base.eu.storeID)
    (hpc : r.pc = a.pc) (hi : instrAt app r.pc = .ok r.instr) (hnf : NoFwd app)
    (hfree : s.base.writeBus.canAdd = true) (hok : stepOk app a = true) (hj : Proofs.Mvp5.isJump r = true)
    (h : Model.Mvp5.euIssue app s eu r = .ok (s2, out)) :
    (out = .none ∧ Back s2.base a ∧ s2.duPending = s.duPending ∧ s2.btb = s.btb) ∨
    (out = .err ∧ ∃ c, stepArch dc app a = .halt .err c) ∨
    (∃ a' c, stepArch dc app a = .next a' c ∧ Back s2.base a' ∧ s2.base.fu.pc = a'.pc ∧
      s2.toCleanPending = true ∧ s2.duPending = false ∧ s2.base.fu.complete = false ∧
      Proofs.Mvp5.tailW s2 = [a'.pc] ∧ s2.btb = Model.Mvp5.btbAdd s.btb r.pc a'.pc ∧
      (out = .none ∨ out = .flush a'.pc)) := by
  obtain ⟨_, hcase⟩ := Proofs.Mvp5.euIssue_jump_sim hb hsid hpc hi hnf hfree hok hj h
  rcases hcase with ⟨h1, h2, _, h4, _, _, _, _, h9, _⟩ | h | ⟨a', c, h1, h2, h3, h4, h5, h6, _, h8, h9⟩
  · exact Or.inl ⟨h1, h2, h4, h9⟩
  · exact Or.inr (Or.inl h)
  · refine Or.inr (Or.inr ⟨a', c, h1, h2, h3.symm, h4, h5, h6, ?_, h9, h8⟩)
    unfold Proofs.Mvp5.tailW Proofs.Mvp5.dEff
    simp [h4, h5, h3]

/-- `CPU.flush(pc)` of MVP-5: nothing of the wrong path is left — no bus content, no scoreboard entry, no
instruction in the execute unit, the decode unit released; registers, memory and the BTB are untouched; fetching
restarts at the target. -/
theorem mvp5_redirect_flushes_everything_younger (s : Model.Mvp5.State) (pc : Word) :
    (Model.Mvp5.flushAll s pc).base.decodeBus.isEmpty = true ∧ (Model.Mvp5.flushAll s pc).base.executeBus.isEmpty = true ∧
    (Model.Mvp5.flushAll s pc).base.writeBus.isEmpty = true ∧ (Model.Mvp5.flushAll s pc).base.pwmi = [] ∧
    (Model.Mvp5.flushAll s pc).base.ctx.PendingWriteRegisters.entries = [] ∧
    (Model.Mvp5.flushAll s pc).base.fu.pc = pc ∧ (Model.Mvp5.flushAll s pc).base.fu.processing = false ∧
    (Model.Mvp5.flushAll s pc).base.fu.complete = false ∧ (Model.Mvp5.flushAll s pc).base.eu.processing = false ∧
    (Model.Mvp5.flushAll s pc).duPending = false ∧
    (Model.Mvp5.flushAll s pc).base.ctx.Registers = s.base.ctx.Registers ∧
    (Model.Mvp5.flushAll s pc).base.ctx.Memory = s.base.ctx.Memory ∧
    (Model.Mvp5.flushAll s pc).base.mmu = s.base.mmu ∧ (Model.Mvp5.flushAll s pc).btb = s.btb :=
  ⟨rfl, rfl, rfl, rfl, rfl, rfl, rfl, rfl, rfl, rfl, rfl, rfl, rfl, rfl⟩

/-- after the drain and the flush the simulation relation of MVP-5 holds with the architectural pc at the target -/
theorem mvp5_redirect_restores_relation (app : App) (s : Model.Mvp5.State) (a : Arch) (pc : Word) (hb : Back s.base a)
    (he : s.base.writeBus.isEmpty = true) (hpc : a.pc = pc)
    (hpe : s.base.eu.pendingMemoryRead = false) (hm : s.base.eu.memory = none) :
    Back (Model.Mvp5.flushAll s pc).base a ∧ Proofs.Mvp5.NormalOk5 app (Model.Mvp5.flushAll s pc) a :=
  Proofs.Mvp5.flushAll5_rel hb he hpc hpe hm

/-- **end to end**: registers and memory after an MVP-5 run are those of the unpipelined machine. -/
theorem mvp5_wrong_path_leaves_no_architectural_trace (app : App) (hnf : NoFwd app) (ctx : Model.Context)
    (hc : CtxOk ctx) (fuel : Nat) (hok : seqOk app fuel ⟨ctx, 0#32⟩ = true) (hk : Halt)
    (hh : (Model.Mvp5.run app ctx fuel).halt = some hk) (hnp : ∀ w, hk ≠ .panic w) :
    ∃ n, (runMvp1 app ⟨ctx, 0#32⟩ n).halt = some hk ∧
      (hk ≠ .err →
        (Model.Mvp5.run app ctx fuel).final.base.ctx.Registers = (runMvp1 app ⟨ctx, 0#32⟩ n).final.ctx.Registers ∧
        (Model.Mvp5.run app ctx fuel).final.base.ctx.Memory = (runMvp1 app ⟨ctx, 0#32⟩ n).final.ctx.Memory) :=
  Proofs.Mvp5.mvp5_refines_mvp1 app hnf ctx hc fuel hok hk hh hnp

/-! non-vacuity: a jump executed twice (BTB miss, then BTB hit) whose shadow holds a register write, a store and a
division by zero; a call and a return through `jalr` -/

/-- `li x5,0 ; li x9,2 ; L: j A ; li x6,99 ; sw x6,0(x0) ; div x8,x6,x0 ; A: addi x5,x5,1 ; bne x5,x9,L ;
jal x1,F ; li x7,1 ; ret ; F: jalr x0,x1,0` -/
def exApp5 : App :=
  { instrs := [.li_ { rd := 5, imm := 0#32 }, .li_ { rd := 9, imm := 2#32 }, .j_ { label := "A" },
               .li_ { rd := 6, imm := 99#32 }, .sw_ { rs := 6, rd := 0, offset := 0#32 }, .div_ { rd := 8, rs1 := 6, rs2 := 0 },
               .addi_ { rd := 5, rs := 5, imm := 1#32 }, .bne_ { rs1 := 5, rs2 := 9, label := "L" },
               .jal_ { rd := 1, label := "F" }, .li_ { rd := 7, imm := 1#32 }, .ret_ {},
               .jalr_ { rd := 0, rs := 1, imm := 0#32 }],
    labels := ⟨[("L", 8#32), ("A", 24#32), ("F", 44#32)]⟩ }

example : NoFwd exApp5 := by unfold NoFwd exApp5; decide
set_option maxRecDepth 100000 in
example : seqOk exApp5 6000 ⟨exCtx, 0#32⟩ = true := by decide
set_option maxRecDepth 100000 in
example : (Model.Mvp5.run exApp5 exCtx 6000).halt = some .ret ∧
    GoMap.get1 (Model.Mvp5.run exApp5 exCtx 6000).final.base.ctx.Registers 6 = 0#32 ∧
    GoMap.get1 (Model.Mvp5.run exApp5 exCtx 6000).final.base.ctx.Registers 8 = 0#32 ∧
    GoMap.get1 (Model.Mvp5.run exApp5 exCtx 6000).final.base.ctx.Registers 5 = 2#32 ∧
    GoMap.get1 (Model.Mvp5.run exApp5 exCtx 6000).final.base.ctx.Registers 7 = 1#32 ∧
    (Model.Mvp5.run exApp5 exCtx 6000).final.base.ctx.Memory = List.replicate 64 0#8 ∧
    (Model.Mvp5.run exApp5 exCtx 6000).final.btb = [(8#32, 24#32), (32#32, 44#32), (44#32, 36#32)] := by decide
/-- the relation the per-tick theorems assume holds in the initial state of every run -/
example : ∃ s0, Model.Mvp5.init exCtx = .ok s0 ∧ Proofs.Mvp5.Rel5 exApp5 s0 ⟨exCtx, 0#32⟩ := by
  obtain ⟨s0, h1, h2, _⟩ := Proofs.Mvp5.init5_rel exApp5 exCtx
    ⟨rfl, rfl, fun r => by simp [exCtx, GoMap.get1, GoMap.get, GoMap.find?]⟩
  exact ⟨s0, h1, h2⟩

end Props.C03

/-! ## MVP-6.0 (package R60): the pipeline of the first superscalar variant stays in program order

Proved for straight-line register-only programs (`Model.Mvp60.StraightLine`: no load/store, branch, jump, `ret`) and every
number of execute and write units; for programs with control flow the corresponding statements are part of the unproved
`Props.C01.Full_mvp60_regonly_correct`. -/
namespace Props.C03

/-- **the in-flight window is sequential (MVP-6.0).**  Between two ticks the runners on the execute bus, in the control
unit's queue and on the control bus — oldest first — are the instructions number `n0, n0+1, …` of the program, where `n0`
is the instruction the unpipelined machine executes next; the pcs on the decode bus and the fetch unit's pc continue them. -/
theorem mvp60_in_flight_window_is_sequential (app : App) (s : Model.Mvp60.State) (a : Arch) (h : Proofs.Mvp60Sl.Rel app s a) :
    ∃ n0, a.pc = Proofs.Mvp60Sl.pcOf n0 ∧ Proofs.Mvp60Sl.Chain app n0 (Proofs.Mvp60Sl.runners s) ∧
      Proofs.Mvp60Sl.Pcs app (n0 + (Proofs.Mvp60Sl.runners s).length) s.fu s.decodeBus.inside 0 := by
  obtain ⟨n0, h1, h2⟩ := h.front
  exact ⟨n0, h1, h2.chain, h2.pcs⟩

/-- **one tick of MVP-6.0 is a number of steps of the unpipelined machine** (at most one per execute unit, in program
order): after it the relation holds again for the state the unpipelined machine has reached, or the run has ended the way
the unpipelined machine ends there (past the last instruction with its registers and memory, or with its defined error). -/
theorem mvp60_tick_is_sequential_steps (app : App) (hp : Proofs.Mvp60Sl.Prog app) (a0 : Arch) (s s' : Model.Mvp60.State)
    (a : Arch) (k : Nat) (ev : Model.Mvp60.Event) (hk : Proofs.Mvp4.seqIter app k a0 = some a)
    (hr : Proofs.Mvp60Sl.Rel app s a) (h : Model.Mvp60.cycle app s = (s', ev)) : Proofs.Mvp60Sl.TickPost app a0 s' ev :=
  Proofs.Mvp60Sl.cycle_sim app hp a0 s s' a k ev hk hr h

/-- Non-vacuity: the initial state of the machine (any number of units) is in the relation with the initial state of the
unpipelined machine -/
example (app : App) (eu : Nat) : ∃ s0, Model.Mvp60.init { Memory := List.replicate 64 0#8 } eu eu = .ok s0 ∧
    Proofs.Mvp60Sl.Rel app s0 ⟨{ Memory := List.replicate 64 0#8 }, 0#32⟩ :=
  Proofs.Mvp60Sl.init_rel app _ ⟨rfl, rfl, fun r => rfl⟩ eu eu rfl

end Props.C03

/-! ## MVP-6.0 (package R60b): the drain before a pipeline flush

When an execute unit signals a flush, `Run` drains the write bus through the write units, called with `before = from`
(the pc = sequence id of the flushing branch): a result with a greater sequence id is DROPPED, every other one is written
back; then `m.flush(pc)` empties the pipeline.  `Proofs.Mvp60Flush.DrainInv from target s`: the write units are idle, no
store is on the write bus, and applying the results the filter will KEEP (`Proofs.Mvp60Flush.kept from`) to the register
file, in order, gives `target`.  `DrainPost`: still draining (`mode = flushW i from pc`) with the invariant, or `Flushed`:
back in normal mode with register file `target`, empty write and execute buses, fetch restarted at `pc`. -/
namespace Props.C03

/-- **a wrong-path instruction's result never reaches the register file; every older result does (MVP-6.0).**
(1) Entering the drain at the end of the tick of the flush and (2) every tick of the drain lead to `DrainPost` — the run
goes on, and when the drain is over the register file is exactly the old one with the KEPT results applied: the results
with a sequence id greater than the flushing branch's (those an execute unit produced in the same tick behind the branch)
are not in it. -/
theorem mvp60_flush_drain_drops_younger_keeps_older (app : App) (from_ pc : Word) (target : GoMap Reg Word) :
    (∀ s : Model.Mvp60.State, Proofs.Mvp60Flush.DrainInv from_ target s → 1 ≤ s.wus.length →
      (Model.Mvp60.goFlush { s with writeBus := s.writeBus.connect (s.cycles + 1) } from_ pc s.wus.length 0).2 = .running ∧
      Proofs.Mvp60Flush.DrainPost from_ pc target
        (Model.Mvp60.goFlush { s with writeBus := s.writeBus.connect (s.cycles + 1) } from_ pc s.wus.length 0).1) ∧
    (∀ (s s' : Model.Mvp60.State) (i : Nat) (ev : Model.Mvp60.Event), s.mode = .flushW i from_ pc → i < s.wus.length →
      Proofs.Mvp60Flush.DrainInv from_ target s → Model.Mvp60.cycleM app s = .ok (s', ev) →
      ev = .running ∧ Proofs.Mvp60Flush.DrainPost from_ pc target s') :=
  ⟨fun s h hk => Proofs.Mvp60Flush.enter_drain from_ pc target s h hk,
   fun s s' i ev hm hi h hr => Proofs.Mvp60Flush.drain_tick app from_ pc target s s' i ev hm hi h hr⟩

/-- Non-vacuity, with a same-tick wrong-path result on the write bus: `addi t1, zero, 7; beq zero, zero, l1; addi t0, zero, 5;
l1: addi t2, zero, 9` on the two-unit model.  After 314 ticks the machine is in the drain (`flushW 0`, `from = 4`,
`pc = 12`); the write bus holds the branch's (empty) result and the wrong-path `t0 := 5` with sequence id 8, which the filter
does not keep; the invariant holds with a target in which `t0 = 0`; and the run ends with `t0 = 0` (`t1 = 7`, `t2 = 9`). -/
example : ∃ target, (Model.Mvp60.run Proofs.Mvp60Flush.wpApp Proofs.Mvp60Flush.wpCtx 2 2 314).final.mode = .flushW 0 4#32 12#32 ∧
    Proofs.Mvp60Flush.DrainInv 4#32 target (Model.Mvp60.run Proofs.Mvp60Flush.wpApp Proofs.Mvp60Flush.wpCtx 2 2 314).final ∧
    GoMap.get1 target 5 = 0#32 ∧
    (Model.Mvp60.run Proofs.Mvp60Flush.wpApp Proofs.Mvp60Flush.wpCtx 2 2 314).final.writeBus.inside.map
        (fun ec => (ec.seq, ec.execution.RegisterChange, ec.execution.Register == 5, ec.execution.RegisterValue)) =
      [(4#32, false, false, 0#32), (8#32, true, true, 5#32)] ∧
    GoMap.get1 (Model.Mvp60.run Proofs.Mvp60Flush.wpApp Proofs.Mvp60Flush.wpCtx 2 2 2000).final.ctx.Registers 5 = 0#32 := by
  have ha := Proofs.Mvp60Flush.wp_314a
  have hb := Proofs.Mvp60Flush.wp_314b
  have he := Proofs.Mvp60Flush.wp_end
  simp only [Proofs.Mvp60Flush.wpObsA, Prod.mk.injEq, List.all_eq_true, beq_iff_eq] at ha
  simp only [Proofs.Mvp60Flush.wpObsB, Prod.mk.injEq] at hb
  simp only [Prod.mk.injEq] at he
  exact ⟨_, ha.1, ⟨ha.2.1, ha.2.2, rfl⟩, hb.2.1, hb.1, he.2.1⟩

end Props.C03

/-! ## MVP-6.0 (package R60b): groundwork for unconditional jumps

Unit-level facts (no class restriction) that the correctness proof for programs with `j`/`jal`/`jalr` will rest on; the
end-to-end statement for such programs is still `Props.C01.Full_mvp60_regonly_correct` (not proved; asserted by the check). -/
namespace Props.C03

/-- **the branch target buffer remembers the last target (MVP-6.0)** -/
theorem mvp60_btb_remembers_last_target (b : List (Word × Word)) (pc dest : Word) :
    Model.Mvp60.btbGet (Model.Mvp60.btbAdd b pc dest) pc = some dest :=
  Proofs.Mvp60Jump.btbGet_add b pc dest

/-- **a jump is the youngest decoded instruction (MVP-6.0)**: when the decode unit closes itself the last runner on the
control bus is an unconditional branch -/
theorem mvp60_jump_is_youngest_decoded (app : App) (ctx : Model.Context) (c : Int) (n : Nat)
    (du du' : Model.Mvp60.DecodeUnit) (inBus inBus' : Model.BufferedBus Word) (outBus outBus' : Model.BufferedBus Model.Mvp60.Runner)
    (h : Model.Mvp60.decodeLoop app ctx c n du inBus outBus = .ok (du', inBus', outBus'))
    (h0 : du.pendingBranchResolution = false) (h1 : du'.pendingBranchResolution = true) :
    ∃ pre r, outBus'.inside = pre ++ [r] ∧ r.instr.instructionType.IsUnconditionalBranch = true :=
  Proofs.Mvp60Jump.decodeLoop_jump_last app ctx c n du du' inBus inBus' outBus outBus' h h0 h1

/-- **a jump restarts fetch at its target (MVP-6.0)**: the execute unit that executes an unconditional branch resets the
fetch unit to the target (decode bus to be cleaned), re-opens the decode unit, teaches the branch target buffer, puts the
result on the write bus, and signals a flush exactly when the branch unit expected another target -/
theorem mvp60_jump_restarts_fetch_at_target (app : App) (s s' : Model.Mvp60.State) (i : Nat) (eu : Model.Mvp60.ExecUnit)
    (x : Model.Mvp60.Runner) (e : Gen.Execution) (out : Model.Mvp60.EuOut)
    (hj : x.instr.instructionType.IsUnconditionalBranch = true)
    (hr : x.instr.run s.ctx app.labels x.pc eu.memory 0#32 = .ok e) (hret : e.Return = false) (hmc : e.MemoryChange = false)
    (hpc : e.PcChange = true) (h : Model.Mvp60.coRun app s i eu x = .ok (s', out)) :
    s'.fu = s.fu.reset e.NextPc true ∧ s'.du.pendingBranchResolution = false ∧
    Model.Mvp60.btbGet s'.bu.btb x.pc = some e.NextPc ∧
    s'.writeBus.inside = s.writeBus.inside ++ [Proofs.Mvp60Jump.ecOfJ x e] ∧
    (out = if s.bu.toCheck && s.bu.expectation != e.NextPc then .flush x.pc e.NextPc else .none) :=
  Proofs.Mvp60Jump.coRun_jump app s s' i eu x e out hj hr hret hmc hpc h

/-- Non-vacuity of the buffer fact, with eviction: a full buffer (four entries) forgets its oldest entry and remembers the new one -/
example : Model.Mvp60.btbGet (Model.Mvp60.btbAdd [(0#32, 4#32), (8#32, 12#32), (16#32, 20#32), (24#32, 28#32)] 32#32 36#32) 32#32 = some 36#32 ∧
    Model.Mvp60.btbGet (Model.Mvp60.btbAdd [(0#32, 4#32), (8#32, 12#32), (16#32, 20#32), (24#32, 28#32)] 32#32 36#32) 0#32 = none := by
  decide

end Props.C03

/-! ## MVP-6.0 (package R60c): jumps — what was fetched behind a jump before it resolved never reaches the register file

`Proofs.Mvp60Sl.RelG app s a` is the relation between two ticks for the class with jumps (`Model.Mvp60.JClass`, which contains
`RegOnlyWf`): the runners in flight are the instructions `n0, n0+1, …` of the sequential order (`FrontJ.chain`), the register
file plus the queued results is the architectural register file (`Back`).  While the decode unit is closed
(`pendingBranchResolution`) the jump is the YOUNGEST runner: whatever the fetch unit has fetched behind it lies on the decode
bus, which the decode unit does not read; the execute unit that executes the jump marks the decode bus to be cleaned, and the
fetch unit cleans it before anything else in its next cycle.  So no instruction fetched behind an unresolved jump is ever
decoded, let alone executed or written back. -/
namespace Props.C03

/-- **behind an unresolved jump nothing is decoded (MVP-6.0).**  Between two ticks: the runners in flight are consecutive
instructions of the sequential order starting at the architectural pc; and while the decode unit is closed, the youngest of
them is the jump it waits for and no older one is a jump. -/
theorem mvp60_jump_is_youngest_in_flight (app : App) (s : Model.Mvp60.State) (a : Arch) (h : Proofs.Mvp60Sl.RelG app s a) :
    ∃ n0, a.pc = Proofs.Mvp60Sl.pcOf n0 ∧ Proofs.Mvp60Sl.Chain app n0 (Proofs.Mvp60Sl.runners s) ∧
      (s.du.pendingBranchResolution = true →
        ∃ pre j, Proofs.Mvp60Sl.runners s = pre ++ [j] ∧ j.instr.instructionType.IsUnconditionalBranch = true ∧
          ∀ r ∈ pre, r.instr.instructionType.IsUnconditionalBranch = false) := by
  obtain ⟨n0, h1, h2⟩ := h.front
  exact ⟨n0, h1, h2.chain, h2.clo⟩

/-- **what was fetched behind a jump is thrown away (MVP-6.0).**  With the flag the executing unit sets
(`Props.C03.mvp60_jump_restarts_fetch_at_target`: `fu.reset target true`), the fetch unit's next cycle is its cycle on the
CLEANED decode bus: the pcs fetched behind the jump are gone before the (re-opened) decode unit reads the bus. -/
theorem mvp60_fetched_behind_jump_is_discarded (app : App) (c : Int) (fu : Model.Mvp60.FetchUnit) (mmu : Model.Mmu.Mmu)
    (bus : Model.BufferedBus Word) (h : fu.toCleanPending = true) :
    Model.Mvp60.fetchCore app c fu mmu bus =
      Model.Mvp60.fetchCore app c { fu with toCleanPending := false } mmu bus.clean :=
  Proofs.Mvp60Sl.fetchCore_clean app c fu mmu bus h

/-- **one tick of MVP-6.0 is a number of steps of the unpipelined machine — with jumps** (class `Model.Mvp60.JClass`, every
number of units): after a tick from related states the relation holds again for the state the unpipelined machine has reached
(between normal ticks, in the drain after a `ret`, in the drain before a flush), or the run has ended with the unpipelined
machine's `ret` / defined error / end past the last instruction, with its registers and memory.  `hT`: the targets of the control transfers of the unpipelined run are instructions of the program (for `jalr`:
`Proofs.Mvp60Sl.tgtOk_of_spec`). -/
theorem mvp60_tick_is_sequential_steps_with_jumps (app : App) (hp : Proofs.Mvp60Sl.ProgJ app) (a0 : Arch)
    (hT : ∀ k a, Proofs.Mvp4.seqIter app k a0 = some a → Proofs.Mvp60Sl.TgtOk app a)
    (s s' : Model.Mvp60.State) (a : Arch) (k : Nat) (ev : Model.Mvp60.Event) (hk : Proofs.Mvp4.seqIter app k a0 = some a)
    (hr : Proofs.Mvp60Sl.RelG app s a ∨ Proofs.Mvp60Sl.RelB app s a ∨ Proofs.Mvp60Sl.RelF app s a)
    (h : Model.Mvp60.cycle app s = (s', ev)) : Proofs.Mvp60Sl.TickPostG app a0 s' ev :=
  Proofs.Mvp60Sl.cycle_simG app hp a0 hT s s' a k ev hk hr h

/-- Non-vacuity: the initial state (any program, any number of units, `sequenceID = 0`) is in the relation -/
example (app : App) (eu : Nat) : ∃ s0, Model.Mvp60.init { Memory := List.replicate 64 0#8 } eu eu = .ok s0 ∧
    Proofs.Mvp60Sl.RelG app s0 ⟨{ Memory := List.replicate 64 0#8 }, 0#32⟩ :=
  Proofs.Mvp60Sl.init_relG app _ ⟨rfl, rfl, fun r => rfl⟩ eu eu rfl (Or.inl rfl)

end Props.C03

/-
  Props/C02.lean — C02: each instruction has RV32IM semantics on all operand
  values; declared read/write register sets are exact.

  `Gen.*` is REGENERATED from risc/opcodes.go on every run (tie T1), so every
  theorem below is re-proved against the current source.  All quantifiers are
  over the whole types: every operand value (through every context and forward
  slot), every register choice including `x0` and all aliases, every immediate,
  every label map.  One theorem per Go instruction struct, then the conjunction.

  Statement shape: for instruction struct `g`, in ANY context `ctx` (register
  file, transaction map, rename tables, mode flag) and with ANY forward slot, let
  `view r` be what the instruction's register read returns for `r`.  If `x0`
  reads 0 in that view (`hz`; see `zero_reads_zero` for when that holds), then
  running the regenerated Go body gives exactly the outcome `Spec.exec` defines on
  `view`, for the ISA-level instruction `ofGen g` (Model/Roles.lean).  A Go
  `error` corresponds to a specification error (division by zero, undefined
  label); a Go panic corresponds to nothing, so the equations also say that no
  instruction can panic.  For loads the caller supplies exactly `width` bytes
  (`hm`), as every processor variant does.
-/
import MajoranaVerif.Proofs.Opcodes
open GoInt Model Proofs.Opcodes

namespace Props.C02

macro "c02_simp" : tactic => `(tactic| simp (disch := exact rfl) only [resOfGen_wr, Gen.Instr.run, Gen.op_add.Run, Gen.op_addi.Run, Gen.op_and.Run, Gen.op_andi.Run, Gen.op_auipc.Run, Gen.op_beq.Run, Gen.op_beqz.Run, Gen.op_bge.Run, Gen.op_bgeu.Run, Gen.op_ble.Run, Gen.op_blt.Run, Gen.op_bltu.Run, Gen.op_bne.Run, Gen.op_bnez.Run, Gen.op_div.Run, Gen.op_j.Run, Gen.op_jal.Run, Gen.op_jalr.Run, Gen.op_lui.Run, Gen.op_lb.Run, Gen.op_lh.Run, Gen.op_li.Run, Gen.op_lw.Run, Gen.op_nop.Run, Gen.op_mul.Run, Gen.op_mv.Run, Gen.op_or.Run, Gen.op_ori.Run, Gen.op_rem.Run, Gen.op_ret.Run, Gen.op_sb.Run, Gen.op_sh.Run, Gen.op_sll.Run, Gen.op_slli.Run, Gen.op_slt.Run, Gen.op_sltu.Run, Gen.op_slti.Run, Gen.op_sra.Run, Gen.op_srai.Run, Gen.op_srl.Run, Gen.op_srli.Run, Gen.op_sub.Run, Gen.op_sw.Run, Gen.op_xor.Run, Gen.op_xori.Run, ofGen, Spec.exec, Spec.ROp.eval, Spec.IOp.eval, Spec.Cond.eval, rd0_view _ _ _ ‹_›, pure, Except.pure, Proofs.Bytes.bind_ok, ebind_ok, resOfGen_ok, resOfSpec_ok, toOutcome_wr])


theorem exec_add (o : Gen.op_add) (ctx : Model.Context) (labels : GoMap String Word)
    (pc : Word) (mem : List Byte) (seq : Word)
    (hz : Gen.registerRead ctx o.forward 0 seq = 0) :
    resOfGen ((Gen.Instr.add_ o).run ctx labels pc mem seq) =
      resOfSpec (Spec.exec (ofGen (.add_ o)) pc (view ctx o.forward seq) (labelsOf labels) mem) := by
  c02_simp

theorem exec_addi (o : Gen.op_addi) (ctx : Model.Context) (labels : GoMap String Word)
    (pc : Word) (mem : List Byte) (seq : Word)
    (hz : Gen.registerRead ctx o.forward 0 seq = 0) :
    resOfGen ((Gen.Instr.addi_ o).run ctx labels pc mem seq) =
      resOfSpec (Spec.exec (ofGen (.addi_ o)) pc (view ctx o.forward seq) (labelsOf labels) mem) := by
  c02_simp

theorem exec_and (o : Gen.op_and) (ctx : Model.Context) (labels : GoMap String Word)
    (pc : Word) (mem : List Byte) (seq : Word)
    (hz : Gen.registerRead ctx o.forward 0 seq = 0) :
    resOfGen ((Gen.Instr.and_ o).run ctx labels pc mem seq) =
      resOfSpec (Spec.exec (ofGen (.and_ o)) pc (view ctx o.forward seq) (labelsOf labels) mem) := by
  c02_simp

theorem exec_andi (o : Gen.op_andi) (ctx : Model.Context) (labels : GoMap String Word)
    (pc : Word) (mem : List Byte) (seq : Word)
    (hz : Gen.registerRead ctx o.forward 0 seq = 0) :
    resOfGen ((Gen.Instr.andi_ o).run ctx labels pc mem seq) =
      resOfSpec (Spec.exec (ofGen (.andi_ o)) pc (view ctx o.forward seq) (labelsOf labels) mem) := by
  c02_simp

theorem exec_auipc (o : Gen.op_auipc) (ctx : Model.Context) (labels : GoMap String Word)
    (pc : Word) (mem : List Byte) (seq : Word)
    (hz : Gen.registerRead ctx {} 0 seq = 0) :
    resOfGen ((Gen.Instr.auipc_ o).run ctx labels pc mem seq) =
      resOfSpec (Spec.exec (ofGen (.auipc_ o)) pc (view ctx {} seq) (labelsOf labels) mem) := by
  c02_simp; simp only [GoInt.shlU, cap_const12]

theorem exec_beq (o : Gen.op_beq) (ctx : Model.Context) (labels : GoMap String Word)
    (pc : Word) (mem : List Byte) (seq : Word)
    (hz : Gen.registerRead ctx o.forward 0 seq = 0) :
    resOfGen ((Gen.Instr.beq_ o).run ctx labels pc mem seq) =
      resOfSpec (Spec.exec (ofGen (.beq_ o)) pc (view ctx o.forward seq) (labelsOf labels) mem) := by
  c02_simp; exact res_branch _ _ _

theorem exec_beqz (o : Gen.op_beqz) (ctx : Model.Context) (labels : GoMap String Word)
    (pc : Word) (mem : List Byte) (seq : Word)
    (hz : Gen.registerRead ctx o.forward 0 seq = 0) :
    resOfGen ((Gen.Instr.beqz_ o).run ctx labels pc mem seq) =
      resOfSpec (Spec.exec (ofGen (.beqz_ o)) pc (view ctx o.forward seq) (labelsOf labels) mem) := by
  c02_simp; exact res_branch _ _ _

theorem exec_bge (o : Gen.op_bge) (ctx : Model.Context) (labels : GoMap String Word)
    (pc : Word) (mem : List Byte) (seq : Word)
    (hz : Gen.registerRead ctx o.forward 0 seq = 0) :
    resOfGen ((Gen.Instr.bge_ o).run ctx labels pc mem seq) =
      resOfSpec (Spec.exec (ofGen (.bge_ o)) pc (view ctx o.forward seq) (labelsOf labels) mem) := by
  c02_simp; rw [sle_eq_not_slt]; exact res_branch _ _ _

theorem exec_bgeu (o : Gen.op_bgeu) (ctx : Model.Context) (labels : GoMap String Word)
    (pc : Word) (mem : List Byte) (seq : Word)
    (hz : Gen.registerRead ctx o.forward 0 seq = 0) :
    resOfGen ((Gen.Instr.bgeu_ o).run ctx labels pc mem seq) =
      resOfSpec (Spec.exec (ofGen (.bgeu_ o)) pc (view ctx o.forward seq) (labelsOf labels) mem) := by
  c02_simp; simp only [conv_signed_self]; rw [ule_eq_not_ult]; exact res_branch _ _ _

theorem exec_ble (o : Gen.op_ble) (ctx : Model.Context) (labels : GoMap String Word)
    (pc : Word) (mem : List Byte) (seq : Word)
    (hz : Gen.registerRead ctx o.forward 0 seq = 0) :
    resOfGen ((Gen.Instr.ble_ o).run ctx labels pc mem seq) =
      resOfSpec (Spec.exec (ofGen (.ble_ o)) pc (view ctx o.forward seq) (labelsOf labels) mem) := by
  c02_simp; rw [sle_eq_not_slt]; exact res_branch _ _ _

theorem exec_blt (o : Gen.op_blt) (ctx : Model.Context) (labels : GoMap String Word)
    (pc : Word) (mem : List Byte) (seq : Word)
    (hz : Gen.registerRead ctx o.forward 0 seq = 0) :
    resOfGen ((Gen.Instr.blt_ o).run ctx labels pc mem seq) =
      resOfSpec (Spec.exec (ofGen (.blt_ o)) pc (view ctx o.forward seq) (labelsOf labels) mem) := by
  c02_simp; exact res_branch _ _ _

theorem exec_bltu (o : Gen.op_bltu) (ctx : Model.Context) (labels : GoMap String Word)
    (pc : Word) (mem : List Byte) (seq : Word)
    (hz : Gen.registerRead ctx o.forward 0 seq = 0) :
    resOfGen ((Gen.Instr.bltu_ o).run ctx labels pc mem seq) =
      resOfSpec (Spec.exec (ofGen (.bltu_ o)) pc (view ctx o.forward seq) (labelsOf labels) mem) := by
  c02_simp; simp only [conv_signed_self]; exact res_branch _ _ _

theorem exec_bne (o : Gen.op_bne) (ctx : Model.Context) (labels : GoMap String Word)
    (pc : Word) (mem : List Byte) (seq : Word)
    (hz : Gen.registerRead ctx o.forward 0 seq = 0) :
    resOfGen ((Gen.Instr.bne_ o).run ctx labels pc mem seq) =
      resOfSpec (Spec.exec (ofGen (.bne_ o)) pc (view ctx o.forward seq) (labelsOf labels) mem) := by
  c02_simp; exact res_branch _ _ _

theorem exec_bnez (o : Gen.op_bnez) (ctx : Model.Context) (labels : GoMap String Word)
    (pc : Word) (mem : List Byte) (seq : Word)
    (hz : Gen.registerRead ctx o.forward 0 seq = 0) :
    resOfGen ((Gen.Instr.bnez_ o).run ctx labels pc mem seq) =
      resOfSpec (Spec.exec (ofGen (.bnez_ o)) pc (view ctx o.forward seq) (labelsOf labels) mem) := by
  c02_simp; exact res_branch _ _ _

theorem exec_div (o : Gen.op_div) (ctx : Model.Context) (labels : GoMap String Word)
    (pc : Word) (mem : List Byte) (seq : Word)
    (hz : Gen.registerRead ctx o.forward 0 seq = 0) :
    resOfGen ((Gen.Instr.div_ o).run ctx labels pc mem seq) =
      resOfSpec (Spec.exec (ofGen (.div_ o)) pc (view ctx o.forward seq) (labelsOf labels) mem) := by
  c02_simp; exact res_divrem _ _ _ _ _ (go_sdiv _ _)

theorem exec_j (o : Gen.op_j) (ctx : Model.Context) (labels : GoMap String Word)
    (pc : Word) (mem : List Byte) (seq : Word)
    (hz : Gen.registerRead ctx {} 0 seq = 0) :
    resOfGen ((Gen.Instr.j_ o).run ctx labels pc mem seq) =
      resOfSpec (Spec.exec (ofGen (.j_ o)) pc (view ctx {} seq) (labelsOf labels) mem) := by
  c02_simp; exact res_jump _ _

theorem exec_jal (o : Gen.op_jal) (ctx : Model.Context) (labels : GoMap String Word)
    (pc : Word) (mem : List Byte) (seq : Word)
    (hz : Gen.registerRead ctx o.forward 0 seq = 0) :
    resOfGen ((Gen.Instr.jal_ o).run ctx labels pc mem seq) =
      resOfSpec (Spec.exec (ofGen (.jal_ o)) pc (view ctx o.forward seq) (labelsOf labels) mem) := by
  c02_simp; exact res_jal _ _ _ _

theorem exec_jalr (o : Gen.op_jalr) (ctx : Model.Context) (labels : GoMap String Word)
    (pc : Word) (mem : List Byte) (seq : Word)
    (hz : Gen.registerRead ctx o.forward 0 seq = 0) :
    resOfGen ((Gen.Instr.jalr_ o).run ctx labels pc mem seq) =
      resOfSpec (Spec.exec (ofGen (.jalr_ o)) pc (view ctx o.forward seq) (labelsOf labels) mem) := by
  c02_simp; exact (resOfGen_ok _ (wfExe_wr_next _ _ _)).trans (congrArg Res.ok (toOutcome_wr_next _ _ _))

theorem exec_lui (o : Gen.op_lui) (ctx : Model.Context) (labels : GoMap String Word)
    (pc : Word) (mem : List Byte) (seq : Word)
    (hz : Gen.registerRead ctx {} 0 seq = 0) :
    resOfGen ((Gen.Instr.lui_ o).run ctx labels pc mem seq) =
      resOfSpec (Spec.exec (ofGen (.lui_ o)) pc (view ctx {} seq) (labelsOf labels) mem) := by
  c02_simp; simp only [GoInt.shlU, cap_const12]

theorem exec_lb (o : Gen.op_lb) (ctx : Model.Context) (labels : GoMap String Word)
    (pc : Word) (mem : List Byte) (seq : Word)
    (hz : Gen.registerRead ctx o.forward 0 seq = 0)
    (hm : mem.length = 1) :
    resOfGen ((Gen.Instr.lb_ o).run ctx labels pc mem seq) =
      resOfSpec (Spec.exec (ofGen (.lb_ o)) pc (view ctx o.forward seq) (labelsOf labels) mem) := by
  c02_simp; exact res_lb _ _ hm

theorem exec_lh (o : Gen.op_lh) (ctx : Model.Context) (labels : GoMap String Word)
    (pc : Word) (mem : List Byte) (seq : Word)
    (hz : Gen.registerRead ctx o.forward 0 seq = 0)
    (hm : mem.length = 2) :
    resOfGen ((Gen.Instr.lh_ o).run ctx labels pc mem seq) =
      resOfSpec (Spec.exec (ofGen (.lh_ o)) pc (view ctx o.forward seq) (labelsOf labels) mem) := by
  c02_simp; exact res_lh _ _ hm

theorem exec_li (o : Gen.op_li) (ctx : Model.Context) (labels : GoMap String Word)
    (pc : Word) (mem : List Byte) (seq : Word)
    (hz : Gen.registerRead ctx {} 0 seq = 0) :
    resOfGen ((Gen.Instr.li_ o).run ctx labels pc mem seq) =
      resOfSpec (Spec.exec (ofGen (.li_ o)) pc (view ctx {} seq) (labelsOf labels) mem) := by
  c02_simp

theorem exec_lw (o : Gen.op_lw) (ctx : Model.Context) (labels : GoMap String Word)
    (pc : Word) (mem : List Byte) (seq : Word)
    (hz : Gen.registerRead ctx o.forward 0 seq = 0)
    (hm : mem.length = 4) :
    resOfGen ((Gen.Instr.lw_ o).run ctx labels pc mem seq) =
      resOfSpec (Spec.exec (ofGen (.lw_ o)) pc (view ctx o.forward seq) (labelsOf labels) mem) := by
  c02_simp; exact res_lw _ _ hm

theorem exec_nop (o : Gen.op_nop) (ctx : Model.Context) (labels : GoMap String Word)
    (pc : Word) (mem : List Byte) (seq : Word)
    (hz : Gen.registerRead ctx {} 0 seq = 0) :
    resOfGen ((Gen.Instr.nop_ o).run ctx labels pc mem seq) =
      resOfSpec (Spec.exec (ofGen (.nop_ o)) pc (view ctx {} seq) (labelsOf labels) mem) := by
  c02_simp; exact (resOfGen_ok _ rfl).trans (by simp [toOutcome])

theorem exec_mul (o : Gen.op_mul) (ctx : Model.Context) (labels : GoMap String Word)
    (pc : Word) (mem : List Byte) (seq : Word)
    (hz : Gen.registerRead ctx o.forward 0 seq = 0) :
    resOfGen ((Gen.Instr.mul_ o).run ctx labels pc mem seq) =
      resOfSpec (Spec.exec (ofGen (.mul_ o)) pc (view ctx o.forward seq) (labelsOf labels) mem) := by
  c02_simp

theorem exec_mv (o : Gen.op_mv) (ctx : Model.Context) (labels : GoMap String Word)
    (pc : Word) (mem : List Byte) (seq : Word)
    (hz : Gen.registerRead ctx o.forward 0 seq = 0) :
    resOfGen ((Gen.Instr.mv_ o).run ctx labels pc mem seq) =
      resOfSpec (Spec.exec (ofGen (.mv_ o)) pc (view ctx o.forward seq) (labelsOf labels) mem) := by
  c02_simp

theorem exec_or (o : Gen.op_or) (ctx : Model.Context) (labels : GoMap String Word)
    (pc : Word) (mem : List Byte) (seq : Word)
    (hz : Gen.registerRead ctx o.forward 0 seq = 0) :
    resOfGen ((Gen.Instr.or_ o).run ctx labels pc mem seq) =
      resOfSpec (Spec.exec (ofGen (.or_ o)) pc (view ctx o.forward seq) (labelsOf labels) mem) := by
  c02_simp

theorem exec_ori (o : Gen.op_ori) (ctx : Model.Context) (labels : GoMap String Word)
    (pc : Word) (mem : List Byte) (seq : Word)
    (hz : Gen.registerRead ctx o.forward 0 seq = 0) :
    resOfGen ((Gen.Instr.ori_ o).run ctx labels pc mem seq) =
      resOfSpec (Spec.exec (ofGen (.ori_ o)) pc (view ctx o.forward seq) (labelsOf labels) mem) := by
  c02_simp

theorem exec_rem (o : Gen.op_rem) (ctx : Model.Context) (labels : GoMap String Word)
    (pc : Word) (mem : List Byte) (seq : Word)
    (hz : Gen.registerRead ctx o.forward 0 seq = 0) :
    resOfGen ((Gen.Instr.rem_ o).run ctx labels pc mem seq) =
      resOfSpec (Spec.exec (ofGen (.rem_ o)) pc (view ctx o.forward seq) (labelsOf labels) mem) := by
  c02_simp; exact res_divrem _ _ _ _ _ (go_srem _ _)

theorem exec_ret (o : Gen.op_ret) (ctx : Model.Context) (labels : GoMap String Word)
    (pc : Word) (mem : List Byte) (seq : Word)
    (hz : Gen.registerRead ctx {} 0 seq = 0) :
    resOfGen ((Gen.Instr.ret_ o).run ctx labels pc mem seq) =
      resOfSpec (Spec.exec (ofGen (.ret_ o)) pc (view ctx {} seq) (labelsOf labels) mem) := by
  c02_simp; exact (resOfGen_ok _ rfl).trans (by simp [toOutcome])

theorem exec_sb (o : Gen.op_sb) (ctx : Model.Context) (labels : GoMap String Word)
    (pc : Word) (mem : List Byte) (seq : Word)
    (hz : Gen.registerRead ctx o.forward 0 seq = 0) :
    resOfGen ((Gen.Instr.sb_ o).run ctx labels pc mem seq) =
      resOfSpec (Spec.exec (ofGen (.sb_ o)) pc (view ctx o.forward seq) (labelsOf labels) mem) := by
  c02_simp; exact congrArg Res.ok (res_store_b _ _)

theorem exec_sh (o : Gen.op_sh) (ctx : Model.Context) (labels : GoMap String Word)
    (pc : Word) (mem : List Byte) (seq : Word)
    (hz : Gen.registerRead ctx o.forward 0 seq = 0) :
    resOfGen ((Gen.Instr.sh_ o).run ctx labels pc mem seq) =
      resOfSpec (Spec.exec (ofGen (.sh_ o)) pc (view ctx o.forward seq) (labelsOf labels) mem) := by
  c02_simp; simp [Proofs.Bytes.bytes_char, Proofs.Bytes.bind_ok, resOfGen_ok, toOutcome, Spec.storeBytes]

theorem exec_sll (o : Gen.op_sll) (ctx : Model.Context) (labels : GoMap String Word)
    (pc : Word) (mem : List Byte) (seq : Word)
    (hz : Gen.registerRead ctx o.forward 0 seq = 0) :
    resOfGen ((Gen.Instr.sll_ o).run ctx labels pc mem seq) =
      resOfSpec (Spec.exec (ofGen (.sll_ o)) pc (view ctx o.forward seq) (labelsOf labels) mem) := by
  c02_simp; simp only [GoInt.shlU, GoInt.sshrU, GoInt.ushrU, cap_mask31, conv_signed_self, conv_unsigned_self, Spec.shamt]

theorem exec_slli (o : Gen.op_slli) (ctx : Model.Context) (labels : GoMap String Word)
    (pc : Word) (mem : List Byte) (seq : Word)
    (hz : Gen.registerRead ctx o.forward 0 seq = 0) :
    resOfGen ((Gen.Instr.slli_ o).run ctx labels pc mem seq) =
      resOfSpec (Spec.exec (ofGen (.slli_ o)) pc (view ctx o.forward seq) (labelsOf labels) mem) := by
  c02_simp; simp only [GoInt.shlU, GoInt.sshrU, GoInt.ushrU, cap_mask31, conv_signed_self, conv_unsigned_self, Spec.shamt]

theorem exec_slt (o : Gen.op_slt) (ctx : Model.Context) (labels : GoMap String Word)
    (pc : Word) (mem : List Byte) (seq : Word)
    (hz : Gen.registerRead ctx o.forward 0 seq = 0) :
    resOfGen ((Gen.Instr.slt_ o).run ctx labels pc mem seq) =
      resOfSpec (Spec.exec (ofGen (.slt_ o)) pc (view ctx o.forward seq) (labelsOf labels) mem) := by
  c02_simp; exact res_set_flag _ _

theorem exec_sltu (o : Gen.op_sltu) (ctx : Model.Context) (labels : GoMap String Word)
    (pc : Word) (mem : List Byte) (seq : Word)
    (hz : Gen.registerRead ctx o.forward 0 seq = 0) :
    resOfGen ((Gen.Instr.sltu_ o).run ctx labels pc mem seq) =
      resOfSpec (Spec.exec (ofGen (.sltu_ o)) pc (view ctx o.forward seq) (labelsOf labels) mem) := by
  c02_simp; simp only [conv_signed_self]; exact res_set_flag _ _

theorem exec_slti (o : Gen.op_slti) (ctx : Model.Context) (labels : GoMap String Word)
    (pc : Word) (mem : List Byte) (seq : Word)
    (hz : Gen.registerRead ctx o.forward 0 seq = 0) :
    resOfGen ((Gen.Instr.slti_ o).run ctx labels pc mem seq) =
      resOfSpec (Spec.exec (ofGen (.slti_ o)) pc (view ctx o.forward seq) (labelsOf labels) mem) := by
  c02_simp; exact res_set_flag _ _

theorem exec_sra (o : Gen.op_sra) (ctx : Model.Context) (labels : GoMap String Word)
    (pc : Word) (mem : List Byte) (seq : Word)
    (hz : Gen.registerRead ctx o.forward 0 seq = 0) :
    resOfGen ((Gen.Instr.sra_ o).run ctx labels pc mem seq) =
      resOfSpec (Spec.exec (ofGen (.sra_ o)) pc (view ctx o.forward seq) (labelsOf labels) mem) := by
  c02_simp; simp only [GoInt.shlU, GoInt.sshrU, GoInt.ushrU, cap_mask31, conv_signed_self, conv_unsigned_self, Spec.shamt]

theorem exec_srai (o : Gen.op_srai) (ctx : Model.Context) (labels : GoMap String Word)
    (pc : Word) (mem : List Byte) (seq : Word)
    (hz : Gen.registerRead ctx o.forward 0 seq = 0) :
    resOfGen ((Gen.Instr.srai_ o).run ctx labels pc mem seq) =
      resOfSpec (Spec.exec (ofGen (.srai_ o)) pc (view ctx o.forward seq) (labelsOf labels) mem) := by
  c02_simp; simp only [GoInt.shlU, GoInt.sshrU, GoInt.ushrU, cap_mask31, conv_signed_self, conv_unsigned_self, Spec.shamt]

theorem exec_srl (o : Gen.op_srl) (ctx : Model.Context) (labels : GoMap String Word)
    (pc : Word) (mem : List Byte) (seq : Word)
    (hz : Gen.registerRead ctx o.forward 0 seq = 0) :
    resOfGen ((Gen.Instr.srl_ o).run ctx labels pc mem seq) =
      resOfSpec (Spec.exec (ofGen (.srl_ o)) pc (view ctx o.forward seq) (labelsOf labels) mem) := by
  c02_simp; simp only [GoInt.shlU, GoInt.sshrU, GoInt.ushrU, cap_mask31, conv_signed_self, conv_unsigned_self, Spec.shamt]

theorem exec_srli (o : Gen.op_srli) (ctx : Model.Context) (labels : GoMap String Word)
    (pc : Word) (mem : List Byte) (seq : Word)
    (hz : Gen.registerRead ctx o.forward 0 seq = 0) :
    resOfGen ((Gen.Instr.srli_ o).run ctx labels pc mem seq) =
      resOfSpec (Spec.exec (ofGen (.srli_ o)) pc (view ctx o.forward seq) (labelsOf labels) mem) := by
  c02_simp; simp only [GoInt.shlU, GoInt.sshrU, GoInt.ushrU, cap_mask31, conv_signed_self, conv_unsigned_self, Spec.shamt]

theorem exec_sub (o : Gen.op_sub) (ctx : Model.Context) (labels : GoMap String Word)
    (pc : Word) (mem : List Byte) (seq : Word)
    (hz : Gen.registerRead ctx o.forward 0 seq = 0) :
    resOfGen ((Gen.Instr.sub_ o).run ctx labels pc mem seq) =
      resOfSpec (Spec.exec (ofGen (.sub_ o)) pc (view ctx o.forward seq) (labelsOf labels) mem) := by
  c02_simp

theorem exec_sw (o : Gen.op_sw) (ctx : Model.Context) (labels : GoMap String Word)
    (pc : Word) (mem : List Byte) (seq : Word)
    (hz : Gen.registerRead ctx o.forward 0 seq = 0) :
    resOfGen ((Gen.Instr.sw_ o).run ctx labels pc mem seq) =
      resOfSpec (Spec.exec (ofGen (.sw_ o)) pc (view ctx o.forward seq) (labelsOf labels) mem) := by
  c02_simp; simp [Proofs.Bytes.bytes_char, Proofs.Bytes.bind_ok, resOfGen_ok, toOutcome, Spec.storeBytes]

theorem exec_xor (o : Gen.op_xor) (ctx : Model.Context) (labels : GoMap String Word)
    (pc : Word) (mem : List Byte) (seq : Word)
    (hz : Gen.registerRead ctx o.forward 0 seq = 0) :
    resOfGen ((Gen.Instr.xor_ o).run ctx labels pc mem seq) =
      resOfSpec (Spec.exec (ofGen (.xor_ o)) pc (view ctx o.forward seq) (labelsOf labels) mem) := by
  c02_simp

theorem exec_xori (o : Gen.op_xori) (ctx : Model.Context) (labels : GoMap String Word)
    (pc : Word) (mem : List Byte) (seq : Word)
    (hz : Gen.registerRead ctx o.forward 0 seq = 0) :
    resOfGen ((Gen.Instr.xori_ o).run ctx labels pc mem seq) =
      resOfSpec (Spec.exec (ofGen (.xori_ o)) pc (view ctx o.forward seq) (labelsOf labels) mem) := by
  c02_simp


/-- **C02, semantics** — the conjunction over all 45 instruction structs. -/
theorem exec_ok (g : Gen.Instr) (ctx : Model.Context) (labels : GoMap String Word)
    (pc : Word) (mem : List Byte) (seq : Word)
    (hz : Gen.registerRead ctx (fwdOf g) 0 seq = 0)
    (hm : mem.length = (Spec.loadAddrs (ofGen g) (view ctx (fwdOf g) seq)).length) :
    resOfGen (g.run ctx labels pc mem seq) =
      resOfSpec (Spec.exec (ofGen g) pc (view ctx (fwdOf g) seq) (labelsOf labels) mem) := by
  cases g with
  | add_ o => exact exec_add o ctx labels pc mem seq hz
  | addi_ o => exact exec_addi o ctx labels pc mem seq hz
  | and_ o => exact exec_and o ctx labels pc mem seq hz
  | andi_ o => exact exec_andi o ctx labels pc mem seq hz
  | auipc_ o => exact exec_auipc o ctx labels pc mem seq hz
  | beq_ o => exact exec_beq o ctx labels pc mem seq hz
  | beqz_ o => exact exec_beqz o ctx labels pc mem seq hz
  | bge_ o => exact exec_bge o ctx labels pc mem seq hz
  | bgeu_ o => exact exec_bgeu o ctx labels pc mem seq hz
  | ble_ o => exact exec_ble o ctx labels pc mem seq hz
  | blt_ o => exact exec_blt o ctx labels pc mem seq hz
  | bltu_ o => exact exec_bltu o ctx labels pc mem seq hz
  | bne_ o => exact exec_bne o ctx labels pc mem seq hz
  | bnez_ o => exact exec_bnez o ctx labels pc mem seq hz
  | div_ o => exact exec_div o ctx labels pc mem seq hz
  | j_ o => exact exec_j o ctx labels pc mem seq hz
  | jal_ o => exact exec_jal o ctx labels pc mem seq hz
  | jalr_ o => exact exec_jalr o ctx labels pc mem seq hz
  | lui_ o => exact exec_lui o ctx labels pc mem seq hz
  | lb_ o => exact exec_lb o ctx labels pc mem seq hz (by simpa [ofGen, Spec.loadAddrs, Spec.Width.bytes] using hm)
  | lh_ o => exact exec_lh o ctx labels pc mem seq hz (by simpa [ofGen, Spec.loadAddrs, Spec.Width.bytes] using hm)
  | li_ o => exact exec_li o ctx labels pc mem seq hz
  | lw_ o => exact exec_lw o ctx labels pc mem seq hz (by simpa [ofGen, Spec.loadAddrs, Spec.Width.bytes] using hm)
  | nop_ o => exact exec_nop o ctx labels pc mem seq hz
  | mul_ o => exact exec_mul o ctx labels pc mem seq hz
  | mv_ o => exact exec_mv o ctx labels pc mem seq hz
  | or_ o => exact exec_or o ctx labels pc mem seq hz
  | ori_ o => exact exec_ori o ctx labels pc mem seq hz
  | rem_ o => exact exec_rem o ctx labels pc mem seq hz
  | ret_ o => exact exec_ret o ctx labels pc mem seq hz
  | sb_ o => exact exec_sb o ctx labels pc mem seq hz
  | sh_ o => exact exec_sh o ctx labels pc mem seq hz
  | sll_ o => exact exec_sll o ctx labels pc mem seq hz
  | slli_ o => exact exec_slli o ctx labels pc mem seq hz
  | slt_ o => exact exec_slt o ctx labels pc mem seq hz
  | sltu_ o => exact exec_sltu o ctx labels pc mem seq hz
  | slti_ o => exact exec_slti o ctx labels pc mem seq hz
  | sra_ o => exact exec_sra o ctx labels pc mem seq hz
  | srai_ o => exact exec_srai o ctx labels pc mem seq hz
  | srl_ o => exact exec_srl o ctx labels pc mem seq hz
  | srli_ o => exact exec_srli o ctx labels pc mem seq hz
  | sub_ o => exact exec_sub o ctx labels pc mem seq hz
  | sw_ o => exact exec_sw o ctx labels pc mem seq hz
  | xor_ o => exact exec_xor o ctx labels pc mem seq hz
  | xori_ o => exact exec_xori o ctx labels pc mem seq hz

/-- No instruction can raise a Go panic (shift counts, divisor, byte indices), on any operands. -/
theorem no_panic (g : Gen.Instr) (ctx : Model.Context) (labels : GoMap String Word)
    (pc : Word) (mem : List Byte) (seq : Word)
    (hz : Gen.registerRead ctx (fwdOf g) 0 seq = 0)
    (hm : mem.length = (Spec.loadAddrs (ofGen g) (view ctx (fwdOf g) seq)).length) :
    resOfGen (g.run ctx labels pc mem seq) ≠ Res.panic := by
  rw [exec_ok g ctx labels pc mem seq hz hm]
  cases Spec.exec (ofGen g) pc (view ctx (fwdOf g) seq) (labelsOf labels) mem <;> simp [resOfSpec]

/-- **C02, declared register sets** — modulo `x0`, `ReadRegisters` / `WriteRegisters` name exactly
the registers the ISA-level instruction reads / writes. -/
theorem reads_ok (g : Gen.Instr) (r : Reg) (hr : r ≠ 0) :
    r ∈ g.readRegisters ↔ r ∈ Spec.reads (ofGen g) := by
  cases g <;> simp [Gen.Instr.readRegisters, ofGen, Spec.reads, Gen.op_add.ReadRegisters, Gen.op_addi.ReadRegisters, Gen.op_and.ReadRegisters, Gen.op_andi.ReadRegisters, Gen.op_auipc.ReadRegisters, Gen.op_beq.ReadRegisters, Gen.op_beqz.ReadRegisters, Gen.op_bge.ReadRegisters, Gen.op_bgeu.ReadRegisters, Gen.op_ble.ReadRegisters, Gen.op_blt.ReadRegisters, Gen.op_bltu.ReadRegisters, Gen.op_bne.ReadRegisters, Gen.op_bnez.ReadRegisters, Gen.op_div.ReadRegisters, Gen.op_j.ReadRegisters, Gen.op_jal.ReadRegisters, Gen.op_jalr.ReadRegisters, Gen.op_lui.ReadRegisters, Gen.op_lb.ReadRegisters, Gen.op_lh.ReadRegisters, Gen.op_li.ReadRegisters, Gen.op_lw.ReadRegisters, Gen.op_nop.ReadRegisters, Gen.op_mul.ReadRegisters, Gen.op_mv.ReadRegisters, Gen.op_or.ReadRegisters, Gen.op_ori.ReadRegisters, Gen.op_rem.ReadRegisters, Gen.op_ret.ReadRegisters, Gen.op_sb.ReadRegisters, Gen.op_sh.ReadRegisters, Gen.op_sll.ReadRegisters, Gen.op_slli.ReadRegisters, Gen.op_slt.ReadRegisters, Gen.op_sltu.ReadRegisters, Gen.op_slti.ReadRegisters, Gen.op_sra.ReadRegisters, Gen.op_srai.ReadRegisters, Gen.op_srl.ReadRegisters, Gen.op_srli.ReadRegisters, Gen.op_sub.ReadRegisters, Gen.op_sw.ReadRegisters, Gen.op_xor.ReadRegisters, Gen.op_xori.ReadRegisters] <;> omega

theorem writes_ok (g : Gen.Instr) (r : Reg) (hr : r ≠ 0) :
    r ∈ g.writeRegisters ↔ r ∈ Spec.writes (ofGen g) := by
  cases g <;> simp [Gen.Instr.writeRegisters, ofGen, Spec.writes, Gen.op_add.WriteRegisters, Gen.op_addi.WriteRegisters, Gen.op_and.WriteRegisters, Gen.op_andi.WriteRegisters, Gen.op_auipc.WriteRegisters, Gen.op_beq.WriteRegisters, Gen.op_beqz.WriteRegisters, Gen.op_bge.WriteRegisters, Gen.op_bgeu.WriteRegisters, Gen.op_ble.WriteRegisters, Gen.op_blt.WriteRegisters, Gen.op_bltu.WriteRegisters, Gen.op_bne.WriteRegisters, Gen.op_bnez.WriteRegisters, Gen.op_div.WriteRegisters, Gen.op_j.WriteRegisters, Gen.op_jal.WriteRegisters, Gen.op_jalr.WriteRegisters, Gen.op_lui.WriteRegisters, Gen.op_lb.WriteRegisters, Gen.op_lh.WriteRegisters, Gen.op_li.WriteRegisters, Gen.op_lw.WriteRegisters, Gen.op_nop.WriteRegisters, Gen.op_mul.WriteRegisters, Gen.op_mv.WriteRegisters, Gen.op_or.WriteRegisters, Gen.op_ori.WriteRegisters, Gen.op_rem.WriteRegisters, Gen.op_ret.WriteRegisters, Gen.op_sb.WriteRegisters, Gen.op_sh.WriteRegisters, Gen.op_sll.WriteRegisters, Gen.op_slli.WriteRegisters, Gen.op_slt.WriteRegisters, Gen.op_sltu.WriteRegisters, Gen.op_slti.WriteRegisters, Gen.op_sra.WriteRegisters, Gen.op_srai.WriteRegisters, Gen.op_srl.WriteRegisters, Gen.op_srli.WriteRegisters, Gen.op_sub.WriteRegisters, Gen.op_sw.WriteRegisters, Gen.op_xor.WriteRegisters, Gen.op_xori.WriteRegisters]

/-- **C02, addresses** — `MemoryRead` lists exactly the bytes a load reads, in ascending order. -/
theorem load_addrs_ok (g : Gen.Instr) (ctx : Model.Context) (seq : Word)
    (hz : Gen.registerRead ctx (fwdOf g) 0 seq = 0) :
    g.memoryRead ctx seq = Spec.loadAddrs (ofGen g) (view ctx (fwdOf g) seq) := by
  cases g <;> simp only [fwdOf] at hz <;> simp [Gen.Instr.memoryRead, ofGen, Spec.loadAddrs, Spec.Width.bytes, fwdOf, rd0_view _ _ _ hz, List.range, List.range.loop, BitVec.add_assoc, Gen.op_add.MemoryRead, Gen.op_addi.MemoryRead, Gen.op_and.MemoryRead, Gen.op_andi.MemoryRead, Gen.op_auipc.MemoryRead, Gen.op_beq.MemoryRead, Gen.op_beqz.MemoryRead, Gen.op_bge.MemoryRead, Gen.op_bgeu.MemoryRead, Gen.op_ble.MemoryRead, Gen.op_blt.MemoryRead, Gen.op_bltu.MemoryRead, Gen.op_bne.MemoryRead, Gen.op_bnez.MemoryRead, Gen.op_div.MemoryRead, Gen.op_j.MemoryRead, Gen.op_jal.MemoryRead, Gen.op_jalr.MemoryRead, Gen.op_lui.MemoryRead, Gen.op_lb.MemoryRead, Gen.op_lh.MemoryRead, Gen.op_li.MemoryRead, Gen.op_lw.MemoryRead, Gen.op_nop.MemoryRead, Gen.op_mul.MemoryRead, Gen.op_mv.MemoryRead, Gen.op_or.MemoryRead, Gen.op_ori.MemoryRead, Gen.op_rem.MemoryRead, Gen.op_ret.MemoryRead, Gen.op_sb.MemoryRead, Gen.op_sh.MemoryRead, Gen.op_sll.MemoryRead, Gen.op_slli.MemoryRead, Gen.op_slt.MemoryRead, Gen.op_sltu.MemoryRead, Gen.op_slti.MemoryRead, Gen.op_sra.MemoryRead, Gen.op_srai.MemoryRead, Gen.op_srl.MemoryRead, Gen.op_srli.MemoryRead, Gen.op_sub.MemoryRead, Gen.op_sw.MemoryRead, Gen.op_xor.MemoryRead, Gen.op_xori.MemoryRead]

/-- `MemoryWrite` lists exactly the bytes a store writes, in ascending order … -/
theorem store_addrs_ok (g : Gen.Instr) (ctx : Model.Context) (seq : Word)
    (hz : Gen.registerRead ctx (fwdOf g) 0 seq = 0) :
    g.memoryWrite ctx seq = Spec.storeAddrs (ofGen g) (view ctx (fwdOf g) seq) := by
  cases g <;> simp only [fwdOf] at hz <;> simp [Gen.Instr.memoryWrite, ofGen, Spec.storeAddrs, Spec.Width.bytes, fwdOf, rd0_view _ _ _ hz, List.range, List.range.loop, BitVec.add_assoc, Gen.op_add.MemoryWrite, Gen.op_addi.MemoryWrite, Gen.op_and.MemoryWrite, Gen.op_andi.MemoryWrite, Gen.op_auipc.MemoryWrite, Gen.op_beq.MemoryWrite, Gen.op_beqz.MemoryWrite, Gen.op_bge.MemoryWrite, Gen.op_bgeu.MemoryWrite, Gen.op_ble.MemoryWrite, Gen.op_blt.MemoryWrite, Gen.op_bltu.MemoryWrite, Gen.op_bne.MemoryWrite, Gen.op_bnez.MemoryWrite, Gen.op_div.MemoryWrite, Gen.op_j.MemoryWrite, Gen.op_jal.MemoryWrite, Gen.op_jalr.MemoryWrite, Gen.op_lui.MemoryWrite, Gen.op_lb.MemoryWrite, Gen.op_lh.MemoryWrite, Gen.op_li.MemoryWrite, Gen.op_lw.MemoryWrite, Gen.op_nop.MemoryWrite, Gen.op_mul.MemoryWrite, Gen.op_mv.MemoryWrite, Gen.op_or.MemoryWrite, Gen.op_ori.MemoryWrite, Gen.op_rem.MemoryWrite, Gen.op_ret.MemoryWrite, Gen.op_sb.MemoryWrite, Gen.op_sh.MemoryWrite, Gen.op_sll.MemoryWrite, Gen.op_slli.MemoryWrite, Gen.op_slt.MemoryWrite, Gen.op_sltu.MemoryWrite, Gen.op_slti.MemoryWrite, Gen.op_sra.MemoryWrite, Gen.op_srai.MemoryWrite, Gen.op_srl.MemoryWrite, Gen.op_srli.MemoryWrite, Gen.op_sub.MemoryWrite, Gen.op_sw.MemoryWrite, Gen.op_xor.MemoryWrite, Gen.op_xori.MemoryWrite]

theorem jump_mem (labels : Spec.Labels) (l : String) (o : Spec.Outcome)
    (h : Spec.jump labels l = .ok o) : o.mem = [] := by
  unfold Spec.jump at h
  cases hl : labels l <;> simp [hl, pure, Except.pure, throw, throwThe, MonadExceptOf.throw] at h
  subst h; rfl

theorem branch_mem (labels : Spec.Labels) (c : Bool) (l : String) (o : Spec.Outcome)
    (h : Spec.branch labels c l = .ok o) : o.mem = [] := by
  unfold Spec.branch at h
  cases c
  · simp [pure, Except.pure] at h; subst h; rfl
  · exact jump_mem labels l o (by simpa using h)

theorem wr_mem (rd : Reg) (v : Word) : (Spec.wr rd v).mem = [] := by
  unfold Spec.wr; split <;> rfl

/-- … and those are the addresses in the specified outcome (so, by `exec_ok`, in Go's `MemoryChanges`). -/
theorem spec_store_addrs (i : Spec.Instr) (pc : Word) (rf : Spec.RegFile) (labels : Spec.Labels)
    (bytes : List Byte) (o : Spec.Outcome) (h : Spec.exec i pc rf labels bytes = .ok o) :
    o.mem.map (·.1) = Spec.storeAddrs i rf := by
  cases i with
  | store wd src base off =>
    cases wd <;> simp [Spec.exec, pure, Except.pure] at h <;> subst h <;>
      simp [Spec.storeBytes, Spec.storeAddrs, Spec.Width.bytes, List.range, List.range.loop, BitVec.add_assoc]
  | r op rd rs1 rs2 =>
    simp only [Spec.exec, bind, Except.bind] at h
    cases hv : op.eval (Spec.rd0 rf rs1) (Spec.rd0 rf rs2) <;> simp [hv, pure, Except.pure] at h
    subst h; simp [wr_mem, Spec.storeAddrs]
  | br c rs1 rs2 l => simp [Spec.exec] at h; simp [branch_mem _ _ _ _ h, Spec.storeAddrs]
  | beqz rs l => simp [Spec.exec] at h; simp [branch_mem _ _ _ _ h, Spec.storeAddrs]
  | bnez rs l => simp [Spec.exec] at h; simp [branch_mem _ _ _ _ h, Spec.storeAddrs]
  | j l => simp [Spec.exec] at h; simp [jump_mem _ _ _ h, Spec.storeAddrs]
  | jal rd l =>
    simp only [Spec.exec, bind, Except.bind] at h
    cases hv : Spec.jump labels l <;> simp [hv, pure, Except.pure] at h
    subst h; simp [jump_mem _ _ _ hv, Spec.storeAddrs]
  | jalr rd rs imm => simp [Spec.exec, pure, Except.pure] at h; subst h; simp [wr_mem, Spec.storeAddrs]
  | i op rd rs1 imm => simp [Spec.exec, pure, Except.pure] at h; subst h; simp [wr_mem, Spec.storeAddrs]
  | lui rd imm => simp [Spec.exec, pure, Except.pure] at h; subst h; simp [wr_mem, Spec.storeAddrs]
  | auipc rd imm => simp [Spec.exec, pure, Except.pure] at h; subst h; simp [wr_mem, Spec.storeAddrs]
  | load wd rd base off => simp [Spec.exec, pure, Except.pure] at h; subst h; simp [wr_mem, Spec.storeAddrs]
  | li rd imm => simp [Spec.exec, pure, Except.pure] at h; subst h; simp [wr_mem, Spec.storeAddrs]
  | mv rd rs => simp [Spec.exec, pure, Except.pure] at h; subst h; simp [wr_mem, Spec.storeAddrs]
  | nop => simp [Spec.exec, pure, Except.pure] at h; subst h; rfl
  | ret => simp [Spec.exec, pure, Except.pure] at h; subst h; rfl

/-- No instruction touches the register file from inside `Run`: the only architectural register
effect is the one reported in the `Execution` (link values included). -/
theorem no_direct_write (g : Gen.Instr) (ctx : Model.Context) (labels : GoMap String Word)
    (pc : Word) (mem : List Byte) (seq : Word)
    (hz : Gen.registerRead ctx (fwdOf g) 0 seq = 0)
    (hm : mem.length = (Spec.loadAddrs (ofGen g) (view ctx (fwdOf g) seq)).length) :
    resOfGen (g.run ctx labels pc mem seq) ≠ Res.sideEffect := by
  rw [exec_ok g ctx labels pc mem seq hz hm]
  cases Spec.exec (ofGen g) pc (view ctx (fwdOf g) seq) (labelsOf labels) mem <;> simp [resOfSpec]

/-- `x0` ignores writes: the (register, value) pair every instruction hands to write-back is
`(x0, 0)` whenever the destination is `x0`, so the blind `Registers[r] = v` keeps `x0 = 0`. -/
theorem zero_ignores_writes (rd : Reg) (v : Word) :
    (Gen.IsRegisterChange rd v).1 = 0 → (Gen.IsRegisterChange rd v).2 = 0 := by
  unfold Gen.IsRegisterChange Gen.Reg.Zero
  split <;> simp_all

/-- `x0` reads 0 (the hypothesis `hz` of `exec_ok`) in every context whose register file has
`x0 = 0`, with no speculative entry for `x0` and no forward slot naming a non-zero value for it —
which is what every machine maintains, because nothing ever writes `x0` (`zero_ignores_writes`)
and the control units never forward or rename `x0`. -/
theorem zero_reads_zero (ctx : Model.Context) (fwd : Gen.Forward) (seq : Word)
    (hrat : ctx.rat = false) (htx : ctx.Transaction.find? 0 = none)
    (hreg : GoMap.get1 ctx.Registers 0 = 0) (hf : fwd.Register = 0 → fwd.Value = 0) :
    Gen.registerRead ctx fwd 0 seq = 0 := by
  unfold Gen.registerRead
  by_cases h : (0 : Reg) = fwd.Register
  · simp [h, hf h.symm]
  · have h' : ((0 : Reg) == fwd.Register) = false := by simpa using h
    simp [h', hrat, GoMap.get, htx, hreg]

/-! Non-vacuity: concrete instances of the hypotheses and of the interesting cases. -/

example : Gen.registerRead {} {} 0 0 = 0 := by
  apply zero_reads_zero <;> first | rfl | simp [GoMap.find?]

/-- `sltu` really is unsigned and `srl` really is logical on the regenerated code:
`-1 <u 1` is false, `1 <u -1` is true, `-8 >>l 1 = 0x7FFFFFFC`. -/
example :
    resOfGen ((Gen.Instr.sltu_ { rd := 5, rs1 := 6, rs2 := 7 }).run
      { Registers := GoMap.ofList [(6, 1#32), (7, BitVec.ofInt 32 (-1))] } {} 0 [] 0) =
    Res.ok { reg := some (5, 1#32) } := by decide
example :
    resOfGen ((Gen.Instr.srl_ { rd := 5, rs1 := 6, rs2 := 7 }).run
      { Registers := GoMap.ofList [(6, BitVec.ofInt 32 (-8)), (7, 33#32)] } {} 0 [] 0) =
    Res.ok { reg := some (5, 0x7FFFFFFC#32) } := by decide

end Props.C02

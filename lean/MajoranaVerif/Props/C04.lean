/-
  Props/C04.lean — C04 for MVP-4 (proved on the cycle-accurate model `Model.Mvp4`, which is tied to the Go
  code cycle-exactly on every generated program): register dependences are honoured.

  MVP-4 has ONE execute unit and a write buffer (write bus + write unit) behind it; the only register hazard is
  read-after-write against a result still queued in the buffer.  The theorems:
    * `hazard_interlock_sequential_operands` (RAW): when `ctx.IsWriteDataHazard(ReadRegisters)` is false, the
      instruction's `Run` and `MemoryRead` on the pipeline's register file are EQUAL to `Run`/`MemoryRead` on the
      architectural register file (the file after all queued results, in program order);
    * `write_unit_keeps_architectural_state` (WAW / WAR): whatever the write unit does in a cycle, the
      architectural registers and memory stay the same: queued results are applied oldest first;
    * `executes_exactly_the_sequential_step`: what the execute unit executes is the instruction at the
      architectural pc, and it advances the architectural state by `Model.Seq.stepArch`;
    * `final_registers_sequential`: after the run every register holds what the unpipelined machine MVP-1
      leaves (its last writer in program order) — literal equality of the register maps.
-/
import MajoranaVerif.Proofs.Mvp4Run
import MajoranaVerif.Proofs.Mvp5Run
import MajoranaVerif.Proofs.Mvp60SlRun
open GoInt Model Model.Mvp4 Model.Seq Proofs.Mvp4

namespace Props.C04

/-- **RAW**: the register interlock gives the sequential operand values. -/
theorem hazard_interlock_sequential_operands (s : State) (a : Arch) (hb : Back s a) (i : Gen.Instr) (hf : fwdOf i = {})
    (hz : isWriteDataHazard s.ctx.PendingWriteRegisters i.readRegisters = false)
    (labels : GoMap String Word) (pc : Word) (mem : List Byte) :
    i.run s.ctx labels pc mem 0#32 = i.run a.ctx labels pc mem 0#32 ∧
    i.memoryRead s.ctx 0#32 = i.memoryRead a.ctx 0#32 := by
  have hb' : BackRel s.ctx s.pwmi s.writeBus.inside s.mmu.l1d s.eu.storeID a := hb
  have hsr := sameRegs_of_noWriter hb' (noWriter_of_hazard hb' hz)
  exact ⟨run_congr i hf hsr labels pc mem 0#32, memoryRead_congr i hf hsr 0#32⟩

/-- **WAW / WAR**: the write unit applies the queued results in program order — it never changes the
architectural state. -/
theorem write_unit_keeps_architectural_state (s s1 : State) (a : Arch) (hb : Back s a)
    (h : writeCycle s = .ok s1) : Back s1 a := (writeCycle_back hb h).1

/-- the execute unit executes the instruction at the architectural pc, with the sequential operands, and the
result is one step of the unpipelined machine (`ExecPost` spells out the four outcomes; its `Prop` argument is the
liveness information for a cycle that executes nothing). -/
theorem executes_exactly_the_sequential_step (app : App) (s s2 : State) (a : Arch) (out : EuOut)
    (hb : Back s a) (hn : NormalOk app s a) (hnf : NoFwd app) (hok : stepOk app a = true)
    (h : executeCycle app s = .ok (s2, out)) : ExecPost app s a s2 (LiveEu s → StutterOk app s s2) out :=
  (executeCycle_sim hb hn hnf hok h).2.2.2.2.2

/-- **after the run each register holds the value of its last writer in program order**: the final register
file of MVP-4 is the final register file of the unpipelined machine. -/
theorem final_registers_sequential (app : App) (hnf : NoFwd app) (ctx : Model.Context) (hc : CtxOk ctx) (fuel : Nat)
    (hok : seqOk app fuel ⟨ctx, 0#32⟩ = true) (hk : Halt)
    (hh : (Model.Mvp4.run app ctx fuel).halt = some hk) (hnp : ∀ w, hk ≠ .panic w) (hne : hk ≠ .err) :
    ∃ n, (runMvp1 app ⟨ctx, 0#32⟩ n).halt = some hk ∧
      (Model.Mvp4.run app ctx fuel).final.ctx.Registers = (runMvp1 app ⟨ctx, 0#32⟩ n).final.ctx.Registers := by
  obtain ⟨n, h1, h2⟩ := mvp4_refines_mvp1 app hnf ctx hc fuel hok hk hh hnp
  exact ⟨n, h1, (h2 hne).1⟩

/-! non-vacuity: a RAW chain through a load-free program; the hypotheses hold and the run ends with `ret` -/

/-- `li x5, 7 ; addi x6, x5, 1 ; add x7, x6, x5 ; ret` -/
def exApp : App :=
  { instrs := [.li_ { rd := 5, imm := 7#32 }, .addi_ { rd := 6, rs := 5, imm := 1#32 },
               .add_ { rd := 7, rs1 := 6, rs2 := 5 }, .ret_ {}], labels := {} }
def exCtx : Model.Context := { Memory := List.replicate 64 0#8 }

example : NoFwd exApp := by unfold NoFwd exApp; decide
example : CtxOk exCtx := ⟨rfl, rfl, fun r => by simp [exCtx, GoMap.get1, GoMap.get, GoMap.find?]⟩
set_option maxRecDepth 100000 in
example : seqOk exApp 4000 ⟨exCtx, 0#32⟩ = true := by decide
set_option maxRecDepth 100000 in
example : (Model.Mvp4.run exApp exCtx 4000).halt = some .ret ∧
    GoMap.get1 (Model.Mvp4.run exApp exCtx 4000).final.ctx.Registers 7 = 15#32 := by decide
/-- the relation the per-cycle theorems assume holds in the initial state of every run -/
example : ∃ s0, init exCtx = .ok s0 ∧ Rel exApp s0 ⟨exCtx, 0#32⟩ :=
  init_rel exApp exCtx ⟨rfl, rfl, fun r => by simp [exCtx, GoMap.get1, GoMap.get, GoMap.find?]⟩

end Props.C04

/-! ## MVP-5 (work package MVP5)

  C04 for MVP-5, proved on the cycle-accurate model `Model.Mvp5` (tied to the Go code cycle-exactly).  The
  back end of MVP-5 — execute unit, write bus, write unit, both scoreboards — is MVP-4's (`Model.Mvp5` calls
  `Model.Mvp4`'s functions on the common part `State.base` of the state); the execute unit differs only for
  unconditional jumps (`bu.assert` with the BTB before the interlock, `notifyJumpAddressResolved` after `Run`).
  The MVP-5 counterparts of the four theorems above. -/

namespace Props.C04

/-- **RAW** (MVP-5): the register interlock gives the sequential operand values — also for `jalr`, whose target
register is read under the same interlock after the BTB prediction has been acted upon. -/
theorem mvp5_hazard_interlock_sequential_operands (s : Model.Mvp5.State) (a : Arch) (hb : Back s.base a) (i : Gen.Instr)
    (hf : fwdOf i = {}) (hz : isWriteDataHazard s.base.ctx.PendingWriteRegisters i.readRegisters = false)
    (labels : GoMap String Word) (pc : Word) (mem : List Byte) :
    i.run s.base.ctx labels pc mem 0#32 = i.run a.ctx labels pc mem 0#32 ∧
    i.memoryRead s.base.ctx 0#32 = i.memoryRead a.ctx 0#32 :=
  hazard_interlock_sequential_operands s.base a hb i hf hz labels pc mem

/-- **WAW / WAR** (MVP-5): the write unit applies the queued results in program order — it never changes the
architectural state. -/
theorem mvp5_write_unit_keeps_architectural_state (s s1 : Model.Mvp5.State) (a : Arch) (hb : Back s.base a)
    (h : Model.Mvp5.writeCycle s = .ok s1) : Back s1.base a := by
  obtain ⟨_, _, _, hb1, _⟩ := Proofs.Mvp5.writeCycle5_rel (app := { instrs := [], labels := {} }) hb h
  exact hb1

/-- (MVP-5) the execute unit executes the instruction at the architectural pc, with the sequential operands, and
the result is one step of the unpipelined machine (`Proofs.Mvp5.ExecPost5` spells out the four outcomes). -/
theorem mvp5_executes_exactly_the_sequential_step (app : App) (s s2 : Model.Mvp5.State) (a : Arch) (out : EuOut)
    (hb : Back s.base a) (hn : Proofs.Mvp5.NormalOk5 app s a) (hnf : NoFwd app) (hok : stepOk app a = true)
    (h : Model.Mvp5.executeCycle app s = .ok (s2, out)) :
    Proofs.Mvp5.ExecPost5 app s a s2 (LiveEu s.base → Proofs.Mvp5.Stut5 s s2) out :=
  (Proofs.Mvp5.executeCycle5_sim hb hn hnf hok h).2.2.2.2.2

/-- **after an MVP-5 run each register holds the value of its last writer in program order** -/
theorem mvp5_final_registers_sequential (app : App) (hnf : NoFwd app) (ctx : Model.Context) (hc : CtxOk ctx)
    (fuel : Nat) (hok : seqOk app fuel ⟨ctx, 0#32⟩ = true) (hk : Halt)
    (hh : (Model.Mvp5.run app ctx fuel).halt = some hk) (hnp : ∀ w, hk ≠ .panic w) (hne : hk ≠ .err) :
    ∃ n, (runMvp1 app ⟨ctx, 0#32⟩ n).halt = some hk ∧
      (Model.Mvp5.run app ctx fuel).final.base.ctx.Registers = (runMvp1 app ⟨ctx, 0#32⟩ n).final.ctx.Registers := by
  obtain ⟨n, h1, h2⟩ := Proofs.Mvp5.mvp5_refines_mvp1 app hnf ctx hc fuel hok hk hh hnp
  exact ⟨n, h1, (h2 hne).1⟩

/-! non-vacuity: a RAW chain through a call: the link register written by `jal` is read by `jalr` -/

/-- `li x5,7 ; jal x1,F ; add x7,x6,x5 ; ret ; F: addi x6,x5,1 ; jalr x0,x1,0` -/
def exApp5 : App :=
  { instrs := [.li_ { rd := 5, imm := 7#32 }, .jal_ { rd := 1, label := "F" }, .add_ { rd := 7, rs1 := 6, rs2 := 5 },
               .ret_ {}, .addi_ { rd := 6, rs := 5, imm := 1#32 }, .jalr_ { rd := 0, rs := 1, imm := 0#32 }],
    labels := ⟨[("F", 16#32)]⟩ }

example : NoFwd exApp5 := by unfold NoFwd exApp5; decide
set_option maxRecDepth 100000 in
example : seqOk exApp5 4000 ⟨exCtx, 0#32⟩ = true := by decide
set_option maxRecDepth 100000 in
example : (Model.Mvp5.run exApp5 exCtx 4000).halt = some .ret ∧
    GoMap.get1 (Model.Mvp5.run exApp5 exCtx 4000).final.base.ctx.Registers 7 = 15#32 ∧
    GoMap.get1 (Model.Mvp5.run exApp5 exCtx 4000).final.base.ctx.Registers 1 = 8#32 := by decide
/-- the relation the per-cycle theorems assume holds in the initial state of every run -/
example : ∃ s0, Model.Mvp5.init exCtx = .ok s0 ∧ Proofs.Mvp5.Rel5 exApp5 s0 ⟨exCtx, 0#32⟩ := by
  obtain ⟨s0, h1, h2, _⟩ := Proofs.Mvp5.init5_rel exApp5 exCtx
    ⟨rfl, rfl, fun r => by simp [exCtx, GoMap.get1, GoMap.get, GoMap.find?]⟩
  exact ⟨s0, h1, h2⟩

end Props.C04

/-! ## MVP-6.0 (package R60): the scoreboards of the first superscalar variant

`Proofs.Mvp60Sl.Back ctx W X a`: the register file plus the results `W` queued on the write bus (applied in order) is the
register file of the unpipelined machine in state `a`; the pending-write scoreboard counts every result in flight (`W` and
the issued runners `X`); no issued runner reads a register that a result in flight or an older issued runner writes. -/
namespace Props.C04

/-- **issue keeps the scoreboard invariant (MVP-6.0).**  A runner that `IsDataHazard3` lets through (no RAW/WAW/WAR against
the scoreboards) can be appended to the issued runners. -/
theorem mvp60_issue_keeps_interlock (ctx : Model.Context) (W : List Model.Mvp60.ExecCtx) (X : List Model.Mvp60.Runner) (a : Arch)
    (hb : Proofs.Mvp60Sl.Back ctx W X a) (r : Model.Mvp60.Runner) (hz : Model.Mvp60.isDataHazard3 ctx r.instr = false) :
    Proofs.Mvp60Sl.Back (Model.Mvp60.addPendingRegisters ctx r.instr) W (X ++ [r]) a :=
  hb.issue r hz

/-- **the hazard interlock gives sequential operands (MVP-6.0).**  The registers the oldest issued runner reads have, in the
register file of the machine, the values they have in the unpipelined machine — although up to four older results are still
queued on the write bus. -/
theorem mvp60_hazard_interlock_sequential_operands (ctx : Model.Context) (W : List Model.Mvp60.ExecCtx) (x : Model.Mvp60.Runner)
    (X : List Model.Mvp60.Runner) (a : Arch) (hb : Proofs.Mvp60Sl.Back ctx W (x :: X) a) :
    ∀ r ∈ x.instr.readRegisters, r ≠ 0 → GoMap.get1 ctx.Registers r = GoMap.get1 a.ctx.Registers r :=
  hb.sameRegs.regs

/-- **an execute unit executes exactly the sequential step (MVP-6.0, straight-line programs).**  Running the oldest issued
runner against the machine's register file yields the result of the next step of the unpipelined machine; with that result
appended to the write bus the invariant holds for the next architectural state; a defined error is the unpipelined machine's. -/
theorem mvp60_executes_exactly_the_sequential_step (app : App) (ctx : Model.Context) (W : List Model.Mvp60.ExecCtx)
    (x : Model.Mvp60.Runner) (X : List Model.Mvp60.Runner) (a : Arch) (n0 : Nat)
    (hb : Proofs.Mvp60Sl.Back ctx W (x :: X) a) (hsm : app.instrs.length < 250) (hpc : a.pc = Proofs.Mvp60Sl.pcOf n0)
    (hx : Proofs.Mvp60Sl.RunnerOk app x n0) (hsl : Model.Mvp60.slInstr x.instr = true) (hnf : fwdOf x.instr = {}) :
    (∀ e, x.instr.run ctx app.labels x.pc [] 0#32 = .ok e →
      ∃ a', (∃ c, stepArch Proofs.Mvp4.dc app a = .next a' c) ∧ a'.pc = Proofs.Mvp60Sl.pcOf (n0 + 1) ∧
        Proofs.Mvp60Sl.Back ctx (W ++ [Proofs.Mvp60Sl.ecOf x e]) X a' ∧
        e.Return = false ∧ e.MemoryChange = false ∧ e.PcChange = false) ∧
    (∀ msg, x.instr.run ctx app.labels x.pc [] 0#32 = .error (.err msg) → ∃ c, stepArch Proofs.Mvp4.dc app a = .halt .err c) :=
  hb.execute hsm hpc hx hsl hnf

/-- **a write unit keeps the architectural state (MVP-6.0).**  Writing the oldest queued result to the register file and
releasing its scoreboard entries leaves the invariant — for the SAME architectural state. -/
theorem mvp60_write_unit_keeps_architectural_state (ctx : Model.Context) (ec : Model.Mvp60.ExecCtx) (W : List Model.Mvp60.ExecCtx)
    (X : List Model.Mvp60.Runner) (a : Arch) (hb : Proofs.Mvp60Sl.Back ctx (ec :: W) X a) :
    Proofs.Mvp60Sl.Back (Model.Mvp60.deletePendingRegisters
      (if ec.execution.RegisterChange then writeRegister ctx ec.execution else ctx) ec.readRegisters ec.writeRegisters) W X a :=
  hb.writeback

/-- Non-vacuity: the invariant holds initially (empty write bus, nothing issued, clean scoreboards) -/
example : Proofs.Mvp60Sl.Back ({ Memory := List.replicate 64 0#8 } : Model.Context) [] [] ⟨{ Memory := List.replicate 64 0#8 }, 0#32⟩ :=
  ⟨rfl, rfl, rfl, rfl, rfl, rfl, (fun _ h => by cases h), (fun r _ => Int.le_refl _), (fun _ h => by cases h), List.Pairwise.nil,
   (fun _ h => by cases h)⟩

end Props.C04

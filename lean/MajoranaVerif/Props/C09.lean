/-
  Props/C09.lean — C09 for MVP-3: returning from the program completes everything
  older than the return.

  MVP-3 is unpipelined, so the only work that can still be "in flight" when `Run` leaves
  its loop (by `ret` or by running past the last instruction) is data that lives only in
  the write-back L1D.  The theorems: when the run of the model `Model.Mvp3` (tied to
  proc/mvp3 on every run, `m3=`) returns normally, `ctx.Memory` ITSELF — not the view
  through the cache — holds for every byte the value last stored by the program, i.e. it
  equals the memory of the cache-less machine and, on runs the specification accepts, the
  specification's final memory (`Spec.run` applies every store in program order); the
  register file is the specification's as well, and no cached line differs from memory
  any more.  Corollaries of Props/C05 (`mvp3_transparent`, whose core is the flush theorem
  `flush_memory_eq_view`) and Props/C01.

  Hypothesis (decidable, printed by the driver as `h3=`): `Model.Mvp3.wfAccesses` —
  in-bounds, line-local accesses; implied by well-formedness along the specification run.
-/
import MajoranaVerif.Props.C05
open GoInt Model Model.Seq Model.Mmu Model.Mvp3 LineCache Proofs.Mmu Proofs.Mvp3 Proofs.Refine

namespace Props.C09

/-- **C09, MVP-3 (against the cache-less machine)**: after a normal return the memory and the registers are
exactly those of the cache-less run — every store has reached `ctx.Memory`. -/
theorem mvp3_return_completes (app : App) (a : Arch) (fuel : Nat) (h : wfAccesses app a fuel = true)
    (hret : (runMvp3 app a fuel).halt = some .ret ∨ (runMvp3 app a fuel).halt = some .offEnd) :
    (runMvp3 app a fuel).final.ctx.Memory = (runMvp1 app a fuel).final.ctx.Memory ∧
    (runMvp3 app a fuel).final.ctx.Registers = (runMvp1 app a fuel).final.ctx.Registers ∧
    (runMvp3 app a fuel).steps = (runMvp1 app a fuel).steps := by
  obtain ⟨hh, hs, _, _, _, hfin⟩ := Props.C05.mvp3_transparent app a fuel h
  rw [hh] at hret
  rw [hfin hret]
  exact ⟨rfl, rfl, hs⟩

/-- **nothing is left behind**: after a normal return no resident line differs from memory — the view
through the cache is the memory itself -/
theorem mvp3_no_dirty_left (app : App) (a : Arch) (fuel : Nat) (h : wfAccesses app a fuel = true)
    (hret : (runMvp3 app a fuel).halt = some .ret ∨ (runMvp3 app a fuel).halt = some .offEnd) :
    ∀ x : Nat, x < (runMvp3 app a fuel).final.ctx.Memory.length →
      view (runMvp3 app a fuel).mmu.l1d.lines (runMvp3 app a fuel).final.ctx.Memory x =
        (runMvp3 app a fuel).final.ctx.Memory[x]? := by
  obtain ⟨hh, _, _, _, hinv, hfin⟩ := Props.C05.mvp3_transparent app a fuel h
  rw [hh] at hret
  have hm := (mvp3_return_completes app a fuel h (by rw [hh]; exact hret)).1
  intro x hx
  rw [hm] at hx ⊢
  have := hinv.2.2 x hx
  rw [hm] at this
  exact this

/-- **C09, MVP-3 (against the specification)**: when the sequential run ends by `ret` or by running past the
last instruction, so does MVP-3, after the same number of instructions, and every instruction before that
point has taken full effect: the register file and `ctx.Memory` are the specification's final state. -/
theorem mvp3_return_completes_spec (app : App) (hw : WfApp app) (ctx : Model.Context) (m : Spec.Machine)
    (hR : Rel ctx m) (hsz : m.mem.size + 64 ≤ 2 ^ 31) (fuel : Nat)
    (hstop : (Spec.run (specProg app) m fuel).stop = .ret ∨ (Spec.run (specProg app) m fuel).stop = .offEnd) :
    ((runMvp3 app ⟨ctx, 0#32⟩ fuel).halt = some .ret ∨ (runMvp3 app ⟨ctx, 0#32⟩ fuel).halt = some .offEnd) ∧
    (runMvp3 app ⟨ctx, 0#32⟩ fuel).final.ctx.Memory = (Spec.run (specProg app) m fuel).final.mem.toList ∧
    (∀ r, GoMap.get1 (runMvp3 app ⟨ctx, 0#32⟩ fuel).final.ctx.Registers r = (Spec.run (specProg app) m fuel).final.rf r) ∧
    (runMvp3 app ⟨ctx, 0#32⟩ fuel).steps = (Spec.run (specProg app) m fuel).steps := by
  have hwf : ∀ why, (Spec.run (specProg app) m fuel).stop ≠ .notWf why := by
    intro why hc
    rcases hstop with h | h <;> rw [h] at hc <;> cases hc
  obtain ⟨hrel, hsteps⟩ := Props.C05.mvp3_transparent_spec app hw ctx m hR hsz fuel hwf hstop
  have h3 := Props.C05.mvp3_transparent app ⟨ctx, 0#32⟩ fuel (Props.C05.spec_wfAccesses app hw ctx m hR hsz fuel hwf)
  have h1 := Props.C01.mvp1_correct app hw ctx m hR fuel
  unfold Props.C01.Agree at h1
  refine ⟨?_, hrel.mem, hrel.regs, hsteps⟩
  rw [h3.1]
  rcases hstop with hs | hs <;> rw [hs] at h1 <;> simp only at h1
  · exact Or.inl h1.1
  · exact Or.inr h1.1

/-- Non-vacuity: the run of `Props.C05.exApp` (a dirty line is evicted and re-fetched, 60 instructions) returns
by `ret` and satisfies the hypothesis; the stored word is in `ctx.Memory` afterwards. -/
example : wfAccesses Props.C05.exApp Props.C05.exState 80 = true ∧
    (runMvp3 Props.C05.exApp Props.C05.exState 80).halt = some .ret ∧
    (runMvp3 Props.C05.exApp Props.C05.exState 80).final.ctx.Memory.take 4 = [0x80#8, 0x04#8, 0#8, 0#8] := by
  decide +kernel

end Props.C09

/-
  Props/C09.lean — C09 for MVP-3: returning from the program completes everything
  older than the return.

  MVP-3 is unpipelined, so the only work that can still be "in flight" when `Run` leaves
  its loop (by `ret` or by running past the last instruction) is data that lives only in
  the write-back L1D.  The theorems: when the run of the model `Model.Mvp3` (tied to
  proc/mvp3 on every run, `m3=`) returns normally, `ctx.Memory` ITSELF — not the view
  through the cache — holds for every byte the value last stored by the program, i.e. it
  equals the memory of the cache-less machine and, on runs the specification accepts, the
  specification's final memory (`Spec.run` applies every store in program order); the
  register file is the specification's as well, and no cached line differs from memory
  any more.  Corollaries of Props/C05 (`mvp3_transparent`, whose core is the flush theorem
  `flush_memory_eq_view`) and Props/C01.

  Hypothesis (decidable, printed by the driver as `h3=`): `Model.Mvp3.wfAccesses` —
  in-bounds, line-local accesses; implied by well-formedness along the specification run.
-/
import MajoranaVerif.Props.C05
open GoInt Model Model.Seq Model.Mmu Model.Mvp3 LineCache Proofs.Mmu Proofs.Mvp3 Proofs.Refine

namespace Props.C09

/-- **C09, MVP-3 (against the cache-less machine)**: after a normal return the memory and the registers are
exactly those of the cache-less run — every store has reached `ctx.Memory`. -/
theorem mvp3_return_completes (app : App) (a : Arch) (fuel : Nat) (h : wfAccesses app a fuel = true)
    (hret : (runMvp3 app a fuel).halt = some .ret ∨ (runMvp3 app a fuel).halt = some .offEnd) :
    (runMvp3 app a fuel).final.ctx.Memory = (runMvp1 app a fuel).final.ctx.Memory ∧
    (runMvp3 app a fuel).final.ctx.Registers = (runMvp1 app a fuel).final.ctx.Registers ∧
    (runMvp3 app a fuel).steps = (runMvp1 app a fuel).steps := by
  obtain ⟨hh, hs, _, _, _, hfin⟩ := Props.C05.mvp3_transparent app a fuel h
  rw [hh] at hret
  rw [hfin hret]
  exact ⟨rfl, rfl, hs⟩

/-- **nothing is left behind**: after a normal return no resident line differs from memory — the view
through the cache is the memory itself -/
theorem mvp3_no_dirty_left (app : App) (a : Arch) (fuel : Nat) (h : wfAccesses app a fuel = true)
    (hret : (runMvp3 app a fuel).halt = some .ret ∨ (runMvp3 app a fuel).halt = some .offEnd) :
    ∀ x : Nat, x < (runMvp3 app a fuel).final.ctx.Memory.length →
      view (runMvp3 app a fuel).mmu.l1d.lines (runMvp3 app a fuel).final.ctx.Memory x =
        (runMvp3 app a fuel).final.ctx.Memory[x]? := by
  obtain ⟨hh, _, _, _, hinv, hfin⟩ := Props.C05.mvp3_transparent app a fuel h
  rw [hh] at hret
  have hm := (mvp3_return_completes app a fuel h (by rw [hh]; exact hret)).1
  intro x hx
  rw [hm] at hx ⊢
  have := hinv.2.2 x hx
  rw [hm] at this
  exact this

/-- **C09, MVP-3 (against the specification)**: when the sequential run ends by `ret` or by running past the
last instruction, so does MVP-3, after the same number of instructions, and every instruction before that
point has taken full effect: the register file and `ctx.Memory` are the specification's final state. -/
theorem mvp3_return_completes_spec (app : App) (hw : WfApp app) (ctx : Model.Context) (m : Spec.Machine)
    (hR : Rel ctx m) (hsz : m.mem.size + 64 ≤ 2 ^ 31) (fuel : Nat)
    (hstop : (Spec.run (specProg app) m fuel).stop = .ret ∨ (Spec.run (specProg app) m fuel).stop = .offEnd) :
    ((runMvp3 app ⟨ctx, 0#32⟩ fuel).halt = some .ret ∨ (runMvp3 app ⟨ctx, 0#32⟩ fuel).halt = some .offEnd) ∧
    (runMvp3 app ⟨ctx, 0#32⟩ fuel).final.ctx.Memory = (Spec.run (specProg app) m fuel).final.mem.toList ∧
    (∀ r, GoMap.get1 (runMvp3 app ⟨ctx, 0#32⟩ fuel).final.ctx.Registers r = (Spec.run (specProg app) m fuel).final.rf r) ∧
    (runMvp3 app ⟨ctx, 0#32⟩ fuel).steps = (Spec.run (specProg app) m fuel).steps := by
  have hwf : ∀ why, (Spec.run (specProg app) m fuel).stop ≠ .notWf why := by
    intro why hc
    rcases hstop with h | h <;> rw [h] at hc <;> cases hc
  obtain ⟨hrel, hsteps⟩ := Props.C05.mvp3_transparent_spec app hw ctx m hR hsz fuel hwf hstop
  have h3 := Props.C05.mvp3_transparent app ⟨ctx, 0#32⟩ fuel (Props.C05.spec_wfAccesses app hw ctx m hR hsz fuel hwf)
  have h1 := Props.C01.mvp1_correct app hw ctx m hR fuel
  unfold Props.C01.Agree at h1
  refine ⟨?_, hrel.mem, hrel.regs, hsteps⟩
  rw [h3.1]
  rcases hstop with hs | hs <;> rw [hs] at h1 <;> simp only at h1
  · exact Or.inl h1.1
  · exact Or.inr h1.1

/-- Non-vacuity: the run of `Props.C05.exApp` (a dirty line is evicted and re-fetched, 60 instructions) returns
by `ret` and satisfies the hypothesis; the stored word is in `ctx.Memory` afterwards. -/
example : wfAccesses Props.C05.exApp Props.C05.exState 80 = true ∧
    (runMvp3 Props.C05.exApp Props.C05.exState 80).halt = some .ret ∧
    (runMvp3 Props.C05.exApp Props.C05.exState 80).final.ctx.Memory.take 4 = [0x80#8, 0x04#8, 0#8, 0#8] := by
  decide +kernel

end Props.C09

/-! ## C09 on the multi-core variants, at the level of the MSI protocol (work package COH)

When no core holds a line Modified any more — in particular after the end-of-run write-back of every Modified line
(`cc.writeBack()`, a snoop write-back in the model) — the next level holds the value of the last completed write to that
line: nothing older than the return is lost in an L1.  (What the next level of MVP-8 then does with it — L3 and memory —
is `Props.C06.l3_final_memory_is_next_level`.) -/

namespace Props.C09
open Model.Msi Proofs.Msi Proofs.MsiCoherence

variable {D : Type}

/-- **(d)** with no Modified holder the next level IS the current value … -/
theorem Msi.mem_is_cur (σ : Model.Msi.State D) (l : Model.Msi.Line) (hM : ∀ c, σ.st c l ≠ .M) :
    σ.mem l = Proofs.MsiCoherence.cur σ l :=
  (cur_of_noM (fun c _ => hM c)).symm

/-- … hence **after the write-back of every Modified line memory holds the last completed write of every line** -/
theorem Msi.final_memory_is_last_write (n : Nat) (mem : Model.Msi.Line → D) (as : List (Action D))
    (hs : SafeRun (Model.Msi.init n mem) as) (l : Model.Msi.Line)
    (hM : ∀ c, (Model.Msi.run (Model.Msi.init n mem) as).st c l ≠ .M) :
    (Model.Msi.run (Model.Msi.init n mem) as).mem l = lastWrite mem (writesOf (Model.Msi.init n mem) as) l :=
  Proofs.MsiCoherence.final_memory_is_last_write n mem as hs l hM

/-- the write-back itself (a snoop of kind `writeBack` on the Modified holder) moves the value to the next level without
changing it, and afterwards nobody holds the line Modified -/
theorem Msi.writeback_moves_value (σ : Model.Msi.State D) (h : Inv σ) (e : Core) (l : Model.Msi.Line)
    (hc : σ.cmd e l .writeBack = true) :
    (Model.Msi.step σ (.snoop e l .writeBack)).mem l = Proofs.MsiCoherence.cur σ l ∧
    ∀ c, (Model.Msi.step σ (.snoop e l .writeBack)).st c l ≠ .M := by
  have hi' := inv_step σ (.snoop e l .writeBack) h (Or.inl rfl)
  have hM : σ.st e l = .M := (h.cmdState e l).2 hc
  have hnoM : ∀ c, (Model.Msi.step σ (.snoop e l .writeBack)).st c l ≠ .M := by
    intro c hMc
    have hst : (Model.Msi.step σ (.snoop e l .writeBack)).st = upd2 σ.st e l .I := by
      obtain ⟨d, hd⟩ : ∃ d, σ.l1 e l = some d := by
        have := h.holdsOfState e l (by rw [hM]; simp)
        cases hh : σ.l1 e l with
        | none => exact absurd hh this
        | some d => exact ⟨d, rfl⟩
      unfold Model.Msi.step Model.Msi.snoop
      simp only [h.noPanic, Bool.false_eq_true, if_false, hc, if_true, hd]
    rw [hst] at hMc
    by_cases he : c = e
    · subst he; rw [upd2_same] at hMc; cases hMc
    · rw [upd2_other _ _ (fun hh => he hh.1)] at hMc
      have := h.single e c l hM he
      rw [this] at hMc; cases hMc
  refine ⟨?_, hnoM⟩
  rw [Msi.mem_is_cur _ l hnoM, cur_step h (.snoop e l .writeBack) (Or.inl rfl)]
  rfl

/-- Non-vacuity: at the end of the history of `Props.C05.Msi` (writes 11 then 22 to line 7; both Modified copies were
written back by snoops) no core holds line 7 Modified and the next level holds 22 -/
example : ((Props.C05.Msi.cohAt 16).st 0 7 == .M, (Props.C05.Msi.cohAt 16).st 1 7 == .M, (Props.C05.Msi.cohAt 16).mem 7) =
    (false, false, 22) := by decide

end Props.C09

/-
  Props/C13.lean — C13: the line cache behaves as an LRU cache of its reference
  model; the generic key-value LRU obeys the same recency order.

  Subject: `LineCache.*` (Model/LineCache.lean, hand model of /repo/proc/comp/cache.go) and
  `KvLru.*` (Model/KvLru.lean, hand model of /repo/common/cache/lru.go), both tied to the
  real code by the lock-step streams of `bin/check C13`.

  Quantifiers: EVERY line length `L ≥ 1`, EVERY number of lines `n`, EVERY history `h`
  (a `List Op`, NEWEST CALL FIRST; `LineCache.after L n h` is the cache after it, and
  `after_is_run` says it is the left fold over the calls in call order) that keeps the
  callers' contract `LineCache.Valid` — a decidable predicate: pushed lines carry `L`
  bytes, do not overlap a resident line (the `AlignedAddress` contract), are not pushed
  while an announced victim is still resident, and writes stay inside a resident line.
  `overlap_counterexample` shows the non-overlap hypothesis cannot be dropped.

  The reference is the history itself (`LineCache.Ref`, Model/LineCache.lean):
    `Ref.value L x h`     the last value written to byte `x` (latest Write over it, else latest push over it);
    `Ref.stamp L lo h`    position of the last Get hit / the push of the line at base `lo`;
    `Ref.resident L n h`  bases pushed and not removed since (EvictCacheLine, or least-recent on a full PushLine).
-/
import MajoranaVerif.Proofs.LineCache
import MajoranaVerif.Proofs.KvLru

namespace Props.C13
open LineCache LineCache.Ref GoInt

/-! ## the line cache -/

/-- histories newest-first are just another way to write the left fold over the calls -/
theorem after_is_run (L n : Nat) (ops : List Op) : run L n ops = after L n ops.reverse :=
  Proofs.LC.run_eq_after L n ops

/-- `NewLRUCache(L, L*n)` is the empty cache the histories start from -/
theorem new_is_empty (L n : Nat) (hL : 0 < L) : LineCache.new L (L * n) = .ok (Cache.empty L n) := by
  have h1 : ¬ L = 0 := by omega
  have h2 : L * n % L = 0 := Nat.mul_mod_right L n
  have h3 : L * n / L = n := Nat.mul_div_cancel_left n hL
  simp [LineCache.new, h1, h2, h3, Cache.empty]; rfl

/-- a history used by the non-vacuity examples: 2-byte lines, 2 lines; call order
`push 0 [1,2]; push 2 [3,4]; write 1 [9]; get 0` — the cache is then full, line 0 is the MRU one -/
def demo : List Op := [.get 0, .write 1 [9#8], .push 2 [3#8, 4#8], .push 0 [1#8, 2#8]]

/-- **invariant.** After every valid history: the lines are pairwise disjoint intervals of
length `L` carrying `L` bytes, ordered by strictly decreasing recency (MRU first), and there are
at most `n` of them, plus one while an announced victim waits for its eviction. -/
theorem invariant (L n : Nat) (hL : 0 < L) (h : List Op) (hv : Valid L n h = true) :
    (after L n h).lines.Pairwise (fun l1 l2 => l1.hi ≤ l2.lo ∨ l2.hi ≤ l1.lo) ∧
    (∀ l ∈ (after L n h).lines, l.hi = l.lo + L ∧ l.data.length = L) ∧
    (after L n h).lines.Pairwise (fun l1 l2 => stamp L l2.lo h < stamp L l1.lo h) ∧
    (after L n h).lines.length ≤ n + 1 ∧
    (after L n h).lineLength = L ∧ (after L n h).numberOfLines = n := by
  have hi := Proofs.LC.inv_after (n := n) hL h hv
  exact ⟨hi.good.disj, hi.good.wf, hi.good.sorted, hi.len, hi.hL, hi.hn⟩

example : Valid 2 2 demo = true ∧ (after 2 2 demo).lines.length = 2 := by decide

/-- the extra line only ever comes from `PushLineWithEvictionWarning`: a history without it never
holds more than `n` lines. (With it: `capacity_restored_warn` below.) -/
theorem capacity_without_warning (L n : Nat) (hL : 0 < L) (h : List Op) (hv : Valid L n h = true)
    (hnw : ∀ lo d, Op.pushWarn lo d ∉ h) : (after L n h).lines.length ≤ n :=
  Proofs.LC.length_no_warn (Proofs.LC.inv_after (n := n) hL h hv) hnw

/-- **read_latest.** A `Get` that hits returns the last value written to that byte since its
line was inserted (`Ref.value`); and `Get` never panics in a reachable state. -/
theorem read_latest (L n : Nat) (hL : 0 < L) (h : List Op) (hv : Valid L n h = true) (a : Int) :
    (∀ v c', LineCache.get (after L n h) a = .ok (some v, c') → value L a h = some v) ∧
    (∃ r, LineCache.get (after L n h) a = .ok r) := by
  have hi := Proofs.LC.inv_after (n := n) hL h hv
  exact ⟨fun v c' hg => Proofs.LC.get_some_value hi hg, Proofs.LC.get_total hi a⟩

example : (LineCache.get (after 2 2 demo) 1).map (·.1) = .ok (some 9#8) ∧ value 2 1 demo = some 9#8 := ⟨rfl, by decide⟩

/-- the same for `GetCacheLine`: the slice it returns is the whole line of the address, byte by
byte what the history says; it misses exactly when no line contains the address. -/
theorem read_latest_line (L n : Nat) (hL : 0 < L) (h : List Op) (hv : Valid L n h = true) (a : Int) :
    (∀ d, getCacheLine (after L n h) a = .ok (some d) →
      ∃ l ∈ (after L n h).lines, l.covers a = true ∧ d = l.data ∧ d.length = L ∧
        ∀ i : Nat, i < L → d[i]? = value L (l.lo + i) h) ∧
    (getCacheLine (after L n h) a = .ok none ↔ ∀ l ∈ (after L n h).lines, l.covers a = false) ∧
    (∃ r, getCacheLine (after L n h) a = .ok r) :=
  Proofs.LC.getCacheLine_spec (Proofs.LC.inv_after (n := n) hL h hv) a

/-- **present_iff.** A byte is present (`Get` hits) exactly when a resident line of the
reference — pushed and not removed since — contains it; equivalently when a line of the
cache contains it. -/
theorem present_iff (L n : Nat) (hL : 0 < L) (h : List Op) (hv : Valid L n h = true) (a : Int) :
    ((∃ v c', LineCache.get (after L n h) a = .ok (some v, c')) ↔
      ∃ lo ∈ resident L n h, lo ≤ a ∧ a < lo + L) ∧
    ((∃ v c', LineCache.get (after L n h) a = .ok (some v, c')) ↔
      ∃ l ∈ (after L n h).lines, l.covers a = true) := by
  have hi := Proofs.LC.inv_after (n := n) hL h hv
  exact ⟨(Proofs.LC.get_some_iff_covered hi a).trans (Proofs.LC.covered_iff_resident hi a),
         Proofs.LC.get_some_iff_covered hi a⟩

/-- the resident bases of the reference are exactly the bases of the lines of the cache -/
theorem resident_is_lines (L n : Nat) (hL : 0 < L) (h : List Op) (hv : Valid L n h = true) :
    (resident L n h).Perm ((after L n h).lines.map (·.lo)) :=
  (Proofs.LC.inv_after (n := n) hL h hv).res

example : resident 2 2 demo = [2, 0] ∧ (after 2 2 demo).lines.map (·.lo) = [0, 2] := by decide

/-- **push_displaces_lru.** `PushLine` into a full cache (contract kept): the line that leaves
is the least recently used one by the reference order, the reported slice is THAT line's
contents (D13, fixed by /repo commit "fix: PushLine reports the contents of the line it
evicts"), these contents are what the history says, every other line stays, and the
reference's resident set loses exactly the victim's base. -/
theorem push_displaces_lru (L n : Nat) (hL : 0 < L) (hn : 0 < n) (h : List Op) (lo : Int) (d : List (BitVec 8))
    (hv : Valid L n (.push lo d :: h) = true) (hfull : (after L n h).lines.length = n) :
    ∃ victim, (after L n h).lines.getLast? = some victim ∧
      (∀ l ∈ (after L n h).lines, stamp L victim.lo h ≤ stamp L l.lo h) ∧
      (pushLine (after L n h) lo d).1 = some victim.data ∧
      (∀ i : Nat, i < L → victim.data[i]? = value L (victim.lo + i) h) ∧
      (after L n (.push lo d :: h)).lines = newLine (after L n h) lo d :: (after L n h).lines.dropLast ∧
      (resident L n (.push lo d :: h)).Perm (lo :: (resident L n h).erase victim.lo) ∧
      victim.lo ∉ resident L n (.push lo d :: h) := by
  simp only [Valid, Bool.and_eq_true] at hv
  exact Proofs.LC.push_full (Proofs.LC.inv_after (n := n) hL h hv.1) hL hv.2 hfull hn

example : Valid 2 2 (.push 4 [5#8, 6#8] :: demo) = true ∧ (after 2 2 demo).lines.length = 2 ∧
    (pushLine (after 2 2 demo) 4 [5#8, 6#8]).1 = some [3#8, 4#8] := by decide

/-- a push into a cache that is not full displaces nothing and reports nothing -/
theorem push_not_full (L n : Nat) (hL : 0 < L) (h : List Op) (lo : Int) (d : List (BitVec 8))
    (hv : Valid L n h = true) (hlt : (after L n h).lines.length < n) :
    pushLine (after L n h) lo d = (none, { after L n h with lines := newLine (after L n h) lo d :: (after L n h).lines }) :=
  Proofs.LC.push_not_full (Proofs.LC.inv_after (n := n) hL h hv) hlt

/-- `PushLineWithEvictionWarning` into a full cache announces the least recently used line
(bounds and contents) and keeps it; into a cache that is not full it announces nothing. -/
theorem pushWarn_announces_lru (L n : Nat) (hL : 0 < L) (hn : 0 < n) (h : List Op) (lo : Int) (d : List (BitVec 8))
    (hv : Valid L n h = true) :
    ((after L n h).lines.length = n →
      ∃ victim, (after L n h).lines.getLast? = some victim ∧
        (∀ l ∈ (after L n h).lines, stamp L victim.lo h ≤ stamp L l.lo h) ∧
        pushLineWithEvictionWarning (after L n h) lo d =
          (some victim, { after L n h with lines := newLine (after L n h) lo d :: (after L n h).lines }) ∧
        (∀ i : Nat, i < L → victim.data[i]? = value L (victim.lo + i) h)) ∧
    ((after L n h).lines.length < n →
      pushLineWithEvictionWarning (after L n h) lo d =
        (none, { after L n h with lines := newLine (after L n h) lo d :: (after L n h).lines })) := by
  have hi := Proofs.LC.inv_after (n := n) hL h hv
  exact ⟨fun hfull => Proofs.LC.pushWarn_full hi hfull hn, fun hlt => Proofs.LC.pushWarn_not_full hi hlt⟩

/-- **capacity_restored (PushLine).** After a `PushLine` there are at most `n` lines. -/
theorem capacity_restored_push (L n : Nat) (hL : 0 < L) (h : List Op) (lo : Int) (d : List (BitVec 8))
    (hv : Valid L n (.push lo d :: h) = true) : (after L n (.push lo d :: h)).lines.length ≤ n := by
  simp only [Valid, Bool.and_eq_true] at hv
  have hi := Proofs.LC.inv_after (n := n) hL h hv.1
  show (step (after L n h) (.push lo d)).1.lines.length ≤ n
  exact Proofs.LC.push_length_le hi

/-- **capacity_restored (warning protocol).** After `PushLineWithEvictionWarning` has announced a
victim, `EvictCacheLine(victim.Boundary[0])` removes exactly that line, reports its data, and the
cache is back to at most `n` lines. -/
theorem capacity_restored_warn (L n : Nat) (hL : 0 < L) (h : List Op) (lo : Int) (d : List (BitVec 8)) (victim : Line)
    (hv : Valid L n (.pushWarn lo d :: h) = true)
    (hw : (pushLineWithEvictionWarning (after L n h) lo d).1 = some victim) :
    ∃ pre post, (after L n (.pushWarn lo d :: h)).lines = pre ++ victim :: post ∧
      evictCacheLine (after L n (.pushWarn lo d :: h)) victim.lo =
        .ok (some victim.data, { after L n (.pushWarn lo d :: h) with lines := pre ++ post }) ∧
      (after L n (.evict victim.lo :: .pushWarn lo d :: h)).lines = pre ++ post ∧
      (after L n (.evict victim.lo :: .pushWarn lo d :: h)).lines.length ≤ n := by
  have hi1 := Proofs.LC.inv_after (n := n) hL _ hv
  simp only [Valid, Bool.and_eq_true] at hv
  have hi0 := Proofs.LC.inv_after (n := n) hL h hv.1
  obtain ⟨_, hlen, _⟩ := Proofs.LC.okOp_pushWarn hv.2
  rw [hi0.hn] at hlen
  have hstate : (after L n (.pushWarn lo d :: h)).lines = newLine (after L n h) lo d :: (after L n h).lines := by
    show (step (after L n h) (.pushWarn lo d)).1.lines = _
    simp only [step]; rw [Proofs.LC.pushWarn_state]
  have hmem : victim ∈ (after L n (.pushWarn lo d :: h)).lines := by
    rw [hstate]
    unfold pushLineWithEvictionWarning at hw
    simp only [] at hw
    split at hw
    · exact List.mem_of_getLast? hw
    · cases hw
  obtain ⟨pre, post, hl, he⟩ := Proofs.LC.evict_victim hi1 hL hmem
  have hafter : (after L n (.evict victim.lo :: .pushWarn lo d :: h)).lines = pre ++ post := by
    show (step (after L n (.pushWarn lo d :: h)) (.evict victim.lo)).1.lines = _
    simp only [step, he]
  refine ⟨pre, post, hl, he, hafter, ?_⟩
  rw [hafter]
  have := congrArg List.length hl
  rw [hstate] at this
  simp at this ⊢
  omega

example : Valid 2 2 (.pushWarn 4 [5#8, 6#8] :: demo) = true ∧
    (pushLineWithEvictionWarning (after 2 2 demo) 4 [5#8, 6#8]).1 = some ⟨2, 4, [3#8, 4#8]⟩ ∧
    (after 2 2 (.evict 2 :: .pushWarn 4 [5#8, 6#8] :: demo)).lines.length = 2 := by decide

/-- `ExistingLines()` hides the overflow line: it is the first `min(len, n)` lines, i.e. all of
them except, in the warning window, the announced victim. -/
theorem existing_hides_overflow (c : Cache) : existingLines c = c.lines.take (min c.lines.length c.numberOfLines) := rfl

/-- **sub_line.** When `GetSubCacheLine(addrs, sub)` answers, the answer is the `sub`-aligned
sub-range around `addrs[0]` of the (non-overflow) line containing it: base `a0 - a0 % sub`,
`sub` bytes, each inside the line and equal to what the history says. -/
theorem sub_line (L n : Nat) (hL : 0 < L) (h : List Op) (hv : Valid L n h = true)
    (a0 : Int) (rest : List Int) (sub small : Int) (dd : List (BitVec 8))
    (hr : getSubCacheLine (after L n h) (a0 :: rest) sub = .ok (some (small, dd))) :
    small = a0 - a0.tmod sub ∧ 0 < sub ∧ dd.length = sub.toNat ∧
    ∃ l ∈ existingLines (after L n h), l.covers a0 = true ∧
      ∀ j : Nat, j < sub.toNat → l.lo ≤ small + j ∧ small + j < l.hi ∧
        dd[j]? = l.data[(small + j - l.lo).toNat]? ∧ dd[j]? = value L (small + j) h :=
  Proofs.LC.getSub_spec (Proofs.LC.inv_after (n := n) hL h hv) hr

example : getSubCacheLine (after 2 2 demo) [3, 4] 1 = .ok (some (3, [4#8])) := rfl

/-- `Write` in contract succeeds (and its effect is the one `read_latest` accounts for); a
`Write` to an address no line contains panics and changes nothing; a `Write` running past
the end of its line panics. -/
theorem write_outcomes (L n : Nat) (hL : 0 < L) (h : List Op) (hv : Valid L n h = true) (a : Int) (d : List (BitVec 8)) :
    (okOp (after L n h) (.write a d) = true → write (after L n h) a d = .ok (after L n (.write a d :: h))) ∧
    (splitAt a (after L n h).lines = none →
      write (after L n h) a d = .error (.panic "cache line doesn't exist") ∧ writeState (after L n h) a d = after L n h) ∧
    (∀ pre x post, splitAt a (after L n h).lines = some (pre, x, post) → x.hi < a + d.length →
      write (after L n h) a d = .error (.panic "index out of range")) := by
  have hi := Proofs.LC.inv_after (n := n) hL h hv
  exact ⟨fun hok => Proofs.LC.write_valid hi hok, fun hs => Proofs.LC.write_absent hs,
         fun pre x post hs ho => Proofs.LC.write_overrun hi hs ho⟩

/-- **overlap_counterexample.** Without the non-overlap contract `read_latest` is false: on a
cache of two 2-byte lines, `push 0 [1,2]; push 1 [3,4]` (overlapping); `write 1 [9]` lands in the
most recent line; `get 0` brings the older line to the front; `get 1` then answers the stale 2,
although 9 was the last value written to byte 1 since either line was inserted. -/
theorem overlap_counterexample :
    ∃ (h : List Op) (a : Int) (v : BitVec 8) (c' : Cache),
      Valid 2 2 h = false ∧ LineCache.get (after 2 2 h) a = .ok (some v, c') ∧ value 2 a h ≠ some v :=
  ⟨[.get 0, .write 1 [9#8], .push 1 [3#8, 4#8], .push 0 [1#8, 2#8]], 1, 2#8, _, by decide, rfl, by decide⟩

/-- D13 as it was before the fix (`c.lines = c.lines[:n]` first, then `c.lines[len-1].Data`): the
model of the OLD body reports the last line it KEEPS.  Kept as the pinned witness of the
defect; `push_displaces_lru` above is about the current body. -/
def pushLineBeforeFix (c : Cache) (lo : Int) (data : List (BitVec 8)) : Option (List (BitVec 8)) × Cache :=
  let ls := newLine c lo data :: c.lines
  if ls.length > c.numberOfLines then
    (((ls.take c.numberOfLines).getLast?.map (·.data)), { c with lines := ls.take c.numberOfLines })
  else (none, { c with lines := ls })

theorem d13_before_fix_reports_wrong_line :
    (pushLineBeforeFix (after 2 2 demo) 4 [5#8, 6#8]).1 = some [1#8, 9#8] ∧
    (pushLine (after 2 2 demo) 4 [5#8, 6#8]).1 = some [3#8, 4#8] ∧
    (after 2 2 demo).lines.getLast? = some ⟨2, 4, [3#8, 4#8]⟩ := by decide

/-! ## the generic key-value LRU (`cache.LRUCache[K, V]`, used to pick an execution unit)

Histories `h : List (KvLru.Op K V)` are NEWEST FIRST; `KvLru.after cap h` is the state after
them from `NewLRUCache(cap)`.  `KvLru.stamp cap k h` is the position of the last call that
touched key `k` (a `Put` of it, a `Get` of it while present, a `Find` that answered it).
No hypothesis on the history: every theorem holds for every capacity and every history. -/

section Kv
variable {K V : Type} [DecidableEq K]

/-- **invariant.** `order` has no duplicates and is exactly the key set of the map, the map
never holds more than `cap` entries, and `order` lists the keys by strictly increasing recency
(least recently touched first — the same recency order as the line cache, reversed). -/
theorem kv_invariant (cap : Nat) (h : List (KvLru.Op K V)) :
    (KvLru.after cap h).order.Nodup ∧
    (∀ k, k ∈ (KvLru.after cap h).order ↔ k ∈ (KvLru.after cap h).cache.keys) ∧
    (KvLru.after cap h).cache.keys.Nodup ∧
    (KvLru.after cap h).cache.entries.length ≤ cap ∧
    (KvLru.after cap h).order.Pairwise (fun a b => KvLru.stamp cap a h < KvLru.stamp cap b h) := by
  have hi := Proofs.KV.inv_after cap h
  exact ⟨hi.orderNodup, hi.sameKeys, hi.keysNodup, hi.size, hi.sorted⟩

/-- a history for the examples (capacity 2): `put 0; put 1; get 0` — key 1 is now the least recent -/
def kvDemo : List (KvLru.Op Nat Nat) := [.get 0, .put 1 11, .put 0 10]

example : (KvLru.after 2 kvDemo).order = [1, 0] ∧ (KvLru.after 2 kvDemo).cache.entries.length = 2 := by decide

/-- **Put on a full map removes the least recently touched key** (and only it): the removed key
is `order[0]`, whose stamp is minimal; the other keys stay, the new key becomes the most recent. -/
theorem kv_put_full_removes_lru (cap : Nat) (h : List (KvLru.Op K V)) (key : K) (v : V) (hcap : 0 < cap)
    (hnew : (KvLru.after cap h).cache.find? key = none)
    (hfull : (KvLru.after cap h).cache.entries.length = cap) :
    ∃ k0 rest l', (KvLru.after cap h).order = k0 :: rest ∧ KvLru.put (KvLru.after cap h) key v = .ok l' ∧
      l'.order = rest ++ [key] ∧ k0 ∉ l'.cache.keys ∧
      (∀ k ∈ (KvLru.after cap h).order, KvLru.stamp cap k0 h ≤ KvLru.stamp cap k h) ∧
      (∀ k ∈ rest, k ∈ l'.cache.keys) ∧ l'.cache.find? key = some v :=
  Proofs.KV.put_full cap h key v hnew hfull hcap

example : (KvLru.after 2 kvDemo).cache.find? 2 = none ∧
    ((KvLru.step (KvLru.after 2 kvDemo) (.put 2 12)).order = [0, 2]) := by decide

/-- Put of a present key, or into a map that is not full, removes nothing and makes the key the most recent -/
theorem kv_put_keeps (cap : Nat) (h : List (KvLru.Op K V)) (key : K) (v : V)
    (hk : (KvLru.after cap h).cache.find? key ≠ none ∨ (KvLru.after cap h).cache.entries.length < cap) :
    ∃ l', KvLru.put (KvLru.after cap h) key v = .ok l' ∧
      l'.order = (KvLru.after cap h).order.erase key ++ [key] ∧
      (∀ k ∈ (KvLru.after cap h).cache.keys, k ∈ l'.cache.keys) ∧ l'.cache.find? key = some v :=
  Proofs.KV.put_keeps cap h key v hk

/-- **Get / Find / Put move the key they touch to most-recent** (the last position of `order`). -/
theorem kv_touch_moves_to_mru (cap : Nat) (hcap : 0 < cap) (h : List (KvLru.Op K V)) (op : KvLru.Op K V) (k : K)
    (ht : KvLru.touchedBy (KvLru.after cap h) op = some k) :
    (KvLru.after cap (op :: h)).order.getLast? = some k :=
  Proofs.KV.touch_mru cap h op k hcap ht

example : KvLru.touchedBy (KvLru.after 2 kvDemo) (.find [1, 7]) = some 1 ∧
    (KvLru.after 2 (.find [1, 7] :: kvDemo)).order = [0, 1] := by decide

/-- **`Find ks` answers the least recently touched present member of `ks`**, and misses exactly
when no member of `ks` is present. -/
theorem kv_find_least_recent (cap : Nat) (h : List (KvLru.Op K V)) (ks : List K) :
    (∀ k, (KvLru.find (KvLru.after cap h) ks).1 = some k →
        k ∈ ks ∧ k ∈ (KvLru.after cap h).cache.keys ∧
        ∀ k' ∈ ks, k' ∈ (KvLru.after cap h).cache.keys → KvLru.stamp cap k h ≤ KvLru.stamp cap k' h) ∧
    ((KvLru.find (KvLru.after cap h) ks).1 = none ↔ ∀ k ∈ ks, k ∉ (KvLru.after cap h).cache.keys) :=
  Proofs.KV.find_least_recent cap h ks

/-- Get answers the stored value and leaves the map alone -/
theorem kv_get_value (l : KvLru.Kv K V) (k : K) :
    (KvLru.get l k).1 = l.cache.find? k ∧ (KvLru.get l k).2.cache = l.cache :=
  Proofs.KV.get_value l k

end Kv

end Props.C13

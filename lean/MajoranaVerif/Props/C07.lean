/-
  Props/C07.lean — C07 (the part that is proved): on the unpipelined machines every
  run of a program that is well-formed along its sequential run returns — with an
  error value exactly for the defined errors, never with a Go panic — after exactly
  the number of instructions the specification executes, and within a cycle count
  bounded by a fixed multiple of that number times the slowest memory latency.

  Corollaries of Props/C01 (`seq_refines_spec`) and of the cost structure of
  `Model.Seq`; MVP-3 … MVP-8 are covered by the differential check with the tick
  budget only (DESIGN §4 C07).
-/
import MajoranaVerif.Props.C01
import MajoranaVerif.Props.C12
import MajoranaVerif.Proofs.Mvp5Cycles
import MajoranaVerif.Proofs.Mvp60Witness2
import MajoranaVerif.Proofs.Mvp60SlNoPanic
import MajoranaVerif.Proofs.Mvp60SlSpec
import MajoranaVerif.Proofs.Mvp60LdOk
import MajoranaVerif.Proofs.Mvp60LdWitness
open GoInt Model Model.Seq Proofs.Seq Proofs.Refine

namespace Props.C07

/-- the largest execute latency of the table -/
theorem cycles_le (t : Gen.InstructionType) (c : Int) (h : Gen.InstructionType.Cycles t = .ok c) : c ≤ 50 := by
  cases t <;> simp [Gen.InstructionType.Cycles, pure, Except.pure] at h <;> omega

/-- one iteration costs at most decode + 2·MemoryAccess + 50 (fetch excluded) -/
theorem step_cost_le (dc : Int) (hdc : 0 ≤ dc) (app : App) (a : Arch) :
    (∀ a' c, stepArch dc app a = .next a' c → c.total ≤ dc + 2 * Gen.Latency.MemoryAccess + 50) ∧
    (∀ h c, stepArch dc app a = .halt h c → c.total ≤ dc + 2 * Gen.Latency.MemoryAccess + 50) := by
  have hma := memAccess_pos
  have hra : Gen.Latency.RegisterAccess ≤ Gen.Latency.MemoryAccess := by decide
  constructor
  · intro a' c h
    obtain ⟨i, bytes, e, ex, _, _, _, _, _, h6, _, _, hd, he, hm, hw⟩ := stepArch_next_inv dc app a a' c h
    have hex := cycles_le _ _ h6
    have hmr : c.memRead ≤ Gen.Latency.MemoryAccess := by rw [hm]; split <;> omega
    have hwb : c.writeBack ≤ Gen.Latency.MemoryAccess := by
      rcases hw with ⟨_, _, hw⟩ | ⟨_, _, _, hw⟩ | ⟨_, _, _, hw⟩ <;> rw [hw] <;> omega
    unfold StepCost.total; omega
  · intro hh c h
    unfold stepArch at h
    simp only at h
    repeat' split at h
    all_goals (simp only [StepResult.halt.injEq, reduceCtorEq] at h)
    all_goals (obtain ⟨_, rfl⟩ := h)
    all_goals (simp only [StepCost.total])
    all_goals (first
      | omega
      | (have := cycles_le _ _ (by assumption); omega)
      | (have := cycles_le _ _ (by assumption); split <;> omega)
      | (split <;> omega))

/-- cycle upper bound of a run: `cycles ≤ cyc₀ + (F + B) · (instructions started)` -/
theorem go_upper_bound {σ} (fp : FetchPolicy σ) (dc : Int) (hdc : 0 ≤ dc) (app : App) (F : Int)
    (hF : ∀ s pc, (fp.cost s pc).2 ≤ F) (hF0 : 0 ≤ F) :
    ∀ (fuel : Nat) (a : Arch) (fs : σ) (cyc : Int) (n : Nat),
      (run.go fp dc app fuel a fs cyc n).cycles ≤
        cyc + (F + dc + 2 * Gen.Latency.MemoryAccess + 50) * (((run.go fp dc app fuel a fs cyc n).steps : Int) - n) := by
  intro fuel
  induction fuel with
  | zero => intro a fs cyc n; simp [run.go]
  | succ k ih =>
    intro a fs cyc n
    have hma := memAccess_pos
    unfold run.go
    have hf := hF fs a.pc
    cases h1 : fp.cost fs a.pc with
    | mk t f =>
    rw [h1] at hf
    simp only at hf
    obtain ⟨hn, hh⟩ := step_cost_le dc hdc app a
    cases hs : stepArch dc app a with
    | next a' c =>
      simp only [h1]
      have hc := hn a' c hs
      have hih := ih a' t (cyc + f + c.total) (n + 1)
      generalize (run.go fp dc app k a' t (cyc + f + c.total) (n + 1)).cycles = C at hih ⊢
      generalize ((run.go fp dc app k a' t (cyc + f + c.total) (n + 1)).steps : Int) = S at hih ⊢
      generalize hA : F + dc + 2 * Gen.Latency.MemoryAccess + 50 = A at hih ⊢
      have e : A * (S - (n : Int)) = A * (S - ((n + 1 : Nat) : Int)) + A := by
        have : S - (n : Int) = (S - ((n + 1 : Nat) : Int)) + 1 := by omega
        rw [this, Int.mul_add, Int.mul_one]
      rw [e]
      omega
    | halt hx c =>
      have hc := hh hx c hs
      cases hx with
      | offEnd => simp
      | ret => simp only [h1]; simp; omega
      | err => simp only [h1]; simp; omega
      | panic w => simp only [h1]; simp; omega

/-- **C07 for MVP-1**: if the sequential run of a parsed program ends (by `ret`, by running past the
end, or with a defined error) after `steps` instructions, MVP-1's run returns the same way — an error
value for a defined error, never a Go panic, never fuel exhaustion — after the same number of
instructions, within `(2·MemoryAccess + MemoryAccess + decode + 50) · steps` cycles. -/
theorem mvp1_terminates_bounded (app : App) (hw : WfApp app) (ctx : Model.Context) (m : Spec.Machine)
    (hR : Rel ctx m) (fuel : Nat) :
    Props.C01.Agree (Spec.run (specProg app) m fuel) (runMvp1 app ⟨ctx, 0#32⟩ fuel) ∧
    (runMvp1 app ⟨ctx, 0#32⟩ fuel).cycles ≤
      (Gen.Latency.MemoryAccess + Gen.Consts.mvp1.cyclesDecode + 2 * Gen.Latency.MemoryAccess + 50) *
        (runMvp1 app ⟨ctx, 0#32⟩ fuel).steps := by
  refine ⟨Props.C01.mvp1_correct app hw ctx m hR fuel, ?_⟩
  have := go_upper_bound mvp1Fetch _ (Int.le_of_lt decode1_pos) app Gen.Latency.MemoryAccess
    (fun _ _ => Int.le_refl _) (Int.le_of_lt memAccess_pos) fuel ⟨ctx, 0#32⟩ mvp1Fetch.init 0 0
  unfold runMvp1 run
  simpa using this

theorem mvp2_terminates_bounded (app : App) (hw : WfApp app) (ctx : Model.Context) (m : Spec.Machine)
    (hR : Rel ctx m) (fuel : Nat) :
    Props.C01.Agree (Spec.run (specProg app) m fuel) (runMvp2 app ⟨ctx, 0#32⟩ fuel) ∧
    (runMvp2 app ⟨ctx, 0#32⟩ fuel).cycles ≤
      (Gen.Latency.MemoryAccess + Gen.Consts.mvp1.cyclesDecode + 2 * Gen.Latency.MemoryAccess + 50) *
        (runMvp2 app ⟨ctx, 0#32⟩ fuel).steps := by
  refine ⟨Props.C01.mvp2_correct app hw ctx m hR fuel, ?_⟩
  have h21 := Props.C12.mvp2_le_mvp1 app ⟨ctx, 0#32⟩ fuel
  have h1 := (mvp1_terminates_bounded app hw ctx m hR fuel).2
  rw [h21.2.2.1]
  exact Int.le_trans h21.2.2.2 h1

/-! ### MVP-3 (work package MVP3) -/

/-- **C07 for MVP-3**: if the sequential run of a parsed program ends (by `ret`, by running past the end, or with a
defined error) after `steps` instructions, the run of MVP-3 returns the same way — an error value for a defined
error, never a Go panic (in particular never `panic("cache line doesn't exist")`), never fuel exhaustion — after the
same number of instructions; and for EVERY run the cycle count is bounded by a fixed multiple of the number of
executed instructions times the slowest memory latency, plus the final flush of at most 16 lines. -/
theorem mvp3_terminates_bounded (app : App) (hw : WfApp app) (ctx : Model.Context) (m : Spec.Machine)
    (hR : Rel ctx m) (hsz : m.mem.size + 64 ≤ 2 ^ 31) (fuel : Nat) :
    Props.C01.AgreeCached (Spec.run (specProg app) m fuel) (Model.Mvp3.runMvp3 app ⟨ctx, 0#32⟩ fuel).toSeq ∧
    (Model.Mvp3.runMvp3 app ⟨ctx, 0#32⟩ fuel).cycles ≤
      (Gen.Latency.MemoryAccess + Gen.Consts.mvp3.cyclesDecode + (Gen.Latency.L1Access + Gen.Latency.MemoryAccess) + 50 +
        Gen.Latency.MemoryAccess) * (Model.Mvp3.runMvp3 app ⟨ctx, 0#32⟩ fuel).steps + 16 * Gen.Latency.MemoryAccess :=
  ⟨Props.C01.mvp3_correct app hw ctx m hR hsz fuel, Props.C12.mvp3_upper_bound app ⟨ctx, 0#32⟩ fuel⟩

/-- a load from a cold cache, then a division by zero -/
def exErrApp : App :=
  { instrs := [.lb_ { rd := 6, offset := 3#32, rs := 0 }, .div_ { rd := 5, rs1 := 6, rs2 := 0 }, .ret_ {}], labels := {} }

/-- Non-vacuity: the model of MVP-3 reports the error value. -/
example : (Model.Mvp3.runMvp3 exErrApp ⟨{ Memory := List.replicate 8 0#8 }, 0#32⟩ 10).halt = some .err := by
  decide +kernel

end Props.C07

/-! ### MVP-4 and MVP-5 (work package CYC45): termination within an explicit bound

On the cycle-accurate models `Model.Mvp4` / `Model.Mvp5` (tied to the Go machines cycle-exactly).  The progress measure of
the totality proofs (`Proofs.Mvp4.phi`, `Proofs.Mvp5.phi5`: every tick that executes no instruction decreases it) is at
most `Proofs.Mvp4.phiBound = 4·MemoryAccess + 2003` in every state right after an executed instruction
(`phi_fresh_le`: a store in progress in the write unit and two more on the write bus — 3·MemoryAccess + 3 —, the drain
before a flush or an empty front end — the constants 2000 / 500 of the measure —, a line fetch of the instruction
cache — MemoryAccess + 8).  Hence at most `tickFactor = 4·MemoryAccess + 2004` ticks per executed instruction
(`≤ 11 · MemoryAccess`: `tickFactor_le`); the returned cycle count is at most the number of ticks (the drain loop
after `ret` counts none) plus the final `mmu.flush()` of at most 16 lines. -/

namespace Props.C07

/-- ticks per executed instruction: `4 · MemoryAccess + 2004` -/
def tickFactor : Nat := 4 * Gen.Latency.MemoryAccess.toNat + 2004

theorem tickFactor_eq : tickFactor = Proofs.Mvp4.phiBound + 1 := rfl

/-- the factor is a fixed multiple of the slowest memory latency -/
theorem tickFactor_le : tickFactor ≤ 11 * Gen.Latency.MemoryAccess.toNat := by decide

/-- **C07 for MVP-4, quantitative**: if the specification run of a parsed program is well-formed and ends after `n`
executed instructions, then with EVERY tick budget of at least `tickFactor · (n + 1)` the MVP-4 run ends — the way the
specification run ends, with an error value for a defined error, never with a Go panic, with the specification's final
registers and memory — after at most `tickFactor · (n + 1)` ticks, and the returned cycle count lies between `n` and
`tickFactor · (n + 1) + 16 · MemoryAccess`. -/
theorem mvp4_terminates_bounded (app : App) (hw : WfApp app) (ctx : Model.Context) (m : Spec.Machine)
    (hR : Rel ctx m) (hsz : m.mem.size + 64 ≤ 2 ^ 31) (hpw : ∀ r, GoMap.get1 ctx.PendingWriteRegisters r = 0)
    (fuel : Nat) (hwf : ∀ why, (Spec.run (specProg app) m fuel).stop ≠ .notWf why) (ticks : Nat)
    (hT : tickFactor * ((Spec.run (specProg app) m fuel).steps + 1) ≤ ticks) :
    ∃ hk, (Model.Mvp4.run app ctx ticks).halt = some hk ∧ (∀ w, hk ≠ .panic w) ∧
      Props.C01.Agree4 (Spec.run (specProg app) m fuel) hk (Model.Mvp4.run app ctx ticks).final.ctx ∧
      (Model.Mvp4.run app ctx ticks).ticks ≤ tickFactor * ((Spec.run (specProg app) m fuel).steps + 1) ∧
      (Model.Mvp4.run app ctx ticks).final.cycles ≤
        (tickFactor * ((Spec.run (specProg app) m fuel).steps + 1) : Nat) + 16 * Gen.Latency.MemoryAccess ∧
      ((Spec.run (specProg app) m fuel).steps : Int) ≤ (Model.Mvp4.run app ctx ticks).final.cycles := by
  rw [tickFactor_eq] at hT ⊢
  obtain ⟨hk, h1, h2, h3, h4, h5⟩ := Proofs.Mvp4.mvp4_terminates_in app hw ctx m hR hsz hpw fuel hwf ticks hT
  exact ⟨hk, h1, h2, Props.C01.mvp4_correct app hw ctx m hR hsz hpw fuel ticks hk h1 h2, h3, h4, h5⟩

/-- **C07 for MVP-5, quantitative** (same statement, same constants) -/
theorem mvp5_terminates_bounded (app : App) (hw : WfApp app) (ctx : Model.Context) (m : Spec.Machine)
    (hR : Rel ctx m) (hsz : m.mem.size + 64 ≤ 2 ^ 31) (hpw : ∀ r, GoMap.get1 ctx.PendingWriteRegisters r = 0)
    (fuel : Nat) (hwf : ∀ why, (Spec.run (specProg app) m fuel).stop ≠ .notWf why) (ticks : Nat)
    (hT : tickFactor * ((Spec.run (specProg app) m fuel).steps + 1) ≤ ticks) :
    ∃ hk, (Model.Mvp5.run app ctx ticks).halt = some hk ∧ (∀ w, hk ≠ .panic w) ∧
      Props.C01.Agree4 (Spec.run (specProg app) m fuel) hk (Model.Mvp5.run app ctx ticks).final.base.ctx ∧
      (Model.Mvp5.run app ctx ticks).ticks ≤ tickFactor * ((Spec.run (specProg app) m fuel).steps + 1) ∧
      (Model.Mvp5.run app ctx ticks).final.base.cycles ≤
        (tickFactor * ((Spec.run (specProg app) m fuel).steps + 1) : Nat) + 16 * Gen.Latency.MemoryAccess ∧
      ((Spec.run (specProg app) m fuel).steps : Int) ≤ (Model.Mvp5.run app ctx ticks).final.base.cycles := by
  rw [tickFactor_eq] at hT ⊢
  obtain ⟨hk, h1, h2, h3, h4, h5⟩ := Proofs.Mvp5.mvp5_terminates_in app hw ctx m hR hsz hpw fuel hwf ticks hT
  exact ⟨hk, h1, h2, Props.C01.mvp5_correct app hw ctx m hR hsz hpw fuel ticks hk h1 h2, h3, h4, h5⟩

/-- the tick budget the differential driver gives the models (`Driver/Run.lean`: `32 · MemoryAccess · (steps + 64)`) is
always sufficient: the `m4=` / `m5=` fields can never read `fuel` on a well-formed case -/
theorem driver_budget_suffices (n : Nat) :
    tickFactor * (n + 1) ≤ 32 * Gen.Latency.MemoryAccess.toNat * (n + 64) := by
  have h : tickFactor = 3240 := by decide
  have h2 : Gen.Latency.MemoryAccess.toNat = 309 := by decide
  rw [h, h2]; omega

/-- the bounds for EVERY run that ends, whatever the tick budget: cycle count between `n` and
`tickFactor · (n + 1) + 16 · MemoryAccess`, at most `tickFactor · (n + 1)` ticks -/
theorem mvp4_cycles_bounded (app : App) (hw : WfApp app) (ctx : Model.Context) (m : Spec.Machine)
    (hR : Rel ctx m) (hsz : m.mem.size + 64 ≤ 2 ^ 31) (hpw : ∀ r, GoMap.get1 ctx.PendingWriteRegisters r = 0)
    (fuel : Nat) (hwf : ∀ why, (Spec.run (specProg app) m fuel).stop ≠ .notWf why) (ticks : Nat) (hk : Halt)
    (hh : (Model.Mvp4.run app ctx ticks).halt = some hk) :
    ((Spec.run (specProg app) m fuel).steps : Int) ≤ (Model.Mvp4.run app ctx ticks).final.cycles ∧
    (Model.Mvp4.run app ctx ticks).final.cycles ≤
      (tickFactor * ((Spec.run (specProg app) m fuel).steps + 1) : Nat) + 16 * Gen.Latency.MemoryAccess ∧
    (Model.Mvp4.run app ctx ticks).ticks ≤ tickFactor * ((Spec.run (specProg app) m fuel).steps + 1) := by
  rw [tickFactor_eq]
  exact Proofs.Mvp4.mvp4_cycles_of_halt app hw ctx m hR hsz hpw fuel hwf ticks hk hh

theorem mvp5_cycles_bounded (app : App) (hw : WfApp app) (ctx : Model.Context) (m : Spec.Machine)
    (hR : Rel ctx m) (hsz : m.mem.size + 64 ≤ 2 ^ 31) (hpw : ∀ r, GoMap.get1 ctx.PendingWriteRegisters r = 0)
    (fuel : Nat) (hwf : ∀ why, (Spec.run (specProg app) m fuel).stop ≠ .notWf why) (ticks : Nat) (hk : Halt)
    (hh : (Model.Mvp5.run app ctx ticks).halt = some hk) :
    ((Spec.run (specProg app) m fuel).steps : Int) ≤ (Model.Mvp5.run app ctx ticks).final.base.cycles ∧
    (Model.Mvp5.run app ctx ticks).final.base.cycles ≤
      (tickFactor * ((Spec.run (specProg app) m fuel).steps + 1) : Nat) + 16 * Gen.Latency.MemoryAccess ∧
    (Model.Mvp5.run app ctx ticks).ticks ≤ tickFactor * ((Spec.run (specProg app) m fuel).steps + 1) := by
  rw [tickFactor_eq]
  exact Proofs.Mvp5.mvp5_cycles_of_halt app hw ctx m hR hsz hpw fuel hwf ticks hk hh

/-- Non-vacuity of `mvp5_terminates_bounded` (and of `driver_budget_suffices`): all hypotheses hold together for the
program `Props.C01.exApp5` (a jump executed twice, a call and a return), a 64-byte zero memory, the all-zero specification
machine and the driver's budget; the specification run executes 12 instructions. -/
example : ∃ hk,
    (Model.Mvp5.run Props.C01.exApp5 { Memory := List.replicate 64 0#8 } (32 * Gen.Latency.MemoryAccess.toNat * (12 + 64))).halt = some hk ∧
    (∀ w, hk ≠ .panic w) ∧
    (Model.Mvp5.run Props.C01.exApp5 { Memory := List.replicate 64 0#8 } (32 * Gen.Latency.MemoryAccess.toNat * (12 + 64))).ticks ≤
      tickFactor * (12 + 1) := by
  have hs : (Spec.run (specProg Props.C01.exApp5) { regs := Array.replicate 32 0#32, mem := Array.replicate 64 0#8 } 30).steps = 12 ∧
      (Spec.run (specProg Props.C01.exApp5) { regs := Array.replicate 32 0#32, mem := Array.replicate 64 0#8 } 30).stop = .ret := by
    decide +kernel
  obtain ⟨hk, h1, h2, _, h4, _⟩ := mvp5_terminates_bounded Props.C01.exApp5
    { small := by decide, regs := by decide, nofwd := by decide } { Memory := List.replicate 64 0#8 }
    { regs := Array.replicate 32 0#32, mem := Array.replicate 64 0#8 }
    { rat := rfl, tx := rfl,
      regs := by
        intro r
        simp only [GoMap.get1, GoMap.get, GoMap.find?, Spec.Machine.rf, List.lookup, Array.getD_eq_getD_getElem?]
        by_cases h : r < 32 <;> simp [h] <;> rfl,
      size := by simp, zero := by simp [Spec.Machine.rf], mem := by simp, memSmall := by simp }
    (by decide) (fun r => by simp [GoMap.get1, GoMap.get, GoMap.find?]) 30
    (by intro why hc; rw [hs.2] at hc; cases hc)
    (32 * Gen.Latency.MemoryAccess.toNat * (12 + 64))
    (by rw [hs.1]; exact driver_budget_suffices 12)
  rw [hs.1] at h4
  exact ⟨hk, h1, h2, h4⟩

end Props.C07

/-! ## MVP-6.0 (package M60): runs of the first superscalar variant that do not end as they should

Proved counterexamples on `Model.Mvp60` (tied to the Go machine on every generated case). -/
namespace Props.C07

/-- **dead-lock after a cancelled load (MVP-6.0 with two or more execute units; found with the model).**
`lb a1, 0(zero); bnez s0, l3; addi a3, zero, 5; l3: lb a2, 1(zero)` with `s0 = 1` ends on the one-unit machine
(`a2 = 0x11`); on the two-unit machine the first load is cancelled by the flush of the branch (`Props.C01.mvp60_flush_drops_older_load`)
but its line `[0, 64)` stays in `memoryManagementUnit.pendings`, and the second load polls it for ever: after 700 ticks the
machine has not halted, unit 0 sits in `coPrepareRun`, nothing else is in flight, no counter is running.  (The Go machine runs
into the harness's tick budget: status `hang`.) -/
theorem mvp60_deadlock_after_cancelled_load :
    (Model.Mvp60.run Proofs.Mvp60Witness.deadApp (Proofs.Mvp60Witness.ctxS0 64) 1 1 1000).halt = some .offEnd ∧
    (Model.Mvp60.run Proofs.Mvp60Witness.deadApp (Proofs.Mvp60Witness.ctxS0 64) 1 1 1000).final.ctx.Registers.get1 12 = 0x11#32 ∧
    Proofs.Mvp60Witness.deadObs 700 = (none, [(0, 64)], [.prepare, .none], [.none, .none], .done, 1) := by
  obtain ⟨a, _, _, _, b, _⟩ := Proofs.Mvp60Witness.obs_eq Proofs.Mvp60Witness.dead_p1
  exact ⟨a, b, Proofs.Mvp60Witness.dead_p2⟩

/-- … and it never will: the two-unit machine does not halt within ANY number of ticks (after 700 ticks it is idle with no
counter running, and such a state only repeats itself: `Proofs.Mvp60Fast.deadlock_forever`) -/
theorem mvp60_deadlock_is_forever (f : Nat) :
    (Model.Mvp60.run Proofs.Mvp60Witness.deadApp (Proofs.Mvp60Witness.ctxS0 64) 2 2 (700 + f)).halt = none :=
  Proofs.Mvp60Witness.dead_forever f

/-- **KF-ooo-spec-error on the model.**  `li a7, 0; beq a7, zero, l1; div t2, a7, zero; l1:` runs off the end on the
unpipelined and the one-unit machine; the two-unit machine executes the division on the wrong path of the taken branch and
returns its division-by-zero error. -/
theorem mvp60_wrong_path_error :
    (Model.Seq.runMvp1 Proofs.Mvp60Witness.errApp ⟨Proofs.Mvp60Witness.ctx0 64, 0⟩ 10).halt = some .offEnd ∧
    (Model.Mvp60.run Proofs.Mvp60Witness.errApp (Proofs.Mvp60Witness.ctx0 64) 1 1 1000).halt = some .offEnd ∧
    (Model.Mvp60.run Proofs.Mvp60Witness.errApp (Proofs.Mvp60Witness.ctx0 64) 2 2 1000).halt = some .err := by
  obtain ⟨a, _⟩ := Proofs.Mvp60Witness.obsSeq_eq Proofs.Mvp60Witness.err_seq
  obtain ⟨b, _⟩ := Proofs.Mvp60Witness.obs_eq Proofs.Mvp60Witness.err_p1
  obtain ⟨c, _⟩ := Proofs.Mvp60Witness.obs_eq Proofs.Mvp60Witness.err_p2
  exact ⟨a, b, c⟩

end Props.C07

/-! ## MVP-6.0 (package R60c): no Go panic on register-only programs with branches, jumps, calls and `ret`

The "not with a Go panic" half of totality for the class `Model.Mvp60.RegOnlyWf`, every number of execute and write units:
every tick from a state of the refinement relation returns normally (`Proofs.Mvp60Sl.cycleM_ok`) — the instruction cache
lines stay well-formed (`Proofs.Mvp3.IWf`), the decode unit only sees pcs of the program, an execute unit only runs
instructions of the class (which cannot panic: `Proofs.Mvp60Sl.g_run_nopanic`), no store ever reaches a write unit.
That the run ENDS within some tick budget (no deadlock, no livelock) is not proved. -/
namespace Props.C07

/-- **MVP-6.0 never panics on the class `RegOnlyWf`** whenever the specification run is well-formed (needed for the targets
of `jalr`), for every number `K` of units and every tick budget: the run is still going, or it has ended with `ret`, past
the end, or with the defined error. -/
theorem mvp60_regonly_never_panics (app : App) (hw : WfApp app) (hc : Model.Mvp60.RegOnlyWf app = true)
    (ctx : Model.Context) (m : Spec.Machine) (hR : Rel ctx m) (hpw : ∀ r, GoMap.get1 ctx.PendingWriteRegisters r = 0)
    (hseq : ctx.sequenceID = 0) (K fuel ticks : Nat)
    (hwf : ∀ why, (Spec.run (specProg app) m fuel).stop ≠ .notWf why) (w : String) :
    (Model.Mvp60.run app ctx K K ticks).halt ≠ some (.panic w) := by
  have hj := Proofs.Mvp60Sl.jclass_of_regOnlyWf app hc
  exact Proofs.Mvp60Sl.mvp60_j_never_panics app ⟨hw.small, hw.nofwd, hj⟩ ctx ⟨hR.rat, hR.tx, hpw⟩ K ticks (Or.inl hseq)
    (Proofs.Mvp60Sl.tgtOk_of_spec app hw (Proofs.Mvp60Sl.jclass_all hj) ctx m hR fuel hwf) w

/-- Non-vacuity: the hypotheses hold for `Proofs.Mvp60JumpWitness.earlyApp` (well-formed, in the class, the specification run
returns) -/
example : WfApp Proofs.Mvp60JumpWitness.earlyApp ∧ Model.Mvp60.RegOnlyWf Proofs.Mvp60JumpWitness.earlyApp = true ∧
    (Spec.run (specProg Proofs.Mvp60JumpWitness.earlyApp) { regs := Array.replicate 32 0#32, mem := Array.replicate 64 0#8 } 200).stop = .ret :=
  ⟨Proofs.Mvp60JumpWitness.early_wf, Proofs.Mvp60JumpWitness.early_class.1, Proofs.Mvp60JumpWitness.early_spec⟩

end Props.C07

/-! ## MVP-6.0 (package R60d): no Go panic on straight-line programs with memory reads and `ret`

The "not with a Go panic" half of totality for the class `Model.Mvp60.StraightLineLdR` (`lb`/`lh`/`lw`, no store, no branch or
jump, no `div`/`rem`, `ret` anywhere), every number of execute and write units: every tick from a state of the out-of-order
refinement relation `Proofs.Mvp60Ld.RelO` returns normally (`Proofs.Mvp60Ld.cycleM_okO`) — an L3 lookup is defined (hit, line
pending, or miss: `l3_lookup`), at the end of a memory access the announced line can be fetched and pushed and the lookup then
hits (`l3_fill`: the Go code's `panic("cache line doesn't exist")` is unreachable), every instruction of the class returns on
the bytes it is handed, the instruction cache stays well-formed, no store reaches a write unit.  That the run ENDS within some
tick budget is not proved for this class. -/
namespace Props.C07

/-- **MVP-6.0 never panics on the class `StraightLineLdR`** whenever the specification run is well-formed (the loads it
executes are inside memory) and the memory is not larger than 2^31 − 64 bytes, from fresh scoreboards, for every number `K` of
units and every tick budget: the run is still going, or it has ended with `ret` or past the end. -/
theorem mvp60_readonly_never_panics (app : App) (hw : WfApp app) (hcls : Model.Mvp60.StraightLineLdR app = true)
    (ctx : Model.Context) (m : Spec.Machine) (hR : Rel ctx m) (hmsz : m.mem.size + 64 ≤ 2 ^ 31)
    (hpw : ∀ r, GoMap.get1 ctx.PendingWriteRegisters r = 0) (hpr : ∀ r, GoMap.get1 ctx.PendingReadRegisters r = 0)
    (K fuel ticks : Nat) (hwf : ∀ why, (Spec.run (specProg app) m fuel).stop ≠ .notWf why) (w : String) :
    (Model.Mvp60.run app ctx K K ticks).halt ≠ some (.panic w) :=
  Proofs.Mvp60Ld.mvp60_ld_never_panics app ctx (Proofs.Mvp60Ld.progLd_of_spec app hw hcls ctx m hR hmsz fuel hwf).1 K ticks hpw hpr w

/-- Non-vacuity: the hypotheses hold for `Proofs.Mvp60LdWitness.retApp` (well-formed, in the class, the specification run
returns) -/
example : WfApp Proofs.Mvp60LdWitness.retApp ∧ Model.Mvp60.StraightLineLdR Proofs.Mvp60LdWitness.retApp = true ∧
    (Spec.run (specProg Proofs.Mvp60LdWitness.retApp)
      { regs := Array.replicate 32 0#32, mem := ((List.range 256).map (fun i => BitVec.ofNat 8 (i + 1))).toArray } 50).stop = .ret :=
  ⟨Proofs.Mvp60LdWitness.ret_wf, Proofs.Mvp60LdWitness.ret_classR, Proofs.Mvp60LdWitness.ret_spec⟩

end Props.C07

/-
  Props/C14.lean — C14: pipeline buses deliver each item once, in order, a cycle
  later, within capacity.

  Every theorem quantifies over ALL histories (`List Op`) and all capacities; the
  history semantics (`Model.BusHist.step/run`, `Model.SBusHist.step/run` in
  Model/Bus.lean) is what the C14 driver executes in lock-step against the real
  proc/comp/bus.go (tie T2a).  The item put in by the operation at position `i` of a
  history has the unique id `i`; "add order" is therefore the order of ids
  (`added_in_id_order`).  The ledger fields: `added`, `reverted` (what went in),
  `returned` (handed out by Get/Pick, in order), `got` (the part handed out by Get),
  `removed` (discarded by Clean/DeleteLast), `bus.inside` (still held).

  `Revert` and `DeleteLast` are not called by any processor variant of /repo
  (`grep -rn '\.Revert(\|\.DeleteLast(' /repo` finds only their definitions), neither
  is `Broadcast`; the `revert_next` clause is FALSE of the code (D27): `Revert` puts
  the item at the front of the *buffer*, behind whatever the queue already shows.
  It is kept as `Full_C14_revert_next`, refuted by `not_Full_C14_revert_next`, and
  proved under `queue = []` (`revert_next_partial`, `revert_next_delivered`).
-/
import MajoranaVerif.Model.Bus
import MajoranaVerif.Proofs.Bus
open Model

namespace Props.C14

section Buffered
open Model.BufferedBus Model.BusHist Proofs.Bus

/-! ## BufferedBus -/

/-- **conservation.** What went in (by `Add` or `Revert`) is, as a multiset, exactly what
came out plus what is still inside plus what `Clean`/`DeleteLast` discarded. -/
theorem conservation (ql bl : Int) (h : List Op) :
    ((run ql bl h).led.added ++ (run ql bl h).led.reverted).Perm
      ((run ql bl h).led.returned ++ (run ql bl h).bus.inside ++ (run ql bl h).led.removed) := by
  have hc : Conserved (run ql bl h) :=
    runFrom_inv Conserved h (fun s op _ => conserved_step s op) _ (conserved_init ql bl)
  rw [List.perm_iff_count]
  intro x
  have := hc x
  simp only [List.count_append]
  omega

example : (run 2 2 [.add 0, .add 0, .connect 1, .get, .add 1, .deleteLast]).led.added = [0, 1, 4] ∧
    (run 2 2 [.add 0, .add 0, .connect 1, .get, .add 1, .deleteLast]).led.returned = [0] ∧
    (run 2 2 [.add 0, .add 0, .connect 1, .get, .add 1, .deleteLast]).bus.inside = [1] ∧
    (run 2 2 [.add 0, .add 0, .connect 1, .get, .add 1, .deleteLast]).led.removed = [4] := by decide

/-- ids are assigned in add order: `added` is strictly increasing (so ids are unique and
"in add order" means "in increasing id order"). -/
theorem added_in_id_order (ql bl : Int) (h : List Op) :
    (run ql bl h).led.added.Pairwise (· < ·) :=
  (runFrom_inv (fun s => s.led.added.Pairwise (· < ·) ∧ ∀ a ∈ s.led.added, a < s.n) h
    (fun s op _ => added_sorted_step s op) _ ⟨List.Pairwise.nil, fun a ha => by cases ha⟩).1

/-- **exactly one consumer.** No id is handed out more often than it was put in: at most
once, plus once per `Revert` of that id. -/
theorem delivered_at_most_once (ql bl : Int) (h : List Op) (x : Nat) :
    (run ql bl h).led.returned.count x ≤ 1 + (run ql bl h).led.reverted.count x := by
  have hc : Conserved (run ql bl h) :=
    runFrom_inv Conserved h (fun s op _ => conserved_step s op) _ (conserved_init ql bl)
  have h1 : (run ql bl h).led.added.count x ≤ 1 :=
    List.nodup_iff_count.mp ((added_in_id_order ql bl h).imp (fun hab => Nat.ne_of_lt hab)) x
  have := hc x
  omega

-- the bound is attained: id 0 is delivered, reverted, and delivered again
example : (run 1 1 [.add 0, .connect 1, .get, .revert 0 1, .connect 1, .get]).led.returned.count 0 = 2 ∧
    (run 1 1 [.add 0, .connect 1, .get, .revert 0 1, .connect 1, .get]).led.reverted.count 0 = 1 := by decide

/-- … hence, without `Revert`, the delivered ids are pairwise distinct. -/
theorem delivered_nodup (ql bl : Int) (h : List Op) (hnr : NoRevert h) :
    (run ql bl h).led.returned.Nodup := by
  have hr : (run ql bl h).led.reverted = [] :=
    runFrom_inv (fun s => s.led.reverted = []) h (fun s op hop => reverted_nil_step s op (hnr op hop)) _ rfl
  rw [List.nodup_iff_count]
  intro x
  have := delivered_at_most_once ql bl h x
  rw [hr] at this
  simpa using this

example : NoRevert [.add 0, .tryAdd 0, .connect 1, .pick (fun x => x % 2 == 1), .get] ∧
    (run 2 2 [.add 0, .tryAdd 0, .connect 1, .pick (fun x => x % 2 == 1), .get]).led.returned = [1, 0] := by
  decide

/-- **fifo (Get).** Whatever `Pick`s happen in between, the ids handed out by `Get`
are in add order. -/
theorem fifo_get (ql bl : Int) (h : List Op) (hnr : NoRevert h) :
    (run ql bl h).led.got.Pairwise (· < ·) :=
  (runFrom_inv (fun s => Ord (fun _ => true) s.led.got s.bus.inside s.n) h
    (fun s op hop => got_step s op (hnr op hop)) _ (ord_init _ ql bl)).t_inc

/-- **fifo (Pick).** For any set `sel` of ids that every `Pick` predicate of the history
accepts (in particular `sel = p` when all `Pick`s use the same `p`, and any `sel` when
there is no `Pick`): the delivered ids in `sel` keep their add order. -/
theorem fifo_pick (ql bl : Int) (h : List Op) (hnr : NoRevert h) (sel : Nat → Bool)
    (hsel : ∀ p ∈ picksOf h, ∀ y, sel y = true → p y = true) :
    ((run ql bl h).led.returned.filter sel).Pairwise (· < ·) :=
  (runFrom_inv (fun s => Ord sel (s.led.returned.filter sel) s.bus.inside s.n) h
    (fun s op hop => fifo_step sel s op (hnr op hop)
      (fun p hp y hy => hsel p (mem_picksOf (hp ▸ hop)) y hy)) _ (ord_init _ ql bl)).t_inc

/-- without `Pick` (and `Revert`) everything comes out in add order -/
theorem fifo (ql bl : Int) (h : List Op) (hnr : NoRevert h) (hnp : picksOf h = []) :
    (run ql bl h).led.returned.Pairwise (· < ·) := by
  have := fifo_pick ql bl h hnr (fun _ => true) (by rw [hnp]; intro p hp; cases hp)
  rw [List.filter_eq_self.mpr (fun _ _ => rfl)] at this
  exact this

-- the hypotheses are satisfiable by a history that reorders: Pick(odd) overtakes id 0,
-- yet the odd ids 1, 3 stay in order and so do the Get-ids 0, 2
example : ∃ h : List Op,
    NoRevert h ∧ (run 4 4 h).led.returned = [1, 0, 3, 2] ∧ (run 4 4 h).led.got = [0, 2] ∧
      (run 4 4 h).led.returned.filter (fun x => x % 2 == 1) = [1, 3] :=
  ⟨[.add 0, .add 0, .add 0, .add 0, .connect 1, .pick (fun x => x % 2 == 1), .get,
    .pick (fun x => x % 2 == 1), .get], by decide⟩

/-- **latency.** The id put in by `Add(_, c)` (position `h1.length`) is not handed out
unless a later `Connect(c')` with `c' ≥ c + 1` happened first.  No monotonicity of cycles
is needed. -/
theorem latency (ql bl : Int) (h1 h2 : List Op) (c : Int)
    (hrev : ∀ c', Op.revert h1.length c' ∉ h1 ++ h2)
    (hconn : ∀ c', Op.connect c' ∈ h2 → c' < c + 1) :
    h1.length ∉ (run ql bl (h1 ++ Op.add c :: h2)).led.returned := by
  -- phase 1: the id does not exist before its Add
  have hn : ∀ (h : List Op) (s : St), (runFrom s h).n = s.n + h.length := by
    intro h
    induction h with
    | nil => intro s; rfl
    | cons op h ih => intro s; rw [runFrom_cons, ih, step_n, List.length_cons]; omega
  have h0 := not_inserted h1.length h1 (init ql bl) (by simp [init, BufferedBus.new, inside])
    (Or.inr (by simp [init])) (fun c' hc => hrev c' (List.mem_append_left _ hc))
  have hn1 : (runFrom (init ql bl) h1).n = h1.length := by rw [hn]; simp [init]
  have hret : h1.length ∉ (runFrom (init ql bl) h1).led.returned := by
    have := h0.2
    simp only [init, List.count_nil] at this
    exact List.count_eq_zero.mp this
  -- phase 2: it waits in the buffer
  have hw : Waiting h1.length c (step (runFrom (init ql bl) h1) (.add c)) := by
    refine ⟨?_, hret, ?_, by rw [step_n, hn1]; omega⟩
    · intro hq; exact h0.1 (by simp only [inside, List.mem_append]; exact Or.inl hq)
    · intro e he hex
      simp only [step, BufferedBus.add, List.mem_append, List.mem_singleton] at he
      rcases he with he | he
      · exact absurd (by simp only [inside, List.mem_append, List.mem_map]; exact Or.inr ⟨e, he, hex⟩) h0.1
      · rw [he]; exact Int.le_refl _
  have := runFrom_inv (Waiting h1.length c) h2
    (fun s op hop w => waiting_step _ c s op
      (fun c' hc => hrev c' (List.mem_append_right _ (hc ▸ hop)))
      (fun c' hc => hconn c' (hc ▸ hop)) w) _ hw
  unfold run
  rw [runFrom_append, runFrom_cons]
  exact this.nr

-- not vacuous: with a Connect at cycle c+1 the id does come out, with one at cycle c it does not
example : 1 ∈ (run 2 2 ([.add 7] ++ .add 7 :: [.connect 8, .get, .get])).led.returned ∧
    1 ∉ (run 2 2 ([.add 7] ++ .add 7 :: [.connect 7, .get, .get])).led.returned := by decide

/-- **a cycle later (liveness of `Connect`).** `Connect(c)` stops only because the queue
is full, the buffer is empty, or the next buffered item is not yet due. -/
theorem connect_delivers_all_due (b : BufferedBus Nat) (c : Int) :
    ((b.connect c).queue.length : Int) = (b.connect c).queueLength ∨ (b.connect c).buffer = [] ∨
      ∃ e rest, (b.connect c).buffer = e :: rest ∧ e.1 > c := by
  unfold BufferedBus.connect
  split
  · rename_i h; left; simpa using h
  · exact connectLoop_maximal _ _ _ _

/-- **capacity (queue).** The visible queue never exceeds `queueLength`, in every history. -/
theorem capacity_queue (ql bl : Int) (hql : 0 ≤ ql) (h : List Op) :
    ((run ql bl h).bus.queue.length : Int) ≤ ql := by
  have hl : (run ql bl h).bus.queueLength = ql :=
    runFrom_inv (fun s => s.bus.queueLength = ql) h (fun s op _ hs => by rw [(step_lengths s op).1]; exact hs) _ rfl
  have := runFrom_inv (fun s => (s.bus.queue.length : Int) ≤ s.bus.queueLength) h
    (fun s op _ => queue_cap_step s op) (init ql bl) (by simpa [init, BufferedBus.new] using hql)
  exact Int.le_trans this (Int.le_of_eq hl)

/-- **capacity (buffer).** When every `Add` follows a `CanAdd() == true`, the buffer never
exceeds `bufferLength`. -/
theorem capacity_buffer (ql bl : Int) (hbl : 0 ≤ bl) (h : List Op) (hp : Polite h) :
    ((run ql bl h).bus.buffer.length : Int) ≤ bl := by
  have hl : (run ql bl h).bus.bufferLength = bl :=
    runFrom_inv (fun s => s.bus.bufferLength = bl) h (fun s op _ hs => by rw [(step_lengths s op).2]; exact hs) _ rfl
  have := runFrom_inv (fun s => (s.bus.buffer.length : Int) ≤ s.bus.bufferLength) h
    (fun s op hop => buffer_cap_step s op (hp op hop)) (init ql bl) (by simpa [init, BufferedBus.new] using hbl)
  exact Int.le_trans this (Int.le_of_eq hl)

/-- **capacity.** Both bounds, in every reachable state of a polite history. -/
theorem capacity (ql bl : Int) (hql : 0 ≤ ql) (hbl : 0 ≤ bl) (h : List Op) (hp : Polite h) :
    ((run ql bl h).bus.buffer.length : Int) ≤ bl ∧ ((run ql bl h).bus.queue.length : Int) ≤ ql :=
  ⟨capacity_buffer ql bl hbl h hp, capacity_queue ql bl hql h⟩

-- a polite history that fills both parts (and is refused twice); an impolite one overflows,
-- after which `CanAdd` (a `!=` test) says "room" forever
example : ∃ h : List Op, Polite h ∧ (run 1 2 h).bus.queue = [0] ∧ (run 1 2 h).bus.buffer.length = 2 :=
  ⟨[.tryAdd 0, .tryAdd 0, .connect 1, .tryAdd 1, .tryAdd 1, .tryAdd 1, .connect 2], by decide⟩
example : (run 1 1 [.add 0, .add 0]).bus.buffer.length = 2 ∧ (run 1 1 [.add 0, .add 0]).bus.canAdd = true := by
  decide

/-- **clean (1).** After `Clean` the bus is empty. -/
theorem clean_empties (ql bl : Int) (h : List Op) :
    (run ql bl (h ++ [.clean])).bus.inside = [] ∧ (run ql bl (h ++ [.clean])).bus.isEmpty = true := by
  unfold run
  rw [runFrom_append]
  exact ⟨rfl, rfl⟩

/-- **clean (2).** No id put in before a `Clean` is handed out after it (unless a later
`Revert` puts that very id back). -/
theorem clean_forgets (ql bl : Int) (h1 h2 : List Op) (x : Nat) (hx : x < h1.length)
    (hrev : ∀ c, Op.revert x c ∉ h2) :
    (run ql bl (h1 ++ Op.clean :: h2)).led.returned.count x = (run ql bl h1).led.returned.count x := by
  have hn : ∀ (h : List Op) (s : St), (runFrom s h).n = s.n + h.length := by
    intro h
    induction h with
    | nil => intro s; rfl
    | cons op h ih => intro s; rw [runFrom_cons, ih, step_n, List.length_cons]; omega
  unfold run
  rw [runFrom_append, runFrom_cons]
  have := not_inserted x h2 (step (runFrom (init ql bl) h1) .clean) (by simp [step, inside_clean])
    (Or.inl (by rw [step_n, hn]; simp only [init]; omega)) hrev
  rw [this.2]
  rfl

example : (run 2 2 ([.add 0, .add 0, .connect 1] ++ .clean :: [.add 1, .connect 2, .get, .get])).led.returned = [4] := by
  decide

/-! ### revert -/

/-- **revert_next, as the property states it**: after `Revert(x, c)` the next item
delivered (whatever `Connect`s come first) is `x`. -/
def Full_C14_revert_next : Prop :=
  ∀ (ql bl : Int) (h : List Op) (x : Nat) (c : Int) (cs : List Int),
    let before := (run ql bl h).led.returned
    let after := (run ql bl (h ++ Op.revert x c :: (cs.map Op.connect ++ [Op.get]))).led.returned
    after = before ∨ after = before ++ [x]

/-- FALSE of the code (D27): `add a; add b; connect; get ↦ a; revert a; get ↦ b`. -/
theorem not_Full_C14_revert_next : ¬ Full_C14_revert_next := by
  intro hf
  have := hf 2 2 [.add 0, .add 0, .connect 1, .get] 0 1 []
  revert this
  decide

/-- what the counter-example history returns: `a, b` instead of `a, a` -/
theorem revert_counterexample_returns :
    (run 2 2 [.add 0, .add 0, .connect 1, .get, .revert 0 1, .get]).led.returned = [0, 1] := by decide

/-- **revert_next, partial**: it holds whenever nothing is visible in the queue at the
time of the `Revert` (named hypothesis: `queue = []`, decidable). -/
theorem revert_next_partial (ql bl : Int) (h : List Op) (x : Nat) (c : Int) (cs : List Int)
    (hq : (run ql bl h).bus.queue = []) :
    let before := (run ql bl h).led.returned
    let after := (run ql bl (h ++ Op.revert x c :: (cs.map Op.connect ++ [Op.get]))).led.returned
    after = before ∨ after = before ++ [x] := by
  intro before after
  have hfront : RevertFront x ((run ql bl h).bus.revert x c) :=
    Or.inl ⟨hq, c, (run ql bl h).bus.buffer, rfl⟩
  have e : after = (runFrom (step (run ql bl h) (.revert x c)) (cs.map Op.connect ++ [Op.get])).led.returned := by
    show (run ql bl _).led.returned = _
    unfold run
    rw [runFrom_append, runFrom_cons]
  obtain ⟨hb, hl⟩ := runFrom_connects (step (run ql bl h) (.revert x c)) cs
  have hf := revertFront_connects x cs _ hfront
  have hg := revertFront_get x _ hf
  have hs : (runFrom (step (run ql bl h) (.revert x c)) (cs.map Op.connect ++ [Op.get])).led.returned =
      (runFrom (step (run ql bl h) (.revert x c)) (cs.map Op.connect)).led.returned ++
        (runFrom (step (run ql bl h) (.revert x c)) (cs.map Op.connect)).bus.get.1.toList := by
    rw [runFrom_append]; rfl
  rw [e, hs, hl, hb]
  have hbefore : (step (run ql bl h) (.revert x c)).led.returned = before := rfl
  rw [hbefore]
  rcases hg with hg | hg
  · left
    show _ ++ (List.foldl connect ((run ql bl h).bus.revert x c) cs).get.1.toList = _
    rw [hg]; simp
  · right
    show _ ++ (List.foldl connect ((run ql bl h).bus.revert x c) cs).get.1.toList = _
    rw [hg]; rfl

/-- … and it is actually delivered: with an empty queue of non-zero capacity, one
`Connect(c')` at or after the revert cycle makes `x` the next `Get`. -/
theorem revert_next_delivered (ql bl : Int) (h : List Op) (x : Nat) (c c' : Int)
    (hq : (run ql bl h).bus.queue = []) (hql : ql ≠ 0) (hc : c ≤ c') :
    (run ql bl (h ++ [.revert x c, .connect c', .get])).led.returned = (run ql bl h).led.returned ++ [x] := by
  have hl : (run ql bl h).bus.queueLength = ql :=
    runFrom_inv (fun s => s.bus.queueLength = ql) h (fun s op _ hs => by rw [(step_lengths s op).1]; exact hs) _ rfl
  obtain ⟨q, hq'⟩ := revert_connect_head x (run ql bl h).bus c c' hq (by rw [hl]; exact hql) hc
  unfold run at *
  rw [runFrom_append]
  simp only [runFrom_cons, runFrom_nil, step, BufferedBus.get, hq', Option.toList_some]

example : (run 1 1 [.add 0, .connect 1, .get]).bus.queue = [] ∧
    (run 1 1 ([.add 0, .connect 1, .get] ++ [.revert 0 1, .connect 1, .get])).led.returned = [0, 0] := by decide

end Buffered

/-! ## SimpleBus -/

section Simple
open Model.SBusHist Proofs.SBus

/-- **conservation.** added = returned + inside + lost (overwritten or flushed). -/
theorem simple_conservation (h : List Op) :
    (run h).added.Perm ((run h).returned ++ (run h).bus.inside ++ (run h).removed) := by
  have hc : Conserved (run h) :=
    runFrom_inv Conserved h (fun s op _ => conserved_step s op) _ (by intro x; simp [SimpleBus.inside])
  rw [List.perm_iff_count]
  intro x
  have := hc x
  simp only [List.count_append]
  omega

/-- **fifo + exactly once.** The delivered ids are strictly increasing: in add order, no
id twice. -/
theorem simple_fifo (h : List Op) : (run h).returned.Pairwise (· < ·) :=
  (runFrom_inv (fun s => Proofs.Bus.Ord (fun _ => true) s.returned s.bus.inside s.n) h
    (fun s op _ => ord_step s op) _ (Proofs.Bus.ord_nil _)).t_inc

theorem simple_delivered_nodup (h : List Op) : (run h).returned.Nodup :=
  (simple_fifo h).imp (fun hab => Nat.ne_of_lt hab)

/-- **latency.** An id is not handed out before the second `Get` after its `Add`. -/
theorem simple_latency (h1 h2 : List Op) (hg : h2.count .get ≤ 1) :
    h1.length ∉ (run (h1 ++ Op.add :: h2)).returned := by
  have hn : ∀ (h : List Op) (s : St), (runFrom s h).n = s.n + h.length := by
    intro h
    induction h with
    | nil => intro s; rfl
    | cons op h ih => intro s; rw [runFrom_cons, ih, step_n, List.length_cons]; omega
  have hn1 : (run h1).n = h1.length := by unfold run; rw [hn]; simp
  -- before its Add the id is unknown: everything known is `< n`
  have hord := runFrom_inv (fun s => Proofs.Bus.Ord (fun _ => true) s.returned s.bus.inside s.n) h1
    (fun s op _ => ord_step s op) ({} : St) (Proofs.Bus.ord_nil _)
  have hret : h1.length ∉ (run h1).returned := by
    intro hm; have := hord.t_n _ hm; unfold run at hn1; omega
  have hcur : (run h1).bus.current ≠ some h1.length := by
    intro hm
    have := hord.lt h1.length (by unfold run at hm; simp [SimpleBus.inside, hm])
    unfold run at hn1; omega
  unfold run at hret hcur hn1 ⊢
  rw [runFrom_append, runFrom_cons]
  exact not_before_second_get h1.length h2 (step (runFrom {} h1) .add) hret (by rw [step_n]; omega)
    (Or.inr ⟨hg, hcur⟩)

/-- **a cycle later.** … and the second `Get` does hand it out. -/
theorem simple_delivery (b : SimpleBus Nat) (x : Nat) : ((b.add x).get.2.get).1 = some x := rfl

example : (run ([.get] ++ .add :: [.get, .get])).returned = [1] ∧ 1 ∉ (run ([.get] ++ .add :: [.get])).returned := by
  decide

/-- **capacity.** A producer that asks `CanAdd` first never overwrites (loses) an item:
without `Flush`/`Clean` nothing is ever lost. -/
theorem simple_polite_lossless (h : List Op) (hp : ∀ op ∈ h, op = .tryAdd ∨ op = .get) :
    (run h).removed = [] := by
  apply runFrom_inv (fun s => s.removed = []) h _ _ rfl
  intro s op hop hs
  obtain ⟨⟨p, c⟩, n, a, r, rm⟩ := s
  rcases hp op hop with rfl | rfl
  · cases p <;> simp_all [step, SimpleBus.canAdd]
  · exact hs

-- the impolite producer does lose one: id 0 is overwritten by id 1
example : (run [.add, .add, .get, .get]).removed = [0] ∧ (run [.tryAdd, .tryAdd, .get, .get]).removed = [] := by
  decide

/-- **clean.** After `Flush`/`Clean` the bus is empty and no earlier id is handed out. -/
theorem simple_clean (h1 h2 : List Op) (op : Op) (hop : op = .flush ∨ op = .clean) (x : Nat) (hx : x < h1.length) :
    (run (h1 ++ [op])).bus.isEmpty = true ∧
    (run (h1 ++ op :: h2)).returned.count x = (run h1).returned.count x := by
  have hn : ∀ (h : List Op) (s : St), (runFrom s h).n = s.n + h.length := by
    intro h
    induction h with
    | nil => intro s; rfl
    | cons op h ih => intro s; rw [runFrom_cons, ih, step_n, List.length_cons]; omega
  have hn1 : (runFrom {} h1).n = h1.length := by rw [hn]; simp
  unfold run
  rw [runFrom_append, runFrom_append]
  refine ⟨by rcases hop with rfl | rfl <;> rfl, ?_⟩
  have := not_inserted x h2 (step (runFrom {} h1) op)
    (by rcases hop with rfl | rfl <;> simp [step, SimpleBus.flush, SimpleBus.clean, SimpleBus.inside])
    (by rw [step_n, hn1]; omega)
  rw [runFrom_cons, this.2]
  rcases hop with rfl | rfl <;> rfl

end Simple

/-! ## Queue and Broadcast -/

section QueueBroadcast

/-- `Push` puts the value at the back with a fresh handle; iteration is front to back. -/
theorem queue_push_back (q : Queue Nat) (v : Nat) :
    (q.push v).iterator = q.iterator ++ [(q.next, v)] := rfl

/-- pushes and removals keep the handles strictly increasing: iteration order is push
order, and a handle names at most one element -/
theorem queue_fifo (q : Queue Nat) (hs : q.items.Pairwise (fun a b => a.1 < b.1)) (hn : ∀ e ∈ q.items, e.1 < q.next) :
    (∀ v, (q.push v).items.Pairwise (fun a b => a.1 < b.1) ∧ ∀ e ∈ (q.push v).items, e.1 < (q.push v).next) ∧
    (∀ k, (q.remove k).items.Pairwise (fun a b => a.1 < b.1) ∧ ∀ e ∈ (q.remove k).items, e.1 < (q.remove k).next) := by
  refine ⟨fun v => ⟨?_, ?_⟩, fun k => ⟨?_, ?_⟩⟩
  · simp only [Queue.push, List.pairwise_append]
    refine ⟨hs, List.pairwise_singleton _ _, ?_⟩
    intro a ha b hb
    rw [List.mem_singleton] at hb; subst hb; exact hn a ha
  · intro e he
    simp only [Queue.push, List.mem_append, List.mem_singleton] at he ⊢
    rcases he with he | he
    · exact Nat.lt_succ_of_lt (hn e he)
    · subst he; exact Nat.lt_succ_self _
  · exact hs.sublist List.filter_sublist
  · intro e he
    exact hn e (List.mem_filter.mp he).1

example : (((Queue.new 3 : Queue Nat).push 7 |>.push 8).items.Pairwise (fun a b => a.1 < b.1)) ∧
    ∀ e ∈ ((Queue.new 3 : Queue Nat).push 7 |>.push 8).items, e.1 < ((Queue.new 3 : Queue Nat).push 7 |>.push 8).next := by
  decide

/-- `Remove` takes out the named element and nothing else -/
theorem queue_remove (q : Queue Nat) (k : Nat) (e : Nat × Nat) :
    e ∈ (q.remove k).iterator ↔ e ∈ q.iterator ∧ e.1 ≠ k := by
  simp [Queue.remove, Queue.iterator]

/-- a producer that pushes only while `!IsFull()` never exceeds the capacity -/
theorem queue_capacity (q : Queue Nat) (v : Nat) (hcap : q.len ≤ max q.length 0) (hf : q.isFull = false) :
    (q.push v).len ≤ max (q.push v).length 0 := by
  simp only [Queue.isFull, decide_eq_false_iff_not, Int.not_le] at hf
  simp only [Queue.len, Queue.push, List.length_append, List.length_cons, List.length_nil] at hcap ⊢
  omega

example : ((Queue.new 2 : Queue Nat).push 7 |>.push 8).isFull = true ∧
    (((Queue.new 2 : Queue Nat).push 7 |>.push 8).remove 0).iterator = [(1, 8)] := by decide

/-- `Notify` reaches every listener: the next `Read` of listener `id` returns what it
would have returned before, followed by the new item. -/
theorem broadcast_notify_read (b : Broadcast Nat) (t : Nat) (id : Int) (l : List Nat) (b' : Broadcast Nat)
    (h : b.read id = .ok (l, b')) : ∃ b'', (b.notify t).read id = .ok (l ++ [t], b'') := by
  unfold Broadcast.read at h ⊢
  by_cases hid : id < 0
  · simp [hid] at h
  · simp only [hid, if_false] at h ⊢
    cases hl : b.listeners[id.toNat]? with
    | none => simp [hl] at h
    | some li =>
      simp only [hl] at h
      have h1 : l = (li.filter (fun e => !e.2)).map (·.1) := by
        cases h; rfl
      have hf : (li ++ [(t, false)]).filter (fun e => !e.2) = li.filter (fun e => !e.2) ++ [(t, false)] := by
        simp [List.filter_append]
      simp only [Broadcast.notify, List.getElem?_map, hl, Option.map_some, hf, List.map_append, ← h1]
      exact ⟨_, rfl⟩

/-- a committed event is not delivered again; the others are, in the same order -/
theorem broadcast_commit (b : Broadcast Nat) (id i : Nat) (l : List (Nat × Bool)) (e : Nat × Bool)
    (hl : b.listeners[id]? = some l) (he : l[i]? = some e) :
    ∃ b', b.commit id i = .ok b' ∧ b'.listeners[id]? = some (l.set i (e.1, true)) := by
  have hlt : id < b.listeners.length := by
    rcases List.getElem?_eq_some_iff.mp hl with ⟨h, _⟩; exact h
  simp only [Broadcast.commit, hl, he]
  exact ⟨_, rfl, by simp [hlt]⟩

example :
    (do let b ← Broadcast.new (α := Nat) 2
        let b := (b.notify 5).notify 6
        let (_, b) ← b.read 0
        let b ← b.commit 0 0
        let (l0, b) ← b.read 0
        let (l1, _) ← b.read 1
        pure (l0, l1)) = (.ok ([6], [5, 6]) : GoInt.M _) := rfl

end QueueBroadcast

end Props.C14

-- Root of the `MajoranaVerif` library (see /verif/DESIGN.md §3.1).
-- `Gen.*` is regenerated from /repo on every run of every check (bin/check, tie T1).
import MajoranaVerif.Model.GoInt
import MajoranaVerif.Model.Rat
import MajoranaVerif.Model.Ctx
import MajoranaVerif.Model.Roles
import MajoranaVerif.Spec.Isa
import MajoranaVerif.Spec.Exec
import MajoranaVerif.Spec.Asm
import MajoranaVerif.Spec.Run
import MajoranaVerif.Gen.Bytes
import MajoranaVerif.Gen.Latency
import MajoranaVerif.Gen.Risc
import MajoranaVerif.Gen.Opcodes
import MajoranaVerif.Proofs.Bytes
import MajoranaVerif.Proofs.Opcodes
import MajoranaVerif.Props.C02
import MajoranaVerif.Props.C16
import MajoranaVerif.Model.Bus
import MajoranaVerif.Model.LineCache
import MajoranaVerif.Model.KvLru
import MajoranaVerif.Proofs.Bus
import MajoranaVerif.Proofs.LineCache
import MajoranaVerif.Proofs.KvLru
import MajoranaVerif.Props.C13
import MajoranaVerif.Props.C14

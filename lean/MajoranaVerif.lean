-- Root of the `MajoranaVerif` library (see /verif/DESIGN.md §3.1).
import MajoranaVerif.Model.GoInt
